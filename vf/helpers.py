"""Small helpers shared by the per-property contract modules."""
import time, traceback
import z3
from . import smt
from .core import R
from .pyvc import Executor, Unsupported, PyRaise, FuncRef, ModInfo, vrepr, to_z3, to_real


def reals(prefix, n):
    return [z3.Real('%s%d' % (prefix, i)) for i in range(n)]


def model_floats(model, names):
    """Extract float values of named Real constants from a model dict (as produced by smt.check)."""
    out = {}
    for n in names:
        v = model.get(n) if model else None
        if v is None:
            out[n] = 1.0
            continue
        try:
            out[n] = float(_frac(v))
        except Exception:
            out[n] = None
    return out


def _frac(s):
    from fractions import Fraction
    s = s.replace('?', '')
    if '/' in s:
        a, b = s.split('/')
        return Fraction(a.strip()) / Fraction(b.strip())
    return Fraction(s)


_SLOW_OPEN = 0            # per process = per task (vf/core forks one process per task)
SLOW_OPEN_LIMIT = 3
SLOW_OPEN_SECONDS = 8.0


def prove(oid, hyps, goal, func=None, timeout_ms=None, canary=False, inst=None, trusted=None, kind='proof',
          replay=None, finding_key=None):
    """One SMT obligation -> result record.  `replay(model)->witness dict` turns a counter-model into a
    native run; a counterexample that does not reproduce natively demotes the verdict to undecided."""
    global _SLOW_OPEN
    try:
        if _SLOW_OPEN >= SLOW_OPEN_LIMIT and not canary:
            # this task has already spent its patience: several obligations took the solvers' full budgets without being proved (typically a
            # changed function whose every entry is now wrong).  The rest get a short budget - enough for what is still provable, and the
            # failures already recorded carry the verdict.
            r = smt.check(hyps, goal, timeout_ms=min(timeout_ms or smt.Z3_TIMEOUT_MS, 2500), use_cli=False)
            if r['status'] == 'undecided':
                r['reason'] = 'short budget after %d slow undischarged obligations in this task; ' % _SLOW_OPEN + r['reason']
        else:
            r = smt.check(hyps, goal, timeout_ms=timeout_ms)
        if r['status'] != 'proved' and r['seconds'] > SLOW_OPEN_SECONDS:
            _SLOW_OPEN += 1
    except Exception:
        return R(oid, kind, 'error', detail=traceback.format_exc()[-1500:], func=func)
    if canary:
        # a canary is a deliberately wrong postcondition: it must be refuted
        verdict = 'proved' if r['status'] == 'refuted' else ('undecided' if r['status'] == 'undecided' else 'canary-verified')
        return R(oid, kind, verdict, backend=r['backend'], seconds=r['seconds'], detail='canary: ' + r['reason'],
                 func=func, canary=True)
    witness = None
    verdict = r['status']
    detail = r['reason']
    if verdict == 'refuted':
        witness = dict(model=r['model'], replayed=False)
        if replay is not None and r['model'] is not None:
            try:
                w = replay(r['model'])
                witness.update(w or {})
                if w and w.get('replayed') and w.get('postcondition_holds_natively'):
                    verdict = 'undecided'
                    detail = 'counter-model does not reproduce on the real code (abstraction artefact): %s' % w
            except Exception:
                witness['replay_error'] = traceback.format_exc()[-800:]
        detail = detail + ' model=' + str(r['model'])[:600]
    return R(oid, kind, verdict, backend=r['backend'], seconds=r['seconds'], detail=detail, witness=witness,
             func=func, inst=inst, trusted=trusted, finding_key=finding_key)


def cover(oid, conds, func=None):
    t0 = time.time()
    s = smt.sat(conds)
    return R(oid, 'proof', 'proved' if s else 'vacuous', backend='z3', seconds=time.time() - t0,
             detail='cover sat' if s else 'precondition/path unsatisfiable or unknown', func=func, cover=True)


def struct(oid, ok, detail='', func=None, witness=None, finding_key=None, undecided=False):
    v = 'proved' if ok else ('undecided' if undecided else 'refuted')
    return R(oid, 'struct', v, backend='ast', detail=detail, func=func, witness=witness, finding_key=finding_key)


def guarded(oid, func=None):
    """Decorator: turn Unsupported / unexpected exceptions of an obligation generator into undecided / error."""
    def deco(f):
        def w(*a, **k):
            try:
                out = f(*a, **k)
                return out if isinstance(out, list) else [out]
            except Unsupported as e:
                return [R(oid, 'proof', 'undecided', detail='outside the modelled subset: %s' % e, func=func)]
            except KeyError as e:
                return [R(oid, 'struct', 'undecided', detail='contract no longer matches the source: %s' % e, func=func)]
        return w
    return deco


def prove_eq(oid, hyps, a, b, func=None, timeout_ms=None, replay=None, inst=None, trusted=None, finding_key=None,
             z3_first_ms=3000):
    """hyps |- a == b over the reals.  Quick z3 attempt, then the exact ring normaliser (vf.polyring);
    a counter-model is only ever taken from the SMT solver."""
    from . import polyring
    global _SLOW_OPEN
    a, b = to_real(a), to_real(b)
    t0 = time.time()
    if _SLOW_OPEN >= SLOW_OPEN_LIMIT:
        return prove(oid, hyps, a == b, func=func, timeout_ms=timeout_ms, replay=replay, inst=inst, trusted=trusted, finding_key=finding_key)
    res = _prove_eq(oid, hyps, a, b, func, timeout_ms, replay, inst, trusted, finding_key, z3_first_ms, t0)
    if res['verdict'] != 'proved' and time.time() - t0 > SLOW_OPEN_SECONDS and _SLOW_OPEN < SLOW_OPEN_LIMIT:
        _SLOW_OPEN = max(_SLOW_OPEN, 0) + 1 if res.get('seconds', 0) <= SLOW_OPEN_SECONDS else _SLOW_OPEN     # (prove() has counted the long ones itself)
    return res


def _prove_eq(oid, hyps, a, b, func, timeout_ms, replay, inst, trusted, finding_key, z3_first_ms, t0):
    from . import polyring
    r = smt.check(hyps, a == b, timeout_ms=z3_first_ms, use_cli=False)
    if r['status'] in ('proved', 'refuted'):
        return prove(oid, hyps, a == b, func=func, timeout_ms=z3_first_ms * 4, replay=replay, inst=inst, trusted=trusted,
                     finding_key=finding_key) if r['status'] == 'refuted' else \
            R(oid, 'proof', 'proved', backend='z3', seconds=r['seconds'], detail='unsat', func=func, inst=inst, trusted=trusted)
    try:
        st, info = polyring.decide_eq(hyps, a, b)
    except polyring.NotRing as e:
        st, info = 'undecided', dict(notring=str(e))
    if st != 'proved':
        # congruence lemmas: f(s) == f(t) whenever s == t is a ring identity under the hypotheses
        lem = _congruence_lemmas(hyps, a, b)
        if lem:
            r2 = smt.check(list(hyps) + lem, a == b, timeout_ms=z3_first_ms * 3, use_cli=False)
            if r2['status'] == 'proved':
                return R(oid, 'proof', 'proved', backend='polyring+z3', seconds=time.time() - t0,
                         detail='%d congruence lemmas f(s)=f(t) (argument equalities are ring identities), then unsat' % len(lem),
                         func=func, inst=inst, trusted=(trusted or []) + ['vf/polyring.py exact rational-function normaliser'])
            try:
                a2, b2 = _rewrite_apps(a, lem), _rewrite_apps(b, lem)
                st, info = polyring.decide_eq(hyps, a2, b2)
            except polyring.NotRing as e:
                st, info = 'undecided', dict(notring=str(e))
    if st == 'proved':
        return R(oid, 'proof', 'proved', backend='polyring+z3', seconds=time.time() - t0,
                 detail='normal form of lhs-rhs is the zero polynomial; %s divisors shown non-zero by z3' % info.get('divisors'),
                 func=func, inst=inst, trusted=(trusted or []) + ['vf/polyring.py exact rational-function normaliser'])
    if st == 'refuted-poly':
        m = _random_countermodel(hyps, a, b)
        if m is not None:
            witness = dict(model=m, replayed=False)
            verdict, detail = 'refuted', 'normal forms differ; exact evaluation at a rational point satisfying the hypotheses gives lhs != rhs; model=%s' % m
            if replay is not None:
                try:
                    w = replay(m)
                    witness.update(w or {})
                    if w and w.get('replayed') and w.get('postcondition_holds_natively'):
                        verdict, detail = 'undecided', 'counter-model does not reproduce natively: %s' % w
                except Exception:
                    witness['replay_error'] = traceback.format_exc()[-800:]
            return R(oid, 'proof', verdict, backend='polyring', seconds=time.time() - t0, detail=detail, witness=witness,
                     func=func, inst=inst, trusted=trusted, finding_key=finding_key)
        timeout_ms = min(timeout_ms or 20000, 20000)
    # not an identity of rational functions (or outside the ring fragment): ask the solvers
    return prove(oid, hyps, a == b, func=func, timeout_ms=timeout_ms, replay=replay, inst=inst, trusted=trusted,
                 finding_key=finding_key)


def discharge(goals, pc, timeout_ms=10000):
    """goals: list of (z3 Bool, where) from term_eq.  Returns None if all are valid under pc, else a
    description of the first that is not (with the counter-model)."""
    for g, where in goals:
        gs = z3.simplify(g)
        if z3.is_true(gs):
            continue
        r = smt.check(list(pc), gs, timeout_ms=timeout_ms)
        if r['status'] != 'proved':
            return '%s: %s not valid (%s) %s' % (where, gs, r['status'], str(r['model'])[:300])
    return None


def _random_countermodel(hyps, a, b, tries=60):
    """Exact evaluation of hyps and a==b at random small rational points (only plain Real/Int constants)."""
    import random
    rng = random.Random(12345)
    consts = {}

    def collect(e):
        if z3.is_const(e) and e.decl().kind() == z3.Z3_OP_UNINTERPRETED:
            consts[e.decl().name()] = e
        elif z3.is_app(e):
            if e.decl().kind() == z3.Z3_OP_UNINTERPRETED and e.num_args() > 0:
                raise ValueError('uninterpreted function')
            for c in e.children():
                collect(c)
    try:
        for h in list(hyps) + [a, b]:
            collect(h)
    except ValueError:
        return None
    for t in range(tries):
        sub = []
        vals = {}
        for n, c in consts.items():
            if z3.is_bool(c):
                v = rng.choice([True, False])
                sub.append((c, z3.BoolVal(v)))
            elif z3.is_int(c):
                v = rng.randint(-3, 9)
                sub.append((c, z3.IntVal(v)))
            else:
                v = rng.randint(-12, 12) if t % 2 == 0 else rng.randint(1, 40)
                den = rng.choice([1, 1, 2, 3, 4, 5])
                sub.append((c, z3.RealVal(v) / den))
                v = '%d/%d' % (v, den)
            vals[n] = str(v)
        try:
            hv = [z3.simplify(z3.substitute(h, *sub)) for h in hyps]
            if not all(z3.is_true(x) for x in hv):
                continue
            eq = z3.simplify(z3.substitute(a == b, *sub))
            if z3.is_false(eq):
                return vals
        except z3.Z3Exception:
            continue
    return None


def bounded_tasks(pid, tier):
    """Tasks of props/bounded_<pid>.py if that module exists (bounded stand-in drivers)."""
    import importlib, sys
    try:
        m = importlib.import_module('props.bounded_' + pid)
    except ModuleNotFoundError:
        return []
    return list(m.tasks(tier))


def _apps(e, out):
    if z3.is_app(e):
        if e.decl().kind() == z3.Z3_OP_UNINTERPRETED and e.num_args() > 0 and z3.is_real(e):
            if not any(e.eq(x) for x in out):
                out.append(e)
        for c in e.children():
            _apps(c, out)


def _congruence_lemmas(hyps, a, b):
    """equalities f(s) == f(t) between applications of the same uninterpreted function occurring in a / b whose arguments are
    equal as rational functions (decided by the ring normaliser under hyps)."""
    from . import polyring
    apps = []
    _apps(a, apps)
    _apps(b, apps)
    lem = []
    for i in range(len(apps)):
        for j in range(i + 1, len(apps)):
            x, y = apps[i], apps[j]
            if x.decl().name() != y.decl().name() or x.num_args() != y.num_args():
                continue
            ok = True
            for s, t in zip(x.children(), y.children()):
                if s.eq(t):
                    continue
                if not z3.is_real(s):
                    ok = z3.is_true(z3.simplify(s == t))
                    if not ok:
                        break
                    continue
                try:
                    st, _ = polyring.decide_eq(hyps, s, t)
                except polyring.NotRing:
                    st = 'no'
                if st != 'proved':
                    ok = False
                    break
            if ok:
                lem.append(x == y)
    return lem


def _rewrite_apps(e, lem):
    """replace the right-hand application of every lemma by the left-hand one"""
    subs = [(l.arg(1), l.arg(0)) for l in lem]
    for _ in range(3):
        e = z3.substitute(e, *subs)
    return e
