"""E2: symbolic executor over the *real* Python source of /repo (parsed with `ast` on every run).

Path exploration is by replay: the function is re-executed from the start for every sequence of
branch decisions (no state copying), so mutable objects are ordinary Python objects.

Values
  scalars        z3 Real/Int/Bool expressions, or exact Python numbers (int, Fraction, bool)
  str, None      themselves
  tuple          Python tuple of values;   VList / VDict  mutable containers with identity
  Tm             opaque first-order term: the result of a call to a function kept abstract, of
                 an attribute / subscript / arithmetic on such a result ("program algebra")
  Closure        lambda / nested def with its defining environment;  FuncRef  a repo function
  PyFn           a Python callable supplied by the contract (spec functions, builtins)

Semantics assumed (also listed in every evidence file that uses this engine): floats are reals and
float literals are exact decimals; ints unbounded; `/` total; no operator overloading other than what
the term constructors model; exceptions arise only from `raise`, tuple-unpack arity, unbound names,
subscripts of concrete containers, and modelled callee preconditions; dict/set order irrelevant.
"""
import ast, os, sys, itertools
from fractions import Fraction
import z3
from .common import REPO

RealS = z3.RealSort()


class Unsupported(Exception):
    pass


class PyRaise(Exception):
    """A Python exception raised by the analysed code."""
    def __init__(self, kind, msg='', node=None):
        self.kind, self.msg, self.node = kind, msg, node
        Exception.__init__(self, '%s: %s' % (kind, msg))


class _Return(Exception):
    def __init__(self, v):
        self.v = v


class _Break(Exception):
    pass


class _Continue(Exception):
    pass


class _Infeasible(Exception):
    pass


# ---------------------------------------------------------------- values
class Tm:
    """Opaque term."""
    __slots__ = ('op', 'args', 'attrs', 'uid')
    _n = 0

    def __init__(self, op, *args):
        self.op, self.args = op, tuple(args)
        self.attrs = {}
        Tm._n += 1
        self.uid = Tm._n

    def __repr__(self):
        if not self.args:
            return self.op
        return '%s(%s)' % (self.op, ', '.join(vrepr(a) for a in self.args))


class VList:
    def __init__(self, items, kind='list'):
        self.items = list(items)
        self.kind = kind     # list | ndarray
        self.owner = None    # name of the parameter this object was passed in as (frame tracking)
        self.attrs = {}      # e.g. layout='any' (set by a contract on an input array: memory layout unconstrained)

    def __repr__(self):
        return '[%s]' % ', '.join(vrepr(a) for a in self.items)


class VDict:
    def __init__(self, d=None):
        self.d = dict(d or {})
        self.owner = None
        self.default_factory = None      # collections.defaultdict

    def __repr__(self):
        return '{%s}' % ', '.join('%r: %s' % (k, vrepr(v)) for k, v in self.d.items())


class MemoHit(Exception):
    def __init__(self, key):
        self.key = key


class MemoProbe(VDict):
    """Stands in for a module-level memo dict: the first lookup/membership test stops execution and reports the key."""
    pass


class VObj:
    """A mutable record with concrete attribute names (e.g. a module-level object we track)."""
    def __init__(self, name, **attrs):
        self.name = name
        self.attrs = dict(attrs)

    def __repr__(self):
        return '<%s>' % self.name


class ModuleRef:
    def __init__(self, name):
        self.name = name

    def __repr__(self):
        return '<module %s>' % self.name


_KNOWN = None


def _known_functions():
    global _KNOWN
    if _KNOWN is None:
        try:
            import json as _json
            with open(os.path.join(os.path.dirname(os.path.dirname(os.path.abspath(__file__))), 'contracts', 'known_functions.json')) as fh:
                _KNOWN = set(_json.load(fh)['functions'])
        except Exception:
            _KNOWN = None
            return _All()
    return _KNOWN


class _All:
    def __contains__(self, x):
        return True


class FuncRef:
    def __init__(self, mod, node, qualname):
        self.mod, self.node, self.qualname = mod, node, qualname

    @property
    def fullname(self):
        return '%s.%s' % (self.mod.name, self.qualname)

    def __repr__(self):
        return '<func %s>' % self.fullname


class ClassRef:
    def __init__(self, mod, node):
        self.mod, self.node = mod, node

    @property
    def fullname(self):
        return 'class:%s.%s' % (self.mod.name, self.node.name)

    def __repr__(self):
        return self.fullname


class Closure:
    def __init__(self, node, env, mod, name='<lambda>'):
        self.node, self.env, self.mod, self.name = node, env, mod, name
        self.attrs = {}
        self.defaults = None      # (positional defaults, kw-only defaults) evaluated when the def/lambda was executed

    def __repr__(self):
        return '<closure %s@%d>' % (self.name, getattr(self.node, 'lineno', 0))


class PyFn:
    def __init__(self, fn, name=None, wants_ex=False):
        self.fn, self.name, self.wants_ex = fn, name or getattr(fn, '__name__', 'pyfn'), wants_ex

    def __repr__(self):
        return '<pyfn %s>' % self.name


class Starred:
    def __init__(self, v):
        self.v = v


def vrepr(v):
    if isinstance(v, z3.ExprRef):
        s = str(z3.simplify(v)) if not z3.is_const(v) else str(v)
        return s.replace('\n', ' ')
    if isinstance(v, tuple):
        return '(%s)' % ', '.join(vrepr(a) for a in v)
    if isinstance(v, Fraction):
        return str(v)
    return repr(v)


def is_sym(v):
    return isinstance(v, z3.ExprRef)


def is_num(v):
    return isinstance(v, (int, Fraction, float)) and not isinstance(v, bool)


def to_z3(v):
    """Python number / z3 expr -> z3 arithmetic expr."""
    if isinstance(v, z3.ExprRef):
        return v
    if isinstance(v, bool):
        return z3.BoolVal(v)
    if isinstance(v, int):
        return z3.RealVal(v)
    if isinstance(v, Fraction):
        return z3.RealVal(v.numerator) / z3.RealVal(v.denominator) if v.denominator != 1 else z3.RealVal(v.numerator)
    if isinstance(v, float):
        return to_z3(Fraction(repr(v)))
    raise Unsupported('to_z3(%r)' % (v,))


def to_real(v):
    e = to_z3(v)
    if z3.is_int(e):
        return z3.ToReal(e)
    if z3.is_bool(e):
        return z3.If(e, z3.RealVal(1), z3.RealVal(0))
    return e


def exact(v):
    """Normalise python floats to Fractions (float literals are exact decimals)."""
    if isinstance(v, float):
        if v != v or v in (float('inf'), float('-inf')):
            return Tm('float:%r' % v)
        return Fraction(repr(v))
    return v


# uninterpreted real functions
_ufs = {}


def uf(name, arity=1, rng=None):
    key = (name, arity, str(rng))
    if key not in _ufs:
        _ufs[key] = z3.Function(name, *([RealS] * arity + [rng or RealS]))
    return _ufs[key]


def named_bool(name):
    return z3.Bool(name)


# ---------------------------------------------------------------- module loading
class ModInfo:
    _cache = {}

    def __init__(self, relpath, name):
        self.relpath, self.name = relpath, name
        with open(os.path.join(REPO, relpath), encoding='utf-8') as f:
            self.src = f.read()
        self.tree = ast.parse(self.src)
        self.funcs, self.classes, self.assigns, self.imports = {}, {}, {}, {}
        self.func_attrs = {}   # 'f' -> {'__param_names__': node}
        for st in self.tree.body:
            self._index(st)

    def _index(self, st):
        if isinstance(st, (ast.FunctionDef,)):
            self.funcs[st.name] = st
        elif isinstance(st, ast.ClassDef):
            self.classes[st.name] = st
            for s2 in st.body:
                if isinstance(s2, ast.FunctionDef):
                    self.funcs[st.name + '.' + s2.name] = s2
        elif isinstance(st, ast.Import):
            for a in st.names:
                self.imports[a.asname or a.name.split('.')[0]] = ('module', a.name if a.asname else a.name.split('.')[0])
        elif isinstance(st, ast.ImportFrom):
            for a in st.names:
                self.imports[a.asname or a.name] = ('from', st.module, a.name, st.level)
        elif isinstance(st, ast.Assign):
            for t in st.targets:
                if isinstance(t, ast.Name):
                    self.assigns[t.id] = st.value
                elif isinstance(t, ast.Attribute) and isinstance(t.value, ast.Name):
                    self.func_attrs.setdefault(t.value.id, {})[t.attr] = st.value
        elif isinstance(st, (ast.If, ast.Try)):
            for s2 in st.body:
                self._index(s2)

    @classmethod
    def load(cls, relpath):
        if relpath not in cls._cache:
            name = relpath[:-3].replace('/', '.')
            if name.endswith('.__init__'):
                name = name[:-9]
            cls._cache[relpath] = ModInfo(relpath, name)
        return cls._cache[relpath]

    @classmethod
    def by_name(cls, dotted):
        """'dadi.Numerics' -> ModInfo or None"""
        rel = dotted.replace('.', '/')
        for cand in (rel + '.py', rel + '/__init__.py'):
            if os.path.exists(os.path.join(REPO, cand)):
                return cls.load(cand)
        return None


# ---------------------------------------------------------------- path context
class PathCtx:
    def __init__(self, prefix, base_pc, ex):
        self.prefix = list(prefix)
        self.decisions = []       # (taken: bool, forced: bool)
        self.pc = list(base_pc)
        self.log = []             # effect log
        self.ex = ex
        self.fresh_n = 0

    def decide(self, cond):
        """cond: z3 Bool.  Returns the branch taken on this path."""
        cond = z3.simplify(cond)
        if z3.is_true(cond):
            return True
        if z3.is_false(cond):
            return False
        i = len(self.decisions)
        if i < len(self.prefix):
            taken = self.prefix[i]
            self.decisions.append((taken, False))
        else:
            ft = self.ex.feasible(self.pc + [cond])
            ff = self.ex.feasible(self.pc + [z3.Not(cond)])
            if ft and not ff:
                self.decisions.append((True, True))
                taken = True
            elif ff and not ft:
                self.decisions.append((False, True))
                taken = False
            elif not ft and not ff:
                raise _Infeasible()
            else:
                self.decisions.append((True, False))
                taken = True
        self.pc.append(cond if taken else z3.Not(cond))
        return taken

    def fresh(self, base, sort=None):
        self.fresh_n += 1
        return z3.Const('%s!%d' % (base, self.fresh_n), sort or RealS)


class Path:
    def __init__(self, ctx, outcome, value, exc=None):
        self.pc, self.log = ctx.pc, ctx.log
        self.outcome = outcome     # 'return' | 'raise'
        self.value = value
        self.exc = exc
        self.decisions = ctx.decisions
        self.env = None

    def __repr__(self):
        return '<Path %s %s pc=%s>' % (self.outcome, vrepr(self.value) if self.outcome == 'return' else self.exc, self.pc)


# ---------------------------------------------------------------- executor
class Executor:
    def __init__(self, policy=None, max_paths=400, feas_timeout_ms=1500, abstract_hook=None,
                 getattr_hook=None, max_unroll=64):
        self.policy = policy or (lambda fref: 'abstract')
        self.max_paths = max_paths
        self.feas_timeout_ms = feas_timeout_ms
        self.abstract_hook = abstract_hook     # (ex, fref_or_name, args, kwargs, ctx) -> value | NotImplemented
        self.getattr_hook = getattr_hook       # (ex, obj, name, ctx) -> value | NotImplemented
        self.max_unroll = max_unroll
        self.ctx = None
        self.call_depth = 0
        self.builtins = self._mk_builtins()
        self.module_overrides = {}             # ('dadi.Numerics','default_grid') -> value
        self.strict_defs = True                # unassigned locals raise UnboundLocalError

    # ---- solver helpers
    def feasible(self, conds):
        s = z3.Solver()
        s.set('timeout', self.feas_timeout_ms)
        s.add(*conds)
        r = s.check()
        return r != z3.unsat

    # ---- entry points
    def func(self, relpath, qualname):
        mod = ModInfo.load(relpath)
        if qualname not in mod.funcs:
            raise KeyError('%s has no function %s' % (relpath, qualname))
        return FuncRef(mod, mod.funcs[qualname], qualname)

    def explore(self, thunk, base_pc=()):
        """thunk(ex) -> value ; explores all paths.  Returns list[Path]."""
        paths, stack = [], [[]]
        while stack:
            prefix = stack.pop()
            ctx = PathCtx(prefix, base_pc, self)
            self.ctx = ctx
            self.call_depth = 0
            try:
                v = thunk(self)
                p = Path(ctx, 'return', v)
            except PyRaise as e:
                p = Path(ctx, 'raise', None, e)
            except _Infeasible:
                p = None
            if p is not None:
                paths.append(p)
            if len(paths) > self.max_paths:
                if getattr(self, 'truncate_paths', False):
                    self.truncated = True          # the caller may still refute on the paths explored; it must not claim a proof
                    break
                raise Unsupported('more than %d paths' % self.max_paths)
            # schedule alternatives for new, unforced decisions
            for i in range(len(prefix), len(ctx.decisions)):
                taken, forced = ctx.decisions[i]
                if not forced:
                    stack.append([d for d, _ in ctx.decisions[:i]] + [not taken])
        self.ctx = None
        return paths

    def run(self, fref, args=(), kwargs=None, base_pc=()):
        if isinstance(fref, FuncRef) and '.' in fref.qualname and args and isinstance(args[0], Tm) and '__class__' not in args[0].attrs:
            cname = fref.qualname.split('.')[0]
            if cname in fref.mod.classes:
                args[0].attrs['__class__'] = ClassRef(fref.mod, fref.mod.classes[cname])      # the receiver of a method is an instance of its class
        def thunk(ex):
            if isinstance(fref, FuncRef):
                return ex.apply(fref.node, None, fref.mod, list(args), dict(kwargs or {}), fref.qualname)
            return ex.call(fref, list(args), dict(kwargs or {}))
        return self.explore(thunk, base_pc)

    # ---- calls
    def call(self, f, args, kwargs, node=None):
        # expand starred
        flat = []
        for a in args:
            if isinstance(a, Starred):
                flat.extend(self.iterate(a.v))
            else:
                flat.append(a)
        args = flat
        if isinstance(f, PyFn):
            if f.wants_ex:
                return f.fn(self, *args, **kwargs)
            return f.fn(*args, **kwargs)
        if isinstance(f, Closure):
            return self.apply(f.node, f.env, f.mod, args, kwargs, f.name, defaults=f.defaults)
        if isinstance(f, FuncRef):
            pol = self.policy(f)
            if pol == 'abstract' and f.fullname not in _known_functions():
                # a function the contracts were never written against (a helper extracted by a refactor, a renamed function): there is no
                # contract to abstract it by, so execute it
                pol = 'inline'
            if pol == 'inline':
                return self.apply(f.node, None, f.mod, args, kwargs, f.qualname)
            if callable(pol):
                # a contract's stand-in for the callee reads its arguments by position or by name: hand it both views, however the call was
                # written (keyword arguments that continue the positional prefix of the real signature are also given positionally)
                a_ = f.node.args
                names = [x.arg for x in a_.posonlyargs + a_.args]
                pos = list(args)
                if not a_.vararg and len(pos) <= len(names):
                    for n in names[len(pos):]:
                        if n in kwargs:
                            pos.append(kwargs[n])
                        else:
                            break
                return pol(self, f, pos, kwargs)
            return self.abstract_call(f, args, kwargs)
        if isinstance(f, (Tm, ClassRef)):
            return self.abstract_call(f, args, kwargs)
        if isinstance(f, type) and f in (int, float, str, bool, list, tuple, dict):
            return self.builtins[f.__name__].fn(*args, **kwargs)
        raise Unsupported('call of %r' % (f,))

    def bind(self, fnode, mod, args, kwargs, env_for_defaults, evaluated=None):
        """Python argument binding against the real signature.  Returns dict name->value."""
        a = fnode.args
        names = [x.arg for x in a.posonlyargs + a.args]
        out = {}
        if len(args) > len(names) and not a.vararg:
            raise PyRaise('TypeError', 'too many positional arguments for %s' % getattr(fnode, 'name', 'lambda'))
        for n, v in zip(names, args):
            out[n] = v
        if a.vararg:
            out[a.vararg.arg] = tuple(args[len(names):])
        kw = dict(kwargs)
        for n in names[len(args):] + [x.arg for x in a.kwonlyargs]:
            if n in kw:
                out[n] = kw.pop(n)
        for n in list(kw):
            if n in out:
                raise PyRaise('TypeError', 'multiple values for argument %s' % n)
        if a.kwarg:
            out[a.kwarg.arg] = VDict(kw)
        elif kw:
            raise PyRaise('TypeError', 'unexpected keyword argument(s) %s for %s' % (sorted(kw), getattr(fnode, 'name', 'lambda')))
        # defaults.  Python evaluates them once, when the `def` is executed: for a module-level function that is import time, so a module global
        # a contract overrides (a run-time switch such as Integration.use_delj_trick) is seen with its *import-time* value, not the overridden one
        defaults = a.defaults
        off = len(names) - len(defaults)
        prev = getattr(self, '_import_time_globals', False)
        self._import_time_globals = evaluated is None
        try:
            for i, n in enumerate(names):
                if n not in out:
                    if i >= off:
                        out[n] = evaluated[0][i - off] if evaluated is not None else self.eval(defaults[i - off], env_for_defaults, mod)
                    else:
                        raise PyRaise('TypeError', 'missing argument %s for %s' % (n, getattr(fnode, 'name', 'lambda')))
            for j, (x, d) in enumerate(zip(a.kwonlyargs, a.kw_defaults)):
                if x.arg not in out:
                    if d is None:
                        raise PyRaise('TypeError', 'missing kw-only argument %s' % x.arg)
                    out[x.arg] = evaluated[1][j] if evaluated is not None else self.eval(d, env_for_defaults, mod)
        finally:
            self._import_time_globals = prev
        return out

    def apply(self, fnode, closure_env, mod, args, kwargs, name, defaults=None):
        self.call_depth += 1
        if self.call_depth > 60:
            raise Unsupported('call depth')
        try:
            defenv = closure_env if closure_env is not None else Env(None, mod)
            local = Env(closure_env, mod)
            local.vars.update(self.bind(fnode, mod, args, kwargs, defenv, defaults))
            local.locals_declared = _assigned_names(fnode)
            if isinstance(fnode, ast.Lambda):
                return self.eval(fnode.body, local, mod)
            try:
                self.exec_block(fnode.body, local, mod)
            except _Return as r:
                return r.v
            return None
        finally:
            self.call_depth -= 1

    def abstract_call(self, f, args, kwargs):
        if self.abstract_hook is not None:
            r = self.abstract_hook(self, f, args, kwargs, self.ctx)
            if r is not NotImplemented:
                return r
        name = f.fullname if isinstance(f, (FuncRef, ClassRef)) else vrepr(f)
        if isinstance(f, Tm) and f.op in ('attr:sf', 'attr:cdf', 'attr:pmf') and len(f.args) == 1 and vrepr(f.args[0]).rstrip(')').endswith('.binom') \
                and len(args) == 3 and not kwargs:
            # scipy.stats.binom (documented): pmf(k, n, p) = C(n,k) p^k (1-p)^(n-k); cdf(k) = P(X <= k); sf(k) = P(X > k) - the STRICT upper tail
            k_, n_, p_ = exact(args[0]), exact(args[1]), exact(args[2])
            if isinstance(k_, VList) and k_.kind == 'ndarray' and all(isinstance(exact(i), (int, Fraction)) and not isinstance(exact(i), bool) for i in k_.items):
                # vectorised over an integer array of k (numpy broadcasting of the first argument)
                return VList([self.abstract_call(f, [i, args[1], args[2]], kwargs) for i in k_.items], 'ndarray')
            if isinstance(k_, (int, Fraction)) and isinstance(n_, (int, Fraction)) and int(k_) == k_ and int(n_) == n_ and 0 <= n_ <= 40 and is_scalar(p_):
                import math as _m
                k_, n_ = int(k_), int(n_)
                pr = to_real(p_)

                def pmf(j):
                    if j < 0 or j > n_:
                        return z3.RealVal(0)
                    t = z3.RealVal(_m.comb(n_, j))
                    for _ in range(j):
                        t = t * pr
                    for _ in range(n_ - j):
                        t = t * (1 - pr)
                    return t
                rng_ = {'attr:pmf': [k_], 'attr:cdf': range(0, k_ + 1), 'attr:sf': range(k_ + 1, n_ + 1)}[f.op]
                tot = z3.RealVal(0)
                for j in rng_:
                    tot = tot + pmf(j)
                return tot
        if isinstance(f, FuncRef):
            try:
                bound = self.bind(f.node, f.mod, args, kwargs, Env(None, f.mod))
                a = f.node.args
                order = [x.arg for x in a.posonlyargs + a.args] + ([a.vararg.arg] if a.vararg else []) + \
                        [x.arg for x in a.kwonlyargs] + ([a.kwarg.arg] if a.kwarg else [])
                t = Tm('call:' + name, *[bound[n] for n in order])
                t.attrs['__argnames__'] = order
            except Unsupported:
                t = Tm('call:' + name, *args, *[('kw', k, v) for k, v in sorted(kwargs.items())])
        else:
            t = Tm('call:' + name, *args, *[('kw', k, v) for k, v in sorted(kwargs.items())])
        self.ctx.log.append(('call', name, t))
        return t

    # ---- iteration
    def iterate(self, v):
        if isinstance(v, (tuple, list)):
            return list(v)
        if isinstance(v, VList):
            return list(v.items)
        if isinstance(v, VDict):
            return list(v.d.keys())
        if isinstance(v, range):
            return list(v)
        if isinstance(v, str):
            return list(v)
        if isinstance(v, Tm) and '__len__' in v.attrs:
            return [self.getitem(v, i) for i in range(v.attrs['__len__'])]
        raise Unsupported('iteration over %s' % vrepr(v))

    # ---- statements
    def exec_block(self, stmts, env, mod):
        for st in stmts:
            self.exec_stmt(st, env, mod)

    def exec_stmt(self, st, env, mod):
        m = getattr(self, 'st_' + type(st).__name__, None)
        if m is None:
            raise Unsupported('statement %s at %s:%d' % (type(st).__name__, mod.relpath, st.lineno))
        return m(st, env, mod)

    def st_Expr(self, st, env, mod):
        if isinstance(st.value, ast.Constant):
            return
        self.eval(st.value, env, mod)

    def st_Pass(self, st, env, mod):
        pass

    def st_Assign(self, st, env, mod):
        v = self.eval(st.value, env, mod)
        for t in st.targets:
            self.assign(t, v, env, mod)

    def st_AnnAssign(self, st, env, mod):
        if st.value is not None:
            self.assign(st.target, self.eval(st.value, env, mod), env, mod)

    def st_AugAssign(self, st, env, mod):
        cur = self.eval(_load(st.target), env, mod)
        v = self.eval(st.value, env, mod)
        if isinstance(cur, VList) and cur.kind == 'list' and isinstance(st.op, ast.Add):
            cur.items.extend(self.iterate(v))
            self._mutated(cur, 'extend')
            return
        r = self.binop(st.op, cur, v)
        if isinstance(cur, VList) and cur.kind == 'ndarray' and isinstance(r, VList) and isinstance(st.target, (ast.Name, ast.Attribute)):
            # numpy's augmented assignment on an array updates it IN PLACE: every other reference to the same array (a cache entry,
            # the caller's argument, a full-slice view) sees the change
            def same_shape(a, b):
                if isinstance(a, VList) != isinstance(b, VList):
                    return False
                if not isinstance(a, VList):
                    return True
                return len(a.items) == len(b.items) and all(same_shape(x, y) for x, y in zip(a.items, b.items))
            if same_shape(cur, r):
                def put(a, b):
                    for i, (x, y) in enumerate(zip(a.items, b.items)):
                        if isinstance(x, VList):
                            put(x, y)
                        else:
                            a.items[i] = y
                put(cur, r)
                self._mutated(cur, 'inplace-' + type(st.op).__name__)
                return
        self.assign(st.target, r, env, mod, aug=True)

    def st_Return(self, st, env, mod):
        raise _Return(self.eval(st.value, env, mod) if st.value is not None else None)

    def st_Raise(self, st, env, mod):
        if st.exc is None:
            raise PyRaise('reraise', '', st)
        kind, msg = 'Exception', ''
        e = st.exc
        if isinstance(e, ast.Call):
            kind = _dotted(e.func) or 'Exception'
            if e.args and isinstance(e.args[0], ast.Constant):
                msg = str(e.args[0].value)
        else:
            kind = _dotted(e) or 'Exception'
        raise PyRaise(kind.split('.')[-1], msg, st)

    def st_If(self, st, env, mod):
        if self.truth(self.eval(st.test, env, mod)):
            self.exec_block(st.body, env, mod)
        else:
            self.exec_block(st.orelse, env, mod)

    def _note_unordered(self, v, node, mod):
        # iterating a set of two or more elements in a `for` / comprehension: the order is an accident of hashing (for strings: of the hash seed).
        # The model iterates in first-occurrence order; the event is logged so that a contract can demand that no result depends on such an order.
        if isinstance(v, VList) and v.kind == 'set' and len(v.items) > 1:
            self.ctx.log.append(('unordered-iteration', '%s:%d' % (mod.relpath, getattr(node, 'lineno', 0)), len(v.items)))

    def st_For(self, st, env, mod):
        itv = self.eval(st.iter, env, mod)
        self._note_unordered(itv, st, mod)
        it = self.iterate(itv)
        if len(it) > self.max_unroll:
            raise Unsupported('loop of %d iterations' % len(it))
        broke = False
        for v in it:
            self.assign(st.target, v, env, mod)
            try:
                self.exec_block(st.body, env, mod)
            except _Break:
                broke = True
                break
            except _Continue:
                continue
        if not broke:
            self.exec_block(st.orelse, env, mod)

    def st_While(self, st, env, mod):
        n = 0
        while self.truth(self.eval(st.test, env, mod)):
            n += 1
            if n > self.max_unroll:
                raise Unsupported('while loop beyond %d iterations at %s:%d' % (self.max_unroll, mod.relpath, st.lineno))
            try:
                self.exec_block(st.body, env, mod)
            except _Break:
                break
            except _Continue:
                continue

    def st_Break(self, st, env, mod):
        raise _Break()

    def st_Continue(self, st, env, mod):
        raise _Continue()

    def st_Delete(self, st, env, mod):
        for t in st.targets:
            if isinstance(t, ast.Name):
                env.vars.pop(t.id, None)
            elif isinstance(t, ast.Subscript):
                obj = self.eval(t.value, env, mod)
                k = self.eval(t.slice, env, mod)
                if isinstance(obj, VDict):
                    if k not in obj.d:
                        raise PyRaise('KeyError', repr(k))
                    del obj.d[k]
                    self._mutated(obj, 'delitem')
                elif isinstance(obj, VList) and isinstance(k, int):
                    try:
                        del obj.items[k]
                    except IndexError:
                        raise PyRaise('IndexError', 'list assignment index out of range')
                    self._mutated(obj, 'delitem')
                else:
                    raise Unsupported('del subscript')
            else:
                raise Unsupported('del')

    def st_Global(self, st, env, mod):
        env.globals_declared.update(st.names)

    def st_Nonlocal(self, st, env, mod):
        env.nonlocals.update(st.names)

    def st_Import(self, st, env, mod):
        for a in st.names:
            env.vars[a.asname or a.name.split('.')[0]] = ModuleRef(a.name if a.asname else a.name.split('.')[0])

    def st_ImportFrom(self, st, env, mod):
        for a in st.names:
            env.vars[a.asname or a.name] = self.resolve_import(('from', st.module, a.name, st.level), mod)

    def st_Assert(self, st, env, mod):
        if not self.truth(self.eval(st.test, env, mod)):
            raise PyRaise('AssertionError', '', st)

    def st_FunctionDef(self, st, env, mod):
        c = Closure(st, env, mod, st.name)
        c.defaults = self._eval_defaults(st, env, mod)
        env.vars[st.name] = c

    def st_Try(self, st, env, mod):
        try:
            try:
                self.exec_block(st.body, env, mod)
            except PyRaise as e:
                for h in st.handlers:
                    names = []
                    if h.type is None:
                        names = None
                    elif isinstance(h.type, ast.Tuple):
                        names = [(_dotted(x) or '').split('.')[-1] for x in h.type.elts]
                    else:
                        names = [(_dotted(h.type) or '').split('.')[-1]]
                    if names is None or e.kind in names or 'Exception' in names or 'BaseException' in names:
                        if h.name:
                            env.vars[h.name] = Tm('exc:' + e.kind)
                        self.exec_block(h.body, env, mod)
                        break
                else:
                    raise
            else:
                self.exec_block(st.orelse, env, mod)
        finally:
            if st.finalbody:
                self.exec_block(st.finalbody, env, mod)

    def st_With(self, st, env, mod):
        for item in st.items:
            v = self.eval(item.context_expr, env, mod)
            if item.optional_vars is not None:
                self.assign(item.optional_vars, v, env, mod)
        self.exec_block(st.body, env, mod)

    # ---- assignment
    def assign(self, t, v, env, mod, aug=False):
        if isinstance(t, ast.Name):
            env.set(t.id, v, self)
        elif isinstance(t, (ast.Tuple, ast.List)):
            star = [i for i, e in enumerate(t.elts) if isinstance(e, ast.Starred)]
            try:
                items = self.iterate(v)
            except Unsupported:
                # unpacking an opaque value of unknown length: project
                if isinstance(v, Tm) and not star:
                    items = [self.getitem(v, i) for i in range(len(t.elts))]
                else:
                    raise
            if star:
                i = star[0]
                n_after = len(t.elts) - i - 1
                if len(items) < len(t.elts) - 1:
                    raise PyRaise('ValueError', 'not enough values to unpack')
                parts = items[:i] + [VList(items[i:len(items) - n_after])] + items[len(items) - n_after:]
                for e, x in zip(t.elts, parts):
                    self.assign(e.value if isinstance(e, ast.Starred) else e, x, env, mod)
                return
            if len(items) != len(t.elts):
                raise PyRaise('ValueError', 'unpack: expected %d values, got %d' % (len(t.elts), len(items)), t)
            for e, x in zip(t.elts, items):
                self.assign(e, x, env, mod)
        elif isinstance(t, ast.Subscript):
            obj = self.eval(t.value, env, mod)
            k = self.eval_slice(t.slice, env, mod)
            self.setitem(obj, k, v)
        elif isinstance(t, ast.Attribute):
            obj = self.eval(t.value, env, mod)
            self.setattr(obj, t.attr, v)
        else:
            raise Unsupported('assignment target %s' % type(t).__name__)

    def _mutated(self, obj, how):
        self.ctx.log.append(('mutate', obj, how, getattr(obj, 'owner', None)))

    def setitem(self, obj, k, v):
        if getattr(self, 'setitem_hook', None) is not None:
            if self.setitem_hook(self, obj, k, v) is True:
                return
        if isinstance(obj, VList) and obj.kind == 'ndarray' and obj.attrs.get('dtype') == 'any' and is_scalar(exact(v)) and \
                not isinstance(exact(v), (int, bool)) and not (isinstance(exact(v), z3.ExprRef) and z3.is_int(exact(v))):
            # a real-valued store into an array whose element type the caller's values decide (integer input -> the value is truncated)
            self.ctx.log.append(('dtype-risk', obj, v, getattr(obj, 'owner', None)))
        if isinstance(obj, VList):
            if isinstance(k, int):
                if not -len(obj.items) <= k < len(obj.items):
                    raise PyRaise('IndexError', 'list assignment index out of range')
                if obj.kind == 'ndarray' and isinstance(obj.items[k], VList) and is_scalar(exact(v)):
                    row = obj.items[k]
                    row.items[:] = [v] * len(row.items)
                    self._mutated(obj, 'setitem')
                    return
                obj.items[k] = v
                self._mutated(obj, 'setitem')
                return
            if isinstance(k, slice) and all(x is None or isinstance(x, int) for x in (k.start, k.stop, k.step)):
                idx = list(range(len(obj.items)))[k]
                vals = [v] * len(idx) if is_scalar(exact(v)) else self.iterate(v)
                if len(vals) != len(idx):
                    raise PyRaise('ValueError', 'cannot assign %d values to a slice of length %d' % (len(vals), len(idx)))
                for i, x in zip(idx, vals):
                    obj.items[i] = x
                self._mutated(obj, 'setitem')
                return
            if isinstance(k, tuple) and len(k) >= 1 and all(isinstance(x, int) and not isinstance(x, bool) for x in k):
                a = obj
                try:
                    for x in k[:-1]:
                        a = a.items[x]
                        if not isinstance(a, VList):
                            raise PyRaise('IndexError', 'too many indices for array')
                    if isinstance(a.items[k[-1]], VList) and not isinstance(v, VList):
                        raise Unsupported('assignment of a scalar to a sub-array')
                    a.items[k[-1]] = v
                except IndexError:
                    raise PyRaise('IndexError', 'index %r out of range' % (k,))
                self._mutated(obj, 'setitem')
                return
            if isinstance(k, tuple) and len(k) == 2 and isinstance(k[0], int) and isinstance(k[1], slice) and isinstance(obj.items[k[0]], VList):
                return self.setitem(obj.items[k[0]], k[1], v)
            if isinstance(k, tuple) and k and all((isinstance(x, int) and not isinstance(x, bool)) or
                                                  (isinstance(x, slice) and all(y is None or isinstance(y, int) for y in (x.start, x.stop, x.step))) for x in k) \
                    and any(isinstance(x, slice) for x in k):
                # numpy basic-index assignment a[i, lo:hi, ...] = v with broadcasting of scalars and length-1 axes
                def nd_set(a, ks, val):
                    if not isinstance(a, VList):
                        raise PyRaise('IndexError', 'too many indices for array')
                    k0 = ks[0]
                    if isinstance(k0, int):
                        try:
                            tgt = a.items[k0]
                        except IndexError:
                            raise PyRaise('IndexError', 'index %r out of range' % (k0,))
                        if len(ks) == 1:
                            if isinstance(tgt, VList):
                                nd_set(a, [slice(k0, k0 + 1 if k0 != -1 else None)], VList([val], 'ndarray') if isinstance(val, VList) else val)
                            else:
                                a.items[k0] = val
                        else:
                            nd_set(tgt, ks[1:], val)
                        return
                    idx = list(range(len(a.items)))[k0]
                    if isinstance(val, VList):
                        vals = val.items if len(val.items) == len(idx) else (val.items * len(idx) if len(val.items) == 1 else None)
                        if vals is None:
                            raise PyRaise('ValueError', 'could not broadcast input array into shape')
                    else:
                        vals = [val] * len(idx)
                    for i, x in zip(idx, vals):
                        if len(ks) > 1:
                            nd_set(a.items[i], ks[1:], x)
                        elif isinstance(a.items[i], VList):
                            nd_set(a.items[i], [slice(None)], x)
                        else:
                            if isinstance(x, VList):
                                raise PyRaise('ValueError', 'setting an array element with a sequence')
                            a.items[i] = x
                nd_set(obj, list(k), v)
                self._mutated(obj, 'setitem')
                return
            if self._is_adv_key(k):
                bshape, plan = self._adv_plan(list(k))
                def vget(val, mi):
                    # broadcast the value against bshape (right-aligned)
                    shp = []
                    t = val
                    while isinstance(t, VList):
                        shp.append(len(t.items))
                        t = t.items[0] if t.items else None
                    off = len(bshape) - len(shp)
                    t = val
                    for ax in range(len(shp)):
                        t = t.items[mi[off + ax] if shp[ax] != 1 else 0]
                    return t
                for mi, tgt in plan:
                    a_ = obj
                    try:
                        for x in tgt[:-1]:
                            a_ = a_.items[x]
                        a_.items[tgt[-1]] = vget(v, mi)
                    except (IndexError, AttributeError):
                        raise PyRaise('IndexError', 'advanced index out of range')
                self._mutated(obj, 'setitem')
                return
            if isinstance(k, tuple) and len(k) == 2 and all(isinstance(x, VList) and all(isinstance(i, int) and not isinstance(i, bool) for i in x.items) for x in k) \
                    and len(k[0].items) == len(k[1].items):
                # fancy assignment a[rows, cols] = vals : a[rows[t], cols[t]] = vals[t] in order (later writes win)
                vals = [v] * len(k[0].items) if is_scalar(exact(v)) else self.iterate(v)
                if len(vals) != len(k[0].items):
                    raise PyRaise('ValueError', 'shape mismatch in fancy assignment')
                try:
                    for r_, c_, x in zip(k[0].items, k[1].items, vals):
                        obj.items[r_].items[c_] = x
                except (IndexError, AttributeError):
                    raise PyRaise('IndexError', 'fancy index out of range')
                self._mutated(obj, 'setitem')
                return
            if isinstance(k, VList) and k.kind == 'ndarray' and len(k.items) == len(obj.items) and is_scalar(exact(v)) and k.items \
                    and all(isinstance(i, (bool, VList)) or (isinstance(i, z3.ExprRef) and z3.is_bool(i)) for i in k.items):
                # boolean-mask assignment arr[mask] = scalar
                for i, m in enumerate(k.items):
                    if isinstance(m, VList):
                        self.setitem(obj.items[i], m, v)
                    elif isinstance(m, bool):
                        if m:
                            obj.items[i] = v
                    else:
                        obj.items[i] = z3.If(m, to_real(exact(v)), to_real(exact(obj.items[i])))
                self._mutated(obj, 'setitem')
                return
            if is_sym(k) and is_scalar(exact(v)) and all(is_scalar(exact(i)) for i in obj.items):
                kz = to_z3(k)
                if not z3.is_int(kz):
                    kz = z3.ToInt(kz)
                n_ = len(obj.items)
                self.ctx.pc.append(z3.And(kz >= -n_, kz < n_))
                obj.items[:] = [z3.If(z3.Or(kz == i, kz == i - n_), to_real(exact(v)), to_real(exact(x))) for i, x in enumerate(obj.items)]
                self._mutated(obj, 'setitem')
                return
            if isinstance(k, (VList, list)) and all(isinstance(i, int) and not isinstance(i, bool) for i in (k.items if isinstance(k, VList) else k)):
                idx = k.items if isinstance(k, VList) else k
                vals = [v] * len(idx) if is_scalar(exact(v)) else self.iterate(v)
                if len(vals) != len(idx):
                    raise PyRaise('ValueError', 'shape mismatch in fancy assignment')
                for i, x in zip(idx, vals):
                    if not -len(obj.items) <= i < len(obj.items):
                        raise PyRaise('IndexError', 'fancy index out of range')
                    obj.items[i] = x
                self._mutated(obj, 'setitem')
                return
            if isinstance(k, tuple) and len(k) == 2 and isinstance(k[0], int) and not isinstance(k[0], bool) and isinstance(k[1], VList) \
                    and all(isinstance(i, int) and not isinstance(i, bool) for i in k[1].items) and -len(obj.items) <= k[0] < len(obj.items) \
                    and isinstance(obj.items[k[0]], VList) and len(set(i % len(obj.items[k[0]].items) for i in k[1].items)) == len(k[1].items):
                # a[i, idx] = vals with an integer index array without repeated targets: row i, entries idx
                self.setitem(obj.items[k[0]], k[1], v)
                self._mutated(obj, 'setitem')
                return
            raise Unsupported('setitem %s[%s]' % (vrepr(obj), vrepr(k)))
        if isinstance(obj, VDict):
            if is_sym(k) or isinstance(k, Tm):
                raise Unsupported('symbolic dict key')
            obj.d[k] = v
            self._mutated(obj, 'setitem')
            return
        if isinstance(obj, Tm):
            self.ctx.log.append(('setitem', obj, k, v))
            obj.attrs.setdefault('__setitems__', []).append((k, v))
            return
        raise Unsupported('setitem on %s' % vrepr(obj))

    def setattr(self, obj, name, v):
        if isinstance(obj, ModuleRef):
            self.module_overrides[(obj.name, name)] = v
            self.ctx.log.append(('global-write', obj.name, name, v))
            return
        if isinstance(obj, (Tm, Closure)):
            obj.attrs[name] = v
            self.ctx.log.append(('setattr', obj, name, v))
            return
        if isinstance(obj, VObj):
            obj.attrs[name] = v
            self.ctx.log.append(('setattr', obj, name, v))
            return
        if isinstance(obj, (VList,)):
            obj.__dict__.setdefault('attrs', {})[name] = v
            return
        raise Unsupported('setattr on %s' % vrepr(obj))

    # ---- truth
    def truth(self, v):
        if isinstance(v, bool):
            return v
        if v is None:
            return False
        if isinstance(v, (int, Fraction, float)):
            return v != 0
        if isinstance(v, str):
            return len(v) > 0
        if isinstance(v, (tuple, list)):
            return len(v) > 0
        if isinstance(v, VList):
            return len(v.items) > 0
        if isinstance(v, VDict):
            return len(v.d) > 0
        if isinstance(v, z3.ExprRef):
            if z3.is_bool(v):
                return self.ctx.decide(v)
            return self.ctx.decide(v != 0)
        if isinstance(v, Tm):
            return self.ctx.decide(named_bool('truth(%s)' % vrepr(v)))
        if isinstance(v, (Closure, FuncRef, PyFn, ModuleRef, VObj, ClassRef)):
            return True
        raise Unsupported('truth of %s' % vrepr(v))

    # ---- expressions
    def eval(self, e, env, mod):
        m = getattr(self, 'ev_' + type(e).__name__, None)
        if m is None:
            raise Unsupported('expression %s at %s:%d' % (type(e).__name__, mod.relpath, getattr(e, 'lineno', 0)))
        return m(e, env, mod)

    def ev_Constant(self, e, env, mod):
        return exact(e.value)

    def ev_Name(self, e, env, mod):
        return env.get(e.id, self, mod, e)

    def ev_Tuple(self, e, env, mod):
        out = []
        for x in e.elts:
            if isinstance(x, ast.Starred):
                out.extend(self.iterate(self.eval(x.value, env, mod)))
            else:
                out.append(self.eval(x, env, mod))
        return tuple(out)

    def ev_List(self, e, env, mod):
        return VList(self.ev_Tuple(e, env, mod))

    def ev_Dict(self, e, env, mod):
        d = VDict()
        for k, v in zip(e.keys, e.values):
            if k is None:
                src = self.eval(v, env, mod)
                if not isinstance(src, VDict):
                    raise Unsupported('** of non-dict')
                d.d.update(src.d)
            else:
                d.d[self.eval(k, env, mod)] = self.eval(v, env, mod)
        return d

    def ev_Set(self, e, env, mod):
        return Tm('set', *[self.eval(x, env, mod) for x in e.elts])

    def ev_Starred(self, e, env, mod):
        return Starred(self.eval(e.value, env, mod))

    def ev_Lambda(self, e, env, mod):
        c = Closure(e, env, mod)
        c.defaults = self._eval_defaults(e, env, mod)
        return c

    def _eval_defaults(self, fnode, env, mod):
        a = fnode.args
        return ([self.eval(d, env, mod) for d in a.defaults], [None if d is None else self.eval(d, env, mod) for d in a.kw_defaults])

    def ev_IfExp(self, e, env, mod):
        if self.truth(self.eval(e.test, env, mod)):
            return self.eval(e.body, env, mod)
        return self.eval(e.orelse, env, mod)

    def ev_JoinedStr(self, e, env, mod):
        parts = []
        for v in e.values:
            if isinstance(v, ast.Constant):
                parts.append(v.value)
            else:
                x = self.eval(v.value, env, mod)
                parts.append(x if isinstance(x, str) else '{%s}' % vrepr(x))
        return ''.join(parts)

    def ev_BoolOp(self, e, env, mod):
        # python short-circuit semantics, value-returning
        v = None
        for i, x in enumerate(e.values):
            v = self.eval(x, env, mod)
            last = i == len(e.values) - 1
            if last:
                return v
            if isinstance(v, z3.ExprRef) and z3.is_bool(v):
                # boolean operands read from plain names / subscripts / attributes: no fork, a or b == Or(a, b)
                def simple(n):
                    return isinstance(n, (ast.Name, ast.Constant)) or (isinstance(n, ast.Attribute) and simple(n.value)) \
                        or (isinstance(n, ast.Subscript) and simple(n.value) and simple(n.slice)) or (isinstance(n, ast.Tuple) and all(simple(c) for c in n.elts))
                rest = e.values[i + 1:]
                if all(simple(n) for n in rest):
                    try:
                        vals = [self.eval(n, env, mod) for n in rest]
                    except PyRaise:
                        vals = None
                    if vals is not None and all(isinstance(w, bool) or (isinstance(w, z3.ExprRef) and z3.is_bool(w)) for w in vals):
                        zs = [v] + [z3.BoolVal(w) if isinstance(w, bool) else w for w in vals]
                        return z3.simplify(z3.Or(zs) if isinstance(e.op, ast.Or) else z3.And(zs))
            t = self.truth(v)
            if isinstance(e.op, ast.And) and not t:
                return v
            if isinstance(e.op, ast.Or) and t:
                return v
        return v

    def ev_UnaryOp(self, e, env, mod):
        v = self.eval(e.operand, env, mod)
        if isinstance(e.op, ast.Not):
            if isinstance(v, z3.ExprRef) and z3.is_bool(v):
                return z3.Not(v)
            return not self.truth(v)
        if isinstance(e.op, ast.USub):
            if isinstance(v, Tm):
                return Tm('neg', v)
            if isinstance(v, VList):
                return VList([self.binop(ast.Mult(), -1, x) for x in v.items], v.kind)
            return -v if not isinstance(v, bool) else -int(v)
        if isinstance(e.op, ast.UAdd):
            return v
        if isinstance(e.op, ast.Invert):
            if isinstance(v, z3.ExprRef) and z3.is_bool(v):
                return z3.Not(v)
            if isinstance(v, Tm):
                return Tm('invert', v)
        raise Unsupported('unary op')

    def ev_BinOp(self, e, env, mod):
        return self.binop(e.op, self.eval(e.left, env, mod), self.eval(e.right, env, mod))

    def binop(self, op, a, b):
        a, b = exact(a), exact(b)
        name = type(op).__name__
        # IEEE infinity against finite reals (math.inf / numpy.inf): the few rules the analysed code relies on
        inf_a, inf_b = _inf_sign(a), _inf_sign(b)
        if (inf_a or inf_b) and not (inf_a and inf_b) and name in ('Add', 'Sub', 'Mult', 'Div'):
            fin = b if inf_a else a
            if is_scalar(fin) and not isinstance(fin, bool):
                sgn = inf_a or inf_b
                if name == 'Add':
                    return Tm('float:inf' if sgn > 0 else 'float:-inf')
                if name == 'Sub':
                    sgn = sgn if inf_a else -sgn
                    return Tm('float:inf' if sgn > 0 else 'float:-inf')
                if name == 'Div' and inf_b:
                    return 0
                pos = (fin > 0) if is_num(fin) else None
                if pos is None:
                    fz = to_real(fin)
                    if self.ctx.decide(fz > 0):
                        pos = True
                    elif self.ctx.decide(fz < 0):
                        pos = False
                    else:
                        raise PyRaise('FloatingPointError', 'inf * 0 or inf / 0')
                elif is_num(fin) and fin == 0:
                    raise PyRaise('FloatingPointError', 'inf * 0 or inf / 0')
                sgn = sgn if pos else -sgn
                return Tm('float:inf' if sgn > 0 else 'float:-inf')
        if isinstance(a, Tm) or isinstance(b, Tm):
            return Tm('op:' + name, a, b)
        if isinstance(a, str) and name == 'Mod':
            def concrete(v):
                return isinstance(v, (int, str, Fraction)) or (isinstance(v, tuple) and all(concrete(c) for c in v))
            if concrete(b):
                try:
                    return a % (tuple(int(c) if isinstance(c, Fraction) and c.denominator == 1 else c for c in b) if isinstance(b, tuple) else (int(b) if isinstance(b, Fraction) and b.denominator == 1 else b))
                except (TypeError, ValueError) as e:
                    raise PyRaise(type(e).__name__, str(e))
            return Tm('strformat', a, b)
        if isinstance(a, str) and isinstance(b, str) and name == 'Add':
            return a + b
        # sequences
        if name == 'Add' and isinstance(a, tuple) and isinstance(b, tuple):
            return a + b
        if name == 'Add' and isinstance(a, VList) and isinstance(b, VList) and a.kind == 'list' and b.kind == 'list':
            return VList(a.items + b.items)
        if name == 'Mult' and isinstance(a, (VList, tuple)) and isinstance(b, int) and getattr(a, 'kind', 'list') == 'list':
            return VList(a.items * b) if isinstance(a, VList) else a * b
        if name == 'Mult' and isinstance(b, (VList, tuple)) and isinstance(a, int) and getattr(b, 'kind', 'list') == 'list':
            return VList(b.items * a) if isinstance(b, VList) else b * a
        # numpy-style elementwise on ndarray-kind lists
        if isinstance(a, VList) and a.kind == 'ndarray' or isinstance(b, VList) and b.kind == 'ndarray':
            if isinstance(a, VList) and isinstance(b, VList):
                # numpy broadcasting aligns trailing axes: the lower-rank operand gets leading singleton axes
                def rank(v):
                    r = 0
                    while isinstance(v, VList):
                        r += 1
                        v = v.items[0] if v.items else None
                    return r
                ra, rb = rank(a), rank(b)
                while ra < rb:
                    a = VList([a], 'ndarray')
                    ra += 1
                while rb < ra:
                    b = VList([b], 'ndarray')
                    rb += 1
                if len(a.items) != len(b.items) and len(a.items) == 1:
                    return VList([self.binop(op, a.items[0], y) for y in b.items], 'ndarray')     # numpy broadcasting of a length-1 axis
                if len(a.items) != len(b.items) and len(b.items) == 1:
                    return VList([self.binop(op, x, b.items[0]) for x in a.items], 'ndarray')
                if len(a.items) != len(b.items):
                    raise PyRaise('ValueError', 'shape mismatch')
                return VList([self.binop(op, x, y) for x, y in zip(a.items, b.items)], 'ndarray')
            if isinstance(a, VList):
                return VList([self.binop(op, x, b) for x in a.items], 'ndarray')
            return VList([self.binop(op, a, y) for y in b.items], 'ndarray')
        if isinstance(a, bool):
            a = int(a)
        if isinstance(b, bool):
            b = int(b)
        if a is None or b is None or isinstance(a, (str, tuple, VList, VDict)) or isinstance(b, (str, tuple, VList, VDict)):
            raise PyRaise('TypeError', 'unsupported operand types for %s: %s, %s' % (name, vrepr(a), vrepr(b)))
        conc = is_num(a) and is_num(b)
        if name == 'Add':
            return a + b
        if name == 'Sub':
            return a - b
        if name == 'Mult':
            return a * b
        if name == 'Div':
            if conc:
                if b == 0:
                    raise PyRaise('ZeroDivisionError', 'division by zero')
                return Fraction(a) / Fraction(b)
            self.ctx.log.append(('div', to_real(b)))          # definedness: contracts may require every logged divisor to be non-zero
            return to_real(a) / to_real(b)
        if name == 'Pow':
            return self.power(a, b)
        if name == 'FloorDiv':
            if conc:
                if b == 0:
                    raise PyRaise('ZeroDivisionError', '')
                return a // b
            az, bz = to_z3(a), to_z3(b)
            if z3.is_int(az) and z3.is_int(bz):
                return az / bz     # z3 int division (floor for positive divisor)
            return uf('floor')(to_real(a) / to_real(b))
        if name == 'Mod':
            if conc:
                return a % b
            az, bz = to_z3(a), to_z3(b)
            if z3.is_int(az) and z3.is_int(bz):
                return az % bz
            return uf('fmod', 2)(to_real(a), to_real(b))
        if name in ('BitAnd', 'BitOr', 'BitXor'):
            az, bz = to_z3(a), to_z3(b)
            if z3.is_bool(az) and z3.is_bool(bz):
                return {'BitAnd': z3.And, 'BitOr': z3.Or, 'BitXor': z3.Xor}[name](az, bz)
            if conc:
                return {'BitAnd': a & b, 'BitOr': a | b, 'BitXor': a ^ b}[name]
        raise Unsupported('binop %s on %s, %s' % (name, vrepr(a), vrepr(b)))

    def power(self, a, b):
        if is_num(b) and Fraction(b).denominator == 1 and abs(int(b)) <= 8:
            n = int(b)
            if is_num(a):
                if n < 0 and a == 0:
                    raise PyRaise('ZeroDivisionError', '')
                return Fraction(a) ** n
            if n == 0:
                return 1
            r = a
            for _ in range(abs(n) - 1):
                r = r * a
            if n < 0:
                self.ctx.log.append(('div', to_real(r)))
            return r if n > 0 else 1 / to_real(r)
        if is_num(a) and is_num(b) and Fraction(b) == Fraction(1, 2):
            return uf('sqrt')(to_real(a))
        return uf('pow', 2)(to_real(a), to_real(b))

    def ev_Compare(self, e, env, mod):
        left = self.eval(e.left, env, mod)
        res = None
        for op, rn in zip(e.ops, e.comparators):
            right = self.eval(rn, env, mod)
            c = self.compare(op, left, right)
            if res is None:
                res = c
            else:
                if isinstance(res, bool) and isinstance(c, bool):
                    res = res and c
                else:
                    res = z3.And(to_z3(res), to_z3(c))
            if res is False:
                return False
            left = right
        return res

    def compare(self, op, a, b):
        a, b = exact(a), exact(b)
        name = type(op).__name__
        if name in ('Eq', 'NotEq') and isinstance(a, PyFn) and isinstance(b, PyFn):
            return (a is b) if name == 'Eq' else (a is not b)      # type objects / builtins compare by identity
        if name in ('Eq', 'NotEq') and (isinstance(a, (PyFn, Closure, FuncRef)) != isinstance(b, (PyFn, Closure, FuncRef))) and \
                (is_scalar(a) or is_scalar(b) or a is None or b is None or isinstance(a, str) or isinstance(b, str)):
            return name == 'NotEq'                                  # a function object never equals a number, None or a string
        inf_a, inf_b = _inf_sign(a), _inf_sign(b)
        if (inf_a or inf_b) and name in ('Eq', 'NotEq', 'Lt', 'LtE', 'Gt', 'GtE') and all(x or (is_scalar(y) and not isinstance(y, bool)) for x, y in ((inf_a, a), (inf_b, b))):
            va = inf_a * 2 if inf_a else 0      # any finite real lies strictly between -inf and +inf
            vb = inf_b * 2 if inf_b else 0
            if not inf_a and not inf_b:
                pass
            else:
                if not inf_a:
                    va = 0
                if not inf_b:
                    vb = 0
                return {'Eq': va == vb, 'NotEq': va != vb, 'Lt': va < vb, 'LtE': va <= vb, 'Gt': va > vb, 'GtE': va >= vb}[name]
        if name in ('Is', 'IsNot'):
            if a is None or b is None:
                r = (a is None and b is None)
                if (isinstance(a, Tm) or isinstance(b, Tm)):
                    t = a if isinstance(a, Tm) else b
                    if t.attrs.get('__maybe_none__'):
                        r = named_bool('isnone(%s)' % vrepr(t))
                        return r if name == 'Is' else z3.Not(r)
                return r if name == 'Is' else not r
            r = a is b
            return r if name == 'Is' else not r
        if name in ('In', 'NotIn'):
            r = self.contains(b, a)
            if isinstance(r, bool):
                return r if name == 'In' else not r
            return r if name == 'In' else z3.Not(r)
        if isinstance(a, Tm) or isinstance(b, Tm):
            if name in ('Eq', 'NotEq') and (a is None or b is None or isinstance(a, str) or isinstance(b, str)):
                t = a if isinstance(a, Tm) else b
                o = b if isinstance(a, Tm) else a
                if not t.attrs.get('__maybe_' + type(o).__name__ + '__', True) and False:
                    pass
            if name in ('Eq', 'NotEq'):
                # == on opaque values is modelled as an equivalence: reflexive, symmetric (one atom per unordered pair)
                if a is b:
                    return name == 'Eq'
                ra, rb = sorted([vrepr(a), vrepr(b)])
                r = named_bool('cmp:Eq(%s, %s)' % (ra, rb))
                return r if name == 'Eq' else z3.Not(r)
            r = named_bool('cmp:%s(%s, %s)' % (name, vrepr(a), vrepr(b)))
            return r
        if a is None or b is None or isinstance(a, str) or isinstance(b, str):
            if name == 'Eq':
                return type(a) == type(b) and a == b
            if name == 'NotEq':
                return not (type(a) == type(b) and a == b)
            if isinstance(a, str) and isinstance(b, str):
                return {'Lt': a < b, 'LtE': a <= b, 'Gt': a > b, 'GtE': a >= b}[name]
            raise PyRaise('TypeError', 'comparison of %s and %s' % (vrepr(a), vrepr(b)))
        if isinstance(a, VList) and isinstance(b, VList) and a.kind == 'ndarray' and b.kind == 'ndarray' and name not in ('Eq', 'NotEq', 'Is', 'IsNot'):
            if len(a.items) != len(b.items):
                raise PyRaise('ValueError', 'operands could not be broadcast together')
            return VList([self.compare(op, x, y) for x, y in zip(a.items, b.items)], 'ndarray')
        if (isinstance(a, VList) and a.kind == 'ndarray' and is_scalar(b)) or (isinstance(b, VList) and b.kind == 'ndarray' and is_scalar(a)):
            if isinstance(a, VList):
                return VList([self.compare(op, x, b) for x in a.items], 'ndarray')
            return VList([self.compare(op, a, y) for y in b.items], 'ndarray')
        if isinstance(a, (tuple, VList)) or isinstance(b, (tuple, VList)):
            if name in ('Eq', 'NotEq'):
                ai = a.items if isinstance(a, VList) else a
                bi = b.items if isinstance(b, VList) else b
                if not isinstance(ai, (tuple, list)) or not isinstance(bi, (tuple, list)):
                    return name == 'NotEq'
                if len(ai) != len(bi):
                    return name == 'NotEq'
                cs = [self.compare(ast.Eq(), x, y) for x, y in zip(ai, bi)]
                if all(isinstance(c, bool) for c in cs):
                    r = all(cs)
                    return r if name == 'Eq' else not r
                r = z3.And([to_z3(c) for c in cs])
                return r if name == 'Eq' else z3.Not(r)
            raise Unsupported('ordering of sequences')
        if isinstance(a, bool) and not is_sym(b):
            a = int(a)
        if isinstance(b, bool) and not is_sym(a):
            b = int(b)
        if is_num(a) and is_num(b):
            return {'Eq': a == b, 'NotEq': a != b, 'Lt': a < b, 'LtE': a <= b, 'Gt': a > b, 'GtE': a >= b}[name]
        az, bz = to_z3(a), to_z3(b)
        if z3.is_bool(az) != z3.is_bool(bz):
            az, bz = to_real(az), to_real(bz)
        elif z3.is_int(az) != z3.is_int(bz):
            az, bz = to_real(az), to_real(bz)
        if name == 'Eq':
            return az == bz
        if name == 'NotEq':
            return az != bz
        return {'Lt': az < bz, 'LtE': az <= bz, 'Gt': az > bz, 'GtE': az >= bz}[name]

    def contains(self, container, item):
        if isinstance(container, MemoProbe):
            raise MemoHit(item)
        if isinstance(container, VDict):
            if isinstance(item, (Tm, z3.ExprRef)):
                raise Unsupported('symbolic key membership')
            return item in container.d
        if isinstance(container, (tuple, VList, list)):
            items = container.items if isinstance(container, VList) else container
            cs = [self.compare(ast.Eq(), item, x) for x in items]
            if all(isinstance(c, bool) for c in cs):
                return any(cs)
            return z3.Or([to_z3(c) for c in cs])
        if isinstance(container, str) and isinstance(item, str):
            return item in container
        if isinstance(container, Tm):
            return named_bool('in(%s, %s)' % (vrepr(item), vrepr(container)))
        raise Unsupported('membership in %s' % vrepr(container))

    def ev_Call(self, e, env, mod):
        f = self.eval(e.func, env, mod)
        args = [self.eval(a, env, mod) for a in e.args]
        kwargs = {}
        for k in e.keywords:
            if k.arg is None:
                d = self.eval(k.value, env, mod)
                if isinstance(d, VDict):
                    kwargs.update(d.d)
                elif isinstance(d, Tm):
                    kwargs['**'] = d
                else:
                    raise Unsupported('** of %s' % vrepr(d))
            else:
                kwargs[k.arg] = self.eval(k.value, env, mod)
        return self.call(f, args, kwargs, e)

    def ev_Attribute(self, e, env, mod):
        obj = self.eval(e.value, env, mod)
        return self.getattr(obj, e.attr, mod)

    def getattr(self, obj, name, mod=None):
        if self.getattr_hook is not None:
            r = self.getattr_hook(self, obj, name, self.ctx)
            if r is not NotImplemented:
                return r
        if isinstance(obj, ModuleRef):
            return self.module_attr(obj, name)
        if isinstance(obj, (Tm, Closure)):
            if name in obj.attrs:
                return obj.attrs[name]
            if isinstance(obj, Closure):
                raise PyRaise('AttributeError', name)
            cls = obj.attrs.get('__class__')
            if isinstance(cls, ClassRef):
                # an opaque instance of a known class: a method the contract did not stub is the class's own method, bound to the object
                # (inlined or abstracted by the usual policy; helpers extracted by a refactor are unknown to the contracts and get inlined)
                c = cls
                seen = set()
                while c is not None and c.node.name not in seen:
                    seen.add(c.node.name)
                    q = c.node.name + '.' + name
                    if q in c.mod.funcs:
                        fr = FuncRef(c.mod, c.mod.funcs[q], q)
                        if fr.fullname not in _known_functions():
                            return PyFn(lambda *a, _fr=fr, **k: self.call(_fr, [obj] + list(a), k), q)
                        break
                    nxt = None
                    for b in c.node.bases:
                        bn = getattr(b, 'id', None)
                        if bn and bn in c.mod.classes:
                            nxt = ClassRef(c.mod, c.mod.classes[bn])
                            break
                    c = nxt
            return Tm('attr:' + name, obj)
        if isinstance(obj, VObj):
            if name in obj.attrs:
                return obj.attrs[name]
            raise PyRaise('AttributeError', '%s.%s' % (obj.name, name))
        if isinstance(obj, ClassRef):
            q = obj.node.name + '.' + name
            if q in obj.mod.funcs:
                return FuncRef(obj.mod, obj.mod.funcs[q], q)
            return Tm('attr:' + name, Tm(obj.fullname))
        if isinstance(obj, PyFn):
            if name == '__name__':
                return obj.name
            if name == '__doc__':
                return None
            raise PyRaise('AttributeError', name)
        if isinstance(obj, FuncRef) and name == '__doc__':
            return ast.get_docstring(obj.node)
        if isinstance(obj, FuncRef):
            fa = obj.mod.func_attrs.get(obj.qualname, {})
            if name in fa:
                return self.eval(fa[name], Env(None, obj.mod), obj.mod)
            if name == '__name__':
                return obj.qualname
            raise PyRaise('AttributeError', name)
        if isinstance(obj, VList):
            return self.list_method(obj, name)
        if isinstance(obj, VDict):
            return self.dict_method(obj, name)
        if isinstance(obj, str):
            return PyFn(getattr(obj, name), 'str.' + name)
        if isinstance(obj, tuple):
            if name in ('index', 'count'):
                return PyFn(getattr(obj, name), 'tuple.' + name)
        raise Unsupported('attribute %s of %s' % (name, vrepr(obj)))

    def list_method(self, obj, name):
        ex = self

        def append(x):
            obj.items.append(x)
            ex._mutated(obj, 'append')

        def extend(xs):
            obj.items.extend(ex.iterate(xs))
            ex._mutated(obj, 'extend')

        def insert(i, x):
            obj.items.insert(i, x)
            ex._mutated(obj, 'insert')

        def pop(i=-1):
            if not isinstance(i, int) or isinstance(i, bool) and False:
                raise PyRaise('TypeError', "'%s' object cannot be interpreted as an integer" % type(i).__name__)
            if not -len(obj.items) <= i < len(obj.items):
                raise PyRaise('IndexError', 'pop index out of range')
            ex._mutated(obj, 'pop')
            return obj.items.pop(i)

        def copy(*a, **k):
            r = VList(obj.items, obj.kind)
            if obj.attrs.get('dtype'):
                r.attrs['dtype'] = obj.attrs['dtype']        # a copy keeps the element type of its source
            return r

        def index(x):
            for i, y in enumerate(obj.items):
                c = ex.compare(ast.Eq(), x, y)
                if ex.truth(c):
                    return i
            raise PyRaise('ValueError', 'not in list')

        def reverse():
            obj.items.reverse()
            ex._mutated(obj, 'reverse')

        def remove(x):
            i = index(x)
            del obj.items[i]
            ex._mutated(obj, 'remove')
        def count(x):
            n_ = 0
            for y in obj.items:
                c = ex.compare(ast.Eq(), x, y)
                if ex.truth(c):
                    n_ += 1
            return n_
        table = dict(append=append, extend=extend, insert=insert, pop=pop, copy=copy, index=index,
                     reverse=reverse, remove=remove, count=count)
        if name in table:
            return PyFn(table[name], 'list.' + name)
        if name in getattr(obj, 'attrs', {}):
            return obj.attrs[name]
        if name in ('any', 'all') and obj.kind == 'ndarray':
            return PyFn((lambda *a, **k: self.np_any(obj)) if name == 'any' else (lambda *a, **k: self.np_all(obj)), 'ndarray.' + name)
        if name in ('ravel', 'flatten') and obj.kind == 'ndarray':
            def ravel(*a, **k):
                order = exact(a[0]) if a else exact(k.get('order', 'C'))
                if len(a) > 1 or set(k) - {'order'} or order not in ('C', 'F', 'K', 'A'):
                    raise Unsupported('ravel arguments')

                def f_order():
                    shp = self.list_method(obj, 'shape')
                    import itertools as _it
                    idxs = sorted(_it.product(*[range(n) for n in shp]), key=lambda t: tuple(reversed(t)))
                    cur = []
                    for t in idxs:
                        v = obj
                        for i in t:
                            v = v.items[i]
                        cur.append(v)
                    return VList(cur, 'ndarray')
                if order == 'C':
                    return VList(self._flat_leaves(obj), 'ndarray')        # logical (C) order
                if order == 'F':
                    return f_order()
                # 'K' / 'A': the order of the elements depends on the memory layout, which the value of an array does not determine.  For an
                # array marked by the contract as an input of arbitrary layout both a C- and an F-contiguous layout are explored.
                if getattr(obj, 'attrs', {}).get('layout') != 'any':
                    raise Unsupported("ravel(order=%r) of an array whose memory layout is not modelled" % order)
                shp = self.list_method(obj, 'shape')
                if len(shp) <= 1:
                    return VList(self._flat_leaves(obj), 'ndarray')
                if self.ctx.decide(named_bool('f_contiguous(%s)' % (getattr(obj, 'owner', None) or 'array'))):
                    return f_order()
                return VList(self._flat_leaves(obj), 'ndarray')
            return PyFn(ravel, 'ndarray.' + name)
        if name == 'reshape' and obj.kind == 'ndarray':
            def reshape(*shp):
                if len(shp) == 1 and isinstance(shp[0], (tuple, list, VList)):
                    shp = tuple(self.iterate(shp[0]))
                shp = [int(exact(x)) for x in shp]
                leaves = self._flat_leaves(obj)
                import math as _m
                if -1 in shp:
                    known = _m.prod(x for x in shp if x != -1)
                    shp[shp.index(-1)] = len(leaves) // max(known, 1)
                if _m.prod(shp) != len(leaves):
                    raise PyRaise('ValueError', 'cannot reshape array of size %d into shape %s' % (len(leaves), tuple(shp)))
                it = iter(leaves)

                def build(dims):
                    if len(dims) == 1:
                        return VList([next(it) for _ in range(dims[0])], 'ndarray')
                    return VList([build(dims[1:]) for _ in range(dims[0])], 'ndarray')
                return build(shp)
            return PyFn(reshape, 'ndarray.reshape')
        if name == 'transpose' and obj.kind == 'ndarray':
            return PyFn(lambda *a, **k: self.call(self.lib_attr('numpy', 'transpose'), [obj] + ([a[0]] if len(a) == 1 else ([VList(list(a))] if a else [])), k), 'ndarray.transpose')
        if name == 'sum' and obj.kind == 'ndarray':
            return PyFn(lambda *a, **k: self.np_sum(obj, *a, **k), 'ndarray.sum')
        if name == 'swapaxes' and obj.kind == 'ndarray':
            def swapaxes(a1, a2):
                """numpy docs: the array with the two axes interchanged"""
                nd_, v_ = 0, obj
                while isinstance(v_, VList) and v_.items:
                    nd_, v_ = nd_ + 1, v_.items[0]
                if not (isinstance(a1, int) and isinstance(a2, int) and not isinstance(a1, bool) and not isinstance(a2, bool) and -nd_ <= a1 < nd_ and -nd_ <= a2 < nd_):
                    raise Unsupported('swapaxes(%s, %s)' % (vrepr(a1), vrepr(a2)))
                a1, a2 = a1 % nd_, a2 % nd_
                if a1 == a2:
                    return obj
                axes = list(range(nd_))
                axes[a1], axes[a2] = axes[a2], axes[a1]
                return self.call(self.lib_attr('numpy', 'transpose'), [obj, VList(axes)], {})
            return PyFn(swapaxes, 'ndarray.swapaxes')
        if name == 'dot' and obj.kind == 'ndarray':
            return PyFn(lambda b_: self.call(self.lib_attr('numpy', 'dot'), [obj, b_], {}), 'ndarray.dot')
        if name == 'T' and obj.kind == 'ndarray':
            if obj.items and all(isinstance(r, VList) and r.items and not isinstance(r.items[0], VList) for r in obj.items):
                return VList([VList([r.items[j] for r in obj.items], 'ndarray') for j in range(len(obj.items[0].items))], 'ndarray')
            if not obj.items or not isinstance(obj.items[0], VList):
                return obj
            raise Unsupported('.T of an array of rank > 2')
        if name == 'data' and obj.kind == 'ndarray':
            return obj            # the underlying buffer of a (masked) array: same entries, shared
        if name in ('shape', 'ndim') and obj.kind == 'ndarray':
            shp, a = [], obj
            while isinstance(a, VList):
                shp.append(len(a.items))
                a = a.items[0] if a.items else None
            return tuple(shp) if name == 'shape' else len(shp)
        if obj.kind == 'ndarray':
            # arrays under contract in dadi are Spectrum objects: a method the array model does not know is looked up on the class and run on the object
            mi = ModInfo.by_name('dadi.Spectrum_mod')
            q = 'Spectrum.' + name
            if mi is not None and q in mi.funcs:
                fr = FuncRef(mi, mi.funcs[q], q)
                return PyFn(lambda *a, **k: self.call(fr, [obj] + list(a), k), 'Spectrum.' + name)
        raise Unsupported('list attribute %s' % name)

    def dict_method(self, obj, name):
        ex = self

        def get(k, d=None):
            return obj.d.get(k, d)

        def keys():
            return VList(list(obj.d.keys()))

        def values():
            return VList(list(obj.d.values()))

        def items():
            return VList([(k, v) for k, v in obj.d.items()])

        def copy():
            return VDict(obj.d)

        def pop(k, *d):
            if k in obj.d:
                ex._mutated(obj, 'pop')
                return obj.d.pop(k)
            if d:
                return d[0]
            raise PyRaise('KeyError', repr(k))

        def update(o=None, **kw):
            if o is not None:
                obj.d.update(o.d if isinstance(o, VDict) else dict(o))
            obj.d.update(kw)
            ex._mutated(obj, 'update')

        def setdefault(k, d=None):
            if k not in obj.d:
                obj.d[k] = d
                ex._mutated(obj, 'setdefault')
            return obj.d[k]
        table = dict(get=get, keys=keys, values=values, items=items, copy=copy, pop=pop, update=update,
                     setdefault=setdefault)
        if name in table:
            return PyFn(table[name], 'dict.' + name)
        raise Unsupported('dict attribute %s' % name)

    def ev_Subscript(self, e, env, mod):
        obj = self.eval(e.value, env, mod)
        k = self.eval_slice(e.slice, env, mod)
        return self.getitem(obj, k)

    def eval_slice(self, s, env, mod):
        if isinstance(s, ast.Slice):
            return slice(*[None if x is None else self.eval(x, env, mod) for x in (s.lower, s.upper, s.step)])
        if isinstance(s, ast.Tuple):
            return tuple(self.eval_slice(x, env, mod) for x in s.elts)
        return self.eval(s, env, mod)

    def getitem(self, obj, k):
        if isinstance(k, Fraction) and k.denominator == 1:
            k = int(k)
        if isinstance(obj, (tuple, list, str)):
            if isinstance(k, (int, slice)) and not isinstance(k, bool):
                try:
                    return obj[k]
                except IndexError:
                    raise PyRaise('IndexError', 'index %r out of range' % (k,))
            if isinstance(k, bool):
                return obj[int(k)]
            if is_sym(k):
                return self._sym_index(list(obj), k)
            raise Unsupported('index %s' % vrepr(k))
        if isinstance(obj, VList):
            if isinstance(k, bool):
                k = int(k)
            if isinstance(k, int):
                try:
                    return obj.items[k]
                except IndexError:
                    raise PyRaise('IndexError', 'index %r out of range' % (k,))
            if isinstance(k, slice):
                if any(is_sym(x) or isinstance(x, Tm) for x in (k.start, k.stop, k.step)):
                    raise Unsupported('symbolic slice')
                if obj.kind == 'ndarray' and k == slice(None, None, None):
                    return obj          # a[:] of an array is a view of all of it (same memory); a[:] of a list is a copy
                return VList(obj.items[k], obj.kind)
            if is_sym(k):
                return self._sym_index(obj.items, k)
            if isinstance(k, tuple) and len(k) == 2 and isinstance(k[0], int) and isinstance(obj.items[k[0]], VList):
                return self.getitem(obj.items[k[0]], k[1])
            if isinstance(k, tuple) and k and all(x is None or isinstance(x, int) and not isinstance(x, bool) or
                                                  (isinstance(x, slice) and all(y is None or isinstance(y, int) for y in (x.start, x.stop, x.step))) for x in k):
                # numpy basic indexing of a (nested) array: ints select, slices restrict an axis, numpy.newaxis adds a singleton axis
                if obj.kind == 'ndarray' and all(isinstance(x, slice) and x == slice(None, None, None) for x in k):
                    return obj          # full slices on every indexed axis: a view of the whole array
                def nd(a, ks):
                    if not ks:
                        return a
                    k0 = ks[0]
                    if k0 is None:
                        return VList([nd(a, ks[1:])], 'ndarray')
                    if not isinstance(a, VList):
                        raise PyRaise('IndexError', 'too many indices for array')
                    if isinstance(k0, slice):
                        return VList([nd(x, ks[1:]) for x in a.items[k0]], 'ndarray')
                    try:
                        return nd(a.items[k0], ks[1:])
                    except IndexError:
                        raise PyRaise('IndexError', 'index %r out of range' % (k0,))
                return nd(obj, list(k))
            if self._is_adv_key(k):
                bshape, plan = self._adv_plan(list(k))
                vals = {}
                for mi, tgt in plan:
                    a_ = obj
                    try:
                        for x in tgt:
                            a_ = a_.items[x]
                    except (IndexError, AttributeError):
                        raise PyRaise('IndexError', 'advanced index out of range')
                    vals[mi] = a_
                def build(prefix, dims):
                    if not dims:
                        return vals[tuple(prefix)]
                    return VList([build(prefix + [i], dims[1:]) for i in range(dims[0])], 'ndarray')
                return build([], bshape)
            if isinstance(k, tuple) and len(k) == 2 and all(isinstance(x, VList) and all(isinstance(i, int) and not isinstance(i, bool) for i in x.items) for x in k) \
                    and len(k[0].items) == len(k[1].items):
                try:
                    return VList([obj.items[r_].items[c_] for r_, c_ in zip(k[0].items, k[1].items)], 'ndarray')     # fancy indexing a[rows, cols]
                except (IndexError, AttributeError):
                    raise PyRaise('IndexError', 'fancy index out of range')
            if isinstance(k, Tm):
                return Tm('getitem', obj, k)
            if isinstance(k, (VList, list)) and all(isinstance(i, int) and not isinstance(i, bool) for i in (k.items if isinstance(k, VList) else k)):
                idx = k.items if isinstance(k, VList) else k
                try:
                    return VList([obj.items[i] for i in idx], 'ndarray')
                except IndexError:
                    raise PyRaise('IndexError', 'fancy index out of range')
            # boolean masks (1-D, entries settled under the path condition; an undetermined entry splits the path) -> integer index arrays
            def _is_mask(v):
                return isinstance(v, VList) and len(v.items) > 0 and all(isinstance(exact(i), bool) or (isinstance(exact(i), z3.ExprRef) and z3.is_bool(exact(i))) for i in v.items)

            def _mask_idx(v):
                return VList([i for i, b in enumerate(v.items) if (exact(b) if isinstance(exact(b), bool) else self.ctx.decide(exact(b)))], 'ndarray')
            if obj.kind == 'ndarray' and _is_mask(k) and len(k.items) == len(obj.items):
                return VList([obj.items[i] for i in _mask_idx(k).items], 'ndarray')
            if obj.kind == 'ndarray' and isinstance(k, tuple) and any(_is_mask(x) for x in k) and \
                    all(_is_mask(x) or (isinstance(x, slice) and all(y is None or isinstance(y, int) for y in (x.start, x.stop, x.step))) for x in k):
                ks = [_mask_idx(x) if _is_mask(x) else x for x in k]
                adv = [i for i, x in enumerate(ks) if isinstance(x, VList)]
                if len(adv) == 1:
                    # one advanced index among slices: its axis stays in place
                    def nd1(a, rest):
                        if not rest:
                            return a
                        if not isinstance(a, VList):
                            raise PyRaise('IndexError', 'too many indices for array')
                        k0 = rest[0]
                        sel_ = a.items[k0] if isinstance(k0, slice) else [a.items[i] for i in k0.items]
                        return VList([nd1(x, rest[1:]) for x in sel_], 'ndarray')
                    return nd1(obj, ks)
                if len(adv) == 2 and adv == [0, 1] and len(ks) == 2:
                    r_, c_ = ks[0].items, ks[1].items
                    if len(r_) != len(c_):
                        if len(r_) == 1:
                            r_ = r_ * len(c_)
                        elif len(c_) == 1:
                            c_ = c_ * len(r_)
                        else:
                            raise PyRaise('IndexError', 'shape mismatch: indexing arrays could not be broadcast together')
                    return VList([obj.items[a_].items[b_] for a_, b_ in zip(r_, c_)], 'ndarray')
            raise Unsupported('index %s of list' % vrepr(k))
        if isinstance(obj, MemoProbe):
            raise MemoHit(k)
        if isinstance(obj, VDict):
            if isinstance(k, (Tm, z3.ExprRef)):
                raise Unsupported('symbolic dict key')
            if k not in obj.d:
                if obj.default_factory is not None:
                    obj.d[k] = self.call(obj.default_factory, [], {})
                    return obj.d[k]
                raise PyRaise('KeyError', repr(k))
            return obj.d[k]
        if isinstance(obj, Tm):
            items = obj.attrs.get('__items__')
            if items is not None and isinstance(k, int):
                return items[k]
            return Tm('getitem', obj, k)
        raise Unsupported('subscript of %s' % vrepr(obj))

    def _adv_plan(self, keys):
        """numpy advanced indexing with one integer array per axis: broadcast the index arrays, return (bshape, [target index tuple per broadcast position])"""
        def shape_of(v):
            shp = []
            while isinstance(v, VList):
                shp.append(len(v.items))
                v = v.items[0] if v.items else None
            return shp
        shapes = [shape_of(k) if isinstance(k, VList) else [] for k in keys]
        r = max(len(s_) for s_ in shapes)
        padded = [[1] * (r - len(s_)) + s_ for s_ in shapes]
        bshape = []
        for ax in range(r):
            sizes = {p[ax] for p in padded if p[ax] != 1}
            if len(sizes) > 1:
                raise PyRaise('IndexError', 'shape mismatch: indexing arrays could not be broadcast together')
            bshape.append(sizes.pop() if sizes else 1)
        def elem(k, pshape, mi):
            if not isinstance(k, VList):
                return k
            v = k
            off = r - len([x for x in shape_of(k)])
            for ax in range(off, r):
                v = v.items[mi[ax] if pshape[ax] != 1 else 0]
            return v
        import itertools as _it
        plan = []
        for mi in _it.product(*[range(b) for b in bshape]):
            tgt = tuple(elem(k, p, mi) for k, p in zip(keys, padded))
            if not all(isinstance(t, int) and not isinstance(t, bool) for t in tgt):
                raise Unsupported('advanced indexing with a symbolic index')
            plan.append((mi, tgt))
        return bshape, plan

    def _is_adv_key(self, k):
        def ints(v):
            if isinstance(v, VList):
                return v.kind == 'ndarray' and all(ints(i) for i in v.items)
            return isinstance(v, int) and not isinstance(v, bool)
        return isinstance(k, tuple) and len(k) >= 2 and all(isinstance(x, VList) for x in k) and all(ints(x) for x in k) and \
            any(isinstance(x.items[0], VList) for x in k if x.items)

    def _sym_index(self, items, k):
        """items[k] with symbolic integer k: an ite chain when every item is a scalar, else a case split via the path explorer."""
        n = len(items)
        if n and all(is_scalar(exact(i)) and not isinstance(exact(i), bool) for i in items):
            kz = to_z3(k)
            if not z3.is_int(kz):
                kz = z3.ToInt(kz)
            self.ctx.pc.append(z3.And(kz >= -n, kz < n))      # an out-of-range index would raise IndexError: excluded here, reported by the caller's contract
            r = to_real(exact(items[0]))
            for i in range(1, n):
                r = z3.If(z3.Or(kz == i, kz == i - n), to_real(exact(items[i])), r)
            return r
        for i in range(n):
            if self.ctx.decide(to_z3(k) == i):
                return items[i]
        for i in range(1, n + 1):
            if self.ctx.decide(to_z3(k) == -i):
                return items[-i]
        raise PyRaise('IndexError', 'symbolic index out of range')

    def ev_ListComp(self, e, env, mod):
        return VList(self._comp(e, env, mod))

    def ev_GeneratorExp(self, e, env, mod):
        return VList(self._comp(e, env, mod))

    def ev_DictComp(self, e, env, mod):
        out = VDict()
        for k, v in self._comp(e, env, mod, dict_=True):
            out.d[k] = v
        return out

    def _comp(self, e, env, mod, dict_=False):
        out = []
        local = Env(env, mod)
        local.locals_declared = None

        def rec(gi):
            if gi == len(e.generators):
                if dict_:
                    out.append((self.eval(e.key, local, mod), self.eval(e.value, local, mod)))
                else:
                    out.append(self.eval(e.elt, local, mod))
                return
            g = e.generators[gi]
            itv = self.eval(g.iter, local, mod)
            if not isinstance(e, ast.SetComp):
                self._note_unordered(itv, e, mod)
            for v in self.iterate(itv):
                self.assign(g.target, v, local, mod)
                if all(self.truth(self.eval(c, local, mod)) for c in g.ifs):
                    rec(gi + 1)
        rec(0)
        return out

    # ---- name resolution at module level
    def module_attr(self, mref, name):
        key = (mref.name, name)
        if key in self.module_overrides:
            return self.module_overrides[key]
        mi = ModInfo.by_name(mref.name) or ModInfo.by_name('dadi.' + mref.name)
        if mi is not None:
            return self.module_global(mi, name)
        # sub-module e.g. numpy.random / scipy.special
        if mref.name.split('.')[0] in ('numpy', 'scipy', 'np', 'os', 'math', 'sys', 'nlopt', 'demes', 'functools', 'operator', 'logging', 'itertools', 'collections'):
            if name == 'newaxis' and mref.name in ('numpy', 'np'):
                return None
            lib = self.lib_attr(mref.name, name)
            if lib is not None:
                return lib
            return Tm('lib:%s.%s' % (mref.name, name))
        return Tm('lib:%s.%s' % (mref.name, name))

    def module_global(self, mi, name, node=None):
        key = (mi.name, name)
        if key in self.module_overrides and not getattr(self, '_import_time_globals', False):
            return self.module_overrides[key]
        if name in mi.funcs:
            return FuncRef(mi, mi.funcs[name], name)
        if name in mi.classes:
            return ClassRef(mi, mi.classes[name])
        if name in mi.assigns:
            v = self.eval(mi.assigns[name], Env(None, mi), mi)
            return v
        if name in mi.imports:
            return self.resolve_import(mi.imports[name], mi)
        # star imports
        for st in mi.tree.body:
            if isinstance(st, ast.ImportFrom) and any(a.name == '*' for a in st.names):
                sub = self._resolve_module(st.module, st.level, mi)
                if sub is not None and (name in sub.funcs or name in sub.assigns or name in sub.imports):
                    return self.module_global(sub, name)
        raise KeyError(name)

    def _resolve_module(self, module, level, mi):
        if level:
            base = mi.name.split('.')
            if not mi.relpath.endswith('__init__.py'):
                base = base[:-1]
            base = base[:len(base) - (level - 1)]
            dotted = '.'.join(base + ([module] if module else []))
        else:
            dotted = module
        return ModInfo.by_name(dotted)

    def resolve_import(self, imp, mi):
        if imp[0] == 'module':
            return ModuleRef(imp[1])
        _, module, name, level = imp
        sub = self._resolve_module(module, level, mi)
        if sub is not None:
            # `from dadi import Numerics` -> submodule
            subsub = ModInfo.by_name(sub.name + '.' + name)
            if subsub is not None and name not in sub.funcs and name not in sub.assigns:
                return ModuleRef(subsub.name)
            try:
                return self.module_global(sub, name)
            except KeyError:
                return Tm('lib:%s.%s' % (sub.name, name))
        if module in ('numpy', 'np') and name == 'newaxis':
            return None
        if module:
            lib = self.lib_attr(module, name)
            if lib is not None:
                return lib
            if module.split('.')[0] in ('numpy', 'scipy'):
                return ModuleRef(module + '.' + name) if name in ('special', 'integrate', 'stats', 'optimize', 'random', 'ma', 'linalg') else Tm('lib:%s.%s' % (module, name))
        return Tm('lib:%s.%s' % (module, name))

    # ---- library models
    def lib_attr(self, modname, name):
        root = modname.split('.')[0]
        if root in ('numpy', 'np', 'math'):
            if name in ('exp', 'log', 'sqrt', 'log10', 'sin', 'cos', 'arctan', 'tanh'):
                return PyFn(lambda x, _n=name: self.elementwise1(_n, x), 'numpy.' + name)
            if name in ('abs', 'fabs', 'absolute'):
                return self.builtins['abs']
            if name == 'pi':
                return z3.Real('pi')
            if name == 'newaxis':
                return None
            if name == 'inf':
                return Tm('float:inf')
            if name in ('ma', 'random', 'linalg'):
                return ModuleRef('numpy.' + name)
            if name in ('float64', 'float32', 'double', 'float_'):
                return PyFn(lambda x: x if is_scalar(exact(x)) else Tm('call:numpy.float64', x), 'numpy.' + name)
            if name == 'isscalar':
                return PyFn(lambda x: is_scalar(x), 'numpy.isscalar')
            if name in ('isnan', 'isinf'):
                # reals are never NaN / infinite (floats as reals)
                def nonfinite(x, _n=name):
                    if is_scalar(exact(x)):
                        xe = exact(x)
                        if _n == 'isinf' and getattr(self, 'model_exp_overflow', False) and isinstance(xe, z3.ExprRef) and z3.is_app(xe) and \
                                xe.decl().name() == 'exp' and xe.num_args() == 1:
                            # opt-in (overflow guards under contract): whether exp(t) overflows the floating-point range is an uninterpreted
                            # predicate of t, so that the guarded branch is explored and WHAT the guard tests can be stated
                            return z3.Function('exp_overflows', RealS, z3.BoolSort())(xe.arg(0))
                        return False
                    if isinstance(x, VList) and x.kind == 'ndarray':
                        return VList([nonfinite(i) for i in x.items], 'ndarray')
                    return Tm('call:lib:numpy.' + _n, x)
                return PyFn(nonfinite, 'numpy.' + name)
            if name == 'atleast_1d':
                return PyFn(lambda x: VList([x], 'ndarray') if is_scalar(exact(x)) else self.np_array(x), 'numpy.atleast_1d')
            if name == 'squeeze':
                def squeeze_(a, axis=None):
                    """numpy docs: remove axes of length one (all of them when axis is None)"""
                    if axis is not None or not isinstance(a, VList):
                        return Tm('call:lib:numpy.squeeze', a)
                    def sq(v):
                        if not isinstance(v, VList):
                            return v
                        if len(v.items) == 1:
                            return sq(v.items[0])
                        return VList([sq(i) for i in v.items], 'ndarray')
                    def rect(v):
                        if not isinstance(v, VList):
                            return ()
                        shp = [rect(i) for i in v.items]
                        if any(x != shp[0] for x in shp[1:]) or any(x is None for x in shp):
                            return None
                        return (len(v.items),) + (shp[0] if shp else ())
                    if rect(a) is None:
                        return Tm('call:lib:numpy.squeeze', a)
                    return sq(a)
                return PyFn(squeeze_, 'numpy.squeeze')
            if name == 'concatenate':
                def concatenate_(seq, axis=0):
                    parts = list(self.iterate(seq)) if isinstance(seq, (VList, tuple, list)) else None
                    if axis != 0 or parts is None or not all(isinstance(x, (VList, list, tuple)) for x in parts):
                        return Tm('call:lib:numpy.concatenate', seq)
                    out_ = []
                    for x in parts:
                        out_ += list(self.iterate(x))
                    return VList(out_, 'ndarray')
                return PyFn(concatenate_, 'numpy.concatenate')
            if name == 'ndindex':
                def ndindex(*shape):
                    if len(shape) == 1 and isinstance(shape[0], (tuple, VList)):
                        shape = tuple(self.iterate(shape[0]))
                    if not all(isinstance(n_, int) for n_ in shape):
                        raise Unsupported('symbolic ndindex')
                    import itertools as _it
                    return VList([tuple(t) for t in _it.product(*[range(n_) for n_ in shape])])
                return PyFn(ndindex, 'numpy.ndindex')
            if name in ('trapz', 'trapezoid'):
                def trapz_(y, x=None, dx=1, axis=-1, _n=name):
                    """axiom (numpy docs): composite trapezoid rule along the last axis, sum_j d_j (y_j + y_{j+1})/2 with d = diff(x), or dx (scalar or array)"""
                    def leaves_scalar(v):
                        return all(leaves_scalar(i) if isinstance(i, VList) else is_scalar(exact(i)) for i in v.items)
                    if isinstance(y, VList) and isinstance(axis, int) and not isinstance(axis, bool) and axis > 0:
                        nd_, v_ = 0, y
                        while isinstance(v_, VList) and v_.items:
                            nd_, v_ = nd_ + 1, v_.items[0]
                        if axis == nd_ - 1:
                            axis = -1
                    if isinstance(y, VList) and axis == 0 and leaves_scalar(y) and (x is None or (isinstance(x, VList) and leaves_scalar(x))) and len(y.items) >= 1:
                        # along the first axis: sum_k d_k (y[k] + y[k+1])/2 with whole sub-arrays as summands
                        m = len(y.items)
                        if x is not None:
                            xi = self.iterate(x)
                            d0 = [self.binop(ast.Sub(), xi[j + 1], xi[j]) for j in range(len(xi) - 1)]
                        elif isinstance(dx, VList):
                            d0 = list(dx.items)
                        else:
                            d0 = [dx] * (m - 1)
                        if len(d0) != m - 1:
                            raise PyRaise('ValueError', 'operands could not be broadcast together')
                        r = self.binop(ast.Mult(), 0, y.items[0]) if m == 1 else None
                        for j in range(m - 1):
                            t = self.binop(ast.Div(), self.binop(ast.Mult(), d0[j], self.binop(ast.Add(), y.items[j], y.items[j + 1])), 2)
                            r = t if r is None else self.binop(ast.Add(), r, t)
                        return r
                    if not (isinstance(y, VList) and axis == -1 and leaves_scalar(y) and (x is None or (isinstance(x, VList) and leaves_scalar(x)))):
                        return Tm('call:lib:numpy.' + _n, y, *([x] if x is not None else []), *([('kw', 'dx', dx)] if x is None else []))
                    if x is not None:
                        xi = self.iterate(x)
                        d = [self.binop(ast.Sub(), xi[j + 1], xi[j]) for j in range(len(xi) - 1)]
                    elif isinstance(dx, VList):
                        d = list(dx.items)
                    else:
                        d = None

                    def last(v):
                        if v.items and isinstance(v.items[0], VList):
                            return VList([last(i) for i in v.items], 'ndarray')
                        m = len(v.items)
                        dd = d if d is not None else [dx] * (m - 1)
                        if len(dd) != m - 1:
                            raise PyRaise('ValueError', 'operands could not be broadcast together')
                        r = 0
                        for j in range(m - 1):
                            r = self.binop(ast.Add(), r, self.binop(ast.Div(), self.binop(ast.Mult(), dd[j], self.binop(ast.Add(), v.items[j], v.items[j + 1])), 2))
                        return r
                    return last(y)
                return PyFn(trapz_, 'numpy.trapezoid')
            if name == 'asanyarray':
                return PyFn(lambda x, *a, **k: x if isinstance(x, VList) and x.kind == 'ndarray' else self.np_array(x, **k), 'numpy.asanyarray')
            if name == 'asarray' or name == 'array':
                return PyFn(lambda x, *a, **k: self.np_array(x, **k), 'numpy.' + name)
            if name == 'any':
                return PyFn(lambda x: self.np_any(x), 'numpy.any')
            if name == 'all':
                return PyFn(lambda x: self.np_all(x), 'numpy.all')
            if name == 'zeros_like':
                return PyFn(lambda x, **k: VList([0] * len(self.iterate(x)), 'ndarray'), 'numpy.zeros_like')
            if name == 'diff':
                def diff(x, *a, **k):
                    if isinstance(x, VList) and not a and not k and all(is_scalar(exact(i)) for i in x.items):
                        return VList([self.binop(ast.Sub(), x.items[i + 1], x.items[i]) for i in range(len(x.items) - 1)], 'ndarray')
                    return Tm('call:numpy.diff', x, *a)
                return PyFn(diff, 'numpy.diff')
            if name in ('multiply', 'add', 'subtract', 'divide', 'true_divide', 'power', 'negative'):
                opn = {'multiply': ast.Mult(), 'add': ast.Add(), 'subtract': ast.Sub(), 'divide': ast.Div(), 'true_divide': ast.Div(), 'power': ast.Pow()}.get(name)
                if name == 'negative':
                    return PyFn(lambda a: self.binop(ast.Mult(), -1, a), 'numpy.negative')
                return PyFn(lambda a, b, _o=opn: self.binop(_o, a if not isinstance(a, (list, tuple)) else self.np_array(a), b if not isinstance(b, (list, tuple)) else self.np_array(b)), 'numpy.' + name)
            if name == 'indices':
                def indices(shape):
                    if isinstance(shape, Tm):
                        return Tm('call:lib:numpy.indices', shape)
                    shape = tuple(self.iterate(shape))
                    if not all(isinstance(n_, int) for n_ in shape):
                        raise Unsupported('symbolic numpy.indices')
                    def build(k, prefix, dims):
                        if not dims:
                            return prefix[k]
                        return VList([build(k, prefix + [i], dims[1:]) for i in range(dims[0])], 'ndarray')
                    return VList([build(k, [], list(shape)) for k in range(len(shape))], 'ndarray')
                return PyFn(indices, 'numpy.indices')
            if name == 'transpose':
                def transpose(a, axes=None):
                    if not isinstance(a, VList):
                        return Tm('call:lib:numpy.transpose', a, *([axes] if axes is not None else []))
                    def rank(v):
                        r = 0
                        while isinstance(v, VList):
                            r += 1
                            v = v.items[0] if v.items else None
                        return r
                    r = rank(a)
                    axes_ = list(range(r))[::-1] if axes is None else [int(x) for x in self.iterate(axes)]
                    if sorted(axes_) != list(range(r)):
                        raise PyRaise('ValueError', "axes don't match array")
                    shp = self.list_method(a, 'shape')
                    def get(v, idx):
                        for i in idx:
                            v = v.items[i]
                        return v
                    new_shape = [shp[ax] for ax in axes_]
                    def build(prefix, dims):
                        if not dims:
                            src = [0] * r
                            for pos, ax in enumerate(axes_):
                                src[ax] = prefix[pos]
                            return get(a, src)
                        return VList([build(prefix + [i], dims[1:]) for i in range(dims[0])], 'ndarray')
                    return build([], new_shape)
                return PyFn(transpose, 'numpy.transpose')
            if name == 'append':
                def append(arr_, vals, *a, **k):
                    ax_ = a[0] if len(a) == 1 and not k else (k.get('axis') if not a and set(k) == {'axis'} else 'other')
                    if ax_ == 0 and isinstance(arr_, VList) and isinstance(vals, (VList, list)) and arr_.items and isinstance(arr_.items[0], VList):
                        rows = list(vals.items) if isinstance(vals, VList) else list(vals)
                        if all(isinstance(r_, VList) and len(r_.items) == len(arr_.items[0].items) for r_ in rows):
                            # numpy docs: with axis=0 the rows of `values` (same trailing shape) are appended to a copy of arr
                            return VList(list(arr_.items) + [VList(list(r_.items), 'ndarray') for r_ in rows], 'ndarray')
                    if a or k or not isinstance(arr_, VList):
                        return Tm('call:lib:numpy.append', arr_, vals, *a, *[('kw', k_, v_) for k_, v_ in sorted(k.items())])
                    extra = list(vals.items) if isinstance(vals, VList) else [vals]
                    return VList(list(arr_.items) + extra, 'ndarray')      # a new flattened array (1-D use only)
                return PyFn(append, 'numpy.append')
            if name == 'prod':
                def prod(x, *a, **k):
                    if isinstance(x, (tuple, list, VList)) and not a and not k:
                        r = 1
                        for i in self.iterate(x):
                            r = self.binop(ast.Mult(), r, i)
                        return r
                    return Tm('call:lib:numpy.prod', x, *a)
                return PyFn(prod, 'numpy.prod')
            if name == 'mean':
                def mean(x, *a, **k):
                    if isinstance(x, VList) and not a and not k and all(is_scalar(exact(i)) for i in x.items) and x.items:
                        return self.binop(ast.Div(), self.np_sum(x), len(x.items))
                    ax = a[0] if a else k.get('axis')
                    if isinstance(x, VList) and isinstance(ax, int) and not isinstance(ax, bool) and len(a) <= 1 and set(k) <= {'axis'}:
                        shp = self.list_method(x, 'shape') if x.kind == 'ndarray' else (len(x.items),)
                        return self.binop(ast.Div(), self.np_sum(x, axis=ax), shp[ax])
                    return Tm('call:numpy.mean', x, *a)
                return PyFn(mean, 'numpy.mean')
            if name == 'dot':
                def dot(a, b):
                    """numpy.dot on arrays of concrete shape: sum over the last axis of a and the second-to-last (or only) axis of b"""
                    if not (isinstance(a, VList) and isinstance(b, VList)):
                        if (is_scalar(exact(a)) or is_scalar(exact(b))) and not isinstance(a, Tm) and not isinstance(b, Tm):
                            return self.binop(ast.Mult(), a, b)
                        return Tm('call:lib:numpy.dot', a, b)
                    def rank(v):
                        r = 0
                        while isinstance(v, VList):
                            r += 1
                            v = v.items[0] if v.items else None
                        return r
                    ra, rb = rank(a), rank(b)
                    def inner(u, w):
                        if len(u.items) != len(w.items):
                            raise PyRaise('ValueError', 'shapes not aligned')
                        r = 0
                        for x, y in zip(u.items, w.items):
                            r = self.binop(ast.Add(), r, self.binop(ast.Mult(), x, y))
                        return r
                    def cols(bm):
                        # b of rank >= 2: iterate over the last axis, giving the vectors along the second-to-last axis
                        if rank(bm) == 2:
                            ncol = len(bm.items[0].items)
                            return VList([VList([row.items[j] for row in bm.items], 'ndarray') for j in range(ncol)], 'ndarray')
                        return VList([cols(sub) for sub in bm.items], 'ndarray')
                    def over_a(u, f):
                        if rank(u) == 1:
                            return f(u)
                        return VList([over_a(x, f) for x in u.items], 'ndarray')
                    if rb == 1:
                        return over_a(a, lambda u: inner(u, b))
                    if rb == 2:
                        cb = cols(b)
                        return over_a(a, lambda u: VList([inner(u, c) for c in cb.items], 'ndarray'))
                    raise Unsupported('numpy.dot with a rank-%d second argument' % rb)
                return PyFn(dot, 'numpy.dot')
            if name in ('less', 'less_equal', 'greater', 'greater_equal', 'equal', 'not_equal'):
                opn = {'less': ast.Lt(), 'less_equal': ast.LtE(), 'greater': ast.Gt(), 'greater_equal': ast.GtE(), 'equal': ast.Eq(), 'not_equal': ast.NotEq()}[name]

                def cmp_(a, b, _o=opn):
                    a = self.np_array(a) if isinstance(a, (list, tuple)) or (isinstance(a, VList) and a.kind != 'ndarray') else a
                    b = self.np_array(b) if isinstance(b, (list, tuple)) or (isinstance(b, VList) and b.kind != 'ndarray') else b
                    return self.compare(_o, a, b)
                return PyFn(cmp_, 'numpy.' + name)
            if name in ('logical_or', 'logical_and', 'logical_xor', 'logical_not'):
                def logical(*xs, _n=name):
                    def one(*v):
                        if any(isinstance(i, VList) for i in v):
                            m = max(len(i.items) for i in v if isinstance(i, VList))
                            cols = [(i.items * m if len(i.items) == 1 and m > 1 else i.items) if isinstance(i, VList) else [i] * m for i in v]
                            if any(len(c) != m for c in cols):
                                raise PyRaise('ValueError', 'operands could not be broadcast together')
                            return VList([one(*t) for t in zip(*cols)], 'ndarray')
                        v = [exact(i) for i in v]
                        if any(isinstance(i, Tm) for i in v):
                            return Tm('call:numpy.' + _n, *v)
                        if all(isinstance(i, (bool, int, Fraction)) for i in v):
                            bs = [bool(i) for i in v]
                            return {'logical_or': lambda: bs[0] or bs[1], 'logical_and': lambda: bs[0] and bs[1],
                                    'logical_xor': lambda: bs[0] != bs[1], 'logical_not': lambda: not bs[0]}[_n]()
                        zs = [z3.BoolVal(bool(i)) if isinstance(i, (bool, int, Fraction)) else (i if z3.is_bool(i) else i != 0) for i in v]
                        return z3.simplify({'logical_or': lambda: z3.Or(zs), 'logical_and': lambda: z3.And(zs),
                                            'logical_xor': lambda: z3.Xor(zs[0], zs[1]), 'logical_not': lambda: z3.Not(zs[0])}[_n]())
                    return one(*xs)
                return PyFn(logical, 'numpy.' + name)
            if name == 'where':
                def where(c, a, b):
                    if isinstance(c, VList):
                        m = len(c.items)
                        ai = a.items if isinstance(a, VList) else [a] * m
                        bi = b.items if isinstance(b, VList) else [b] * m
                        if len(ai) != m or len(bi) != m:
                            raise PyRaise('ValueError', 'operands could not be broadcast together')
                        return VList([where(ci, x, y) for ci, x, y in zip(c.items, ai, bi)], 'ndarray')
                    if isinstance(c, bool):
                        return a if c else b
                    if isinstance(c, z3.ExprRef) and is_scalar(exact(a)) and is_scalar(exact(b)):
                        return z3.If(c, to_real(exact(a)), to_real(exact(b)))
                    return Tm('call:numpy.where', c, a, b)
                return PyFn(where, 'numpy.where')
            if name == 'searchsorted':
                def searchsorted(arr, v, side='left'):
                    """axiom (numpy docs): returns u with arr[u-1] < v <= arr[u] (left), 0 <= u <= len(arr); arr sorted"""
                    if not (isinstance(arr, VList) and is_scalar(exact(v)) and side == 'left'):
                        return Tm('call:numpy.searchsorted', arr, v)
                    n = len(arr.items)
                    vz = to_real(exact(v))
                    for u in range(n + 1):
                        lo = z3.BoolVal(True) if u == 0 else to_real(arr.items[u - 1]) < vz
                        hi = z3.BoolVal(True) if u == n else vz <= to_real(arr.items[u])
                        if self.ctx.decide(z3.And(lo, hi)):
                            return u
                    raise _Infeasible()
                return PyFn(searchsorted, 'numpy.searchsorted')
            if name in ('empty', 'zeros', 'ones'):
                return PyFn(lambda shape, *a, _n=name, **k: self.np_alloc(_n, shape), 'numpy.' + name)
            if name == 'sum':
                return PyFn(lambda x, *a, **k: self.np_sum(x, *a, **k), 'numpy.sum')
            if name == 'arange':
                def arange(*a, **k):
                    a = [exact(x) for x in a]
                    if not all(isinstance(x, (int, Fraction)) and not isinstance(x, bool) for x in a):
                        return Tm('call:numpy.arange', *a)
                    lo, hi, st = (0, a[0], 1) if len(a) == 1 else (a[0], a[1], 1) if len(a) == 2 else a
                    out, x = [], lo
                    while (st > 0 and x < hi) or (st < 0 and x > hi):
                        out.append(int(x) if int(x) == x else x)
                        x = x + st
                    return VList(out, 'ndarray')
                return PyFn(arange, 'numpy.arange')
            if name in ('minimum', 'maximum'):
                return PyFn(lambda a, b, _n=name: self.minmax(_n[:3], [a, b]), 'numpy.' + name)
        if modname in ('numpy.ma', 'np.ma') and name == 'masked_array':
            def masked_array(x, *a, **k):
                def cp(v):
                    return VList([cp(i) for i in v.items], 'ndarray') if isinstance(v, VList) else v
                if isinstance(x, VList) and not a and not k:
                    return cp(x)      # a fresh array with the same entries (its .data is itself, nothing masked)
                return Tm('call:numpy.ma.masked_array', x, *a)
            return PyFn(masked_array, 'numpy.ma.masked_array')
        if modname in ('numpy.ma', 'np.ma') and name == 'power':
            def mapower(a, b):
                if is_scalar(exact(a)) and is_scalar(exact(b)):
                    return self.power(exact(a), exact(b))      # numpy.ma.power additionally masks invalid results; on reals it is the power
                return Tm('call:lib:numpy.ma.power', a, b)
            return PyFn(mapower, 'numpy.ma.power')
        if modname in ('numpy.ma', 'np.ma') and name == 'sum':
            return PyFn(lambda x, *a, **k: self.np_sum(x, *a, **k), 'numpy.ma.sum')
        if modname in ('numpy.random', 'np.random') and name == 'uniform':
            def uniform(low=0, high=1, size=None):
                if not isinstance(size, int) or low != 0 or high != 1:
                    return Tm('call:numpy.random.uniform', low, high, size)
                out = []
                for i in range(size):
                    u = self.ctx.fresh('u')
                    self.ctx.pc += [u >= 0, u < 1]
                    out.append(u)
                return VList(out, 'ndarray')
            return PyFn(uniform, 'numpy.random.uniform')
        if modname in ('scipy.special',) and name in ('gammaln', 'betaln', 'betainc', 'gamma'):
            ar = {'gammaln': 1, 'gamma': 1, 'betaln': 2, 'betainc': 3}[name]

            def special(*a, _n=name, _ar=ar):
                if len(a) == _ar and all(is_scalar(exact(x)) for x in a):
                    return uf(_n, _ar)(*[to_real(exact(x)) for x in a])
                if len(a) == _ar and any(isinstance(x, VList) and x.kind == 'ndarray' for x in a) and all(is_scalar(exact(x)) or (isinstance(x, VList) and x.kind == 'ndarray') for x in a):
                    m = max(len(x.items) for x in a if isinstance(x, VList))
                    if all(len(x.items) == m for x in a if isinstance(x, VList)):
                        return VList([special(*[x.items[i] if isinstance(x, VList) else x for x in a]) for i in range(m)], 'ndarray')     # ufunc: element-wise
                return Tm('call:scipy.special.' + _n, *a)
            return PyFn(special, 'scipy.special.' + name)
        if modname in ('scipy.special',) and name == 'comb':
            def comb(n, k, **kw):
                n, k = exact(n), exact(k)
                if isinstance(n, (int, Fraction)) and isinstance(k, (int, Fraction)) and int(n) == n and int(k) == k:
                    import math as _m
                    return _m.comb(int(n), int(k)) if 0 <= k <= n else 0     # scipy.special.comb is 0 outside 0<=k<=n
                return uf('comb', 2)(to_real(n), to_real(k))
            return PyFn(comb, 'scipy.special.comb')
        if root == 'math' and name == 'factorial':
            def fact(x):
                x = exact(x)
                if isinstance(x, (int, Fraction)) and int(x) == x and x >= 0:
                    import math as _m
                    return _m.factorial(int(x))
                raise Unsupported('factorial of a symbolic value')
            return PyFn(fact, 'math.factorial')
        if root == 'math' and name in ('ceil', 'floor'):
            def rnd(x, _n=name):
                x = exact(x)
                if isinstance(x, (int, Fraction)):
                    import math as _m
                    return getattr(_m, _n)(x)
                raise Unsupported('math.%s of a symbolic value' % _n)
            return PyFn(rnd, 'math.' + name)
        if root == 'collections' and name == 'defaultdict':
            def defaultdict(factory=None):
                d = VDict()
                d.default_factory = factory
                return d
            return PyFn(defaultdict, 'collections.defaultdict')
        if root == 'itertools' and name == 'combinations':
            import itertools as _it
            return PyFn(lambda seq, r: VList([tuple(c) for c in _it.combinations(self.iterate(seq), int(r))]), 'itertools.combinations')
        if root == 'functools' and name == 'reduce':
            def reduce_(ex, f, seq, *init):
                items = list(ex.iterate(seq))
                if init:
                    acc = init[0]
                elif items:
                    acc = items.pop(0)
                else:
                    raise PyRaise('TypeError', 'reduce() of empty iterable with no initial value')
                for x in items:
                    acc = ex.call(f, [acc, x], {})
                return acc
            return PyFn(reduce_, 'functools.reduce', wants_ex=True)
        if root == 'operator' and name in ('add', 'mul', 'sub'):
            node = {'add': ast.Add(), 'mul': ast.Mult(), 'sub': ast.Sub()}[name]
            return PyFn(lambda a, b, _n=node: self.binop(_n, a, b), 'operator.' + name)
        if root == 'functools' and name == 'partial':
            def partial(f, *a, **k):
                return PyFn(lambda ex, *a2, **k2: ex.call(f, list(a) + list(a2), dict(k, **k2)), 'partial', wants_ex=True)
            return PyFn(partial, 'functools.partial')
        if root == 'logging':
            return PyFn(lambda *a, **k: Tm('logger'), 'logging.' + name)
        return None

    def np_array(self, x, copy=None, dtype=None, **kw):
        # element type: arrays are modelled over the reals; what is tracked is only whether the element type is *fixed by the code*
        # (dtype=float given) or *decided by the caller's values* (attrs['dtype'] == 'any' on an input the contract marked so, inherited by
        # numpy.array / asarray of it without a dtype): storing a non-integer into the latter truncates when the caller passed integers.
        def tag(r, src):
            if isinstance(r, VList):
                if dtype is not None:
                    r.attrs['dtype'] = 'fixed'
                elif isinstance(src, VList) and src.attrs.get('dtype'):
                    r.attrs['dtype'] = src.attrs['dtype']
            return r
        if isinstance(x, (tuple, list)):
            return tag(VList([exact(i) for i in x], 'ndarray'), None)
        if isinstance(x, VList):
            return tag(VList(x.items, 'ndarray'), x)
        if isinstance(x, Tm):
            return Tm('call:numpy.array', x)
        if is_scalar(x):
            return x
        raise Unsupported('numpy.array(%s)' % vrepr(x))

    def np_alloc(self, which, shape):
        if isinstance(shape, VList):
            shape = tuple(shape.items)
        if isinstance(shape, int):
            shape = (shape,)
        if not (isinstance(shape, tuple) and all(isinstance(n, int) for n in shape)):
            return Tm('call:numpy.' + which, shape)
        fill = {'empty': None, 'zeros': 0, 'ones': 1}[which]

        def mk(dims):
            if len(dims) == 1:
                return VList([Tm('uninit') if fill is None else fill for _ in range(dims[0])], 'ndarray')
            return VList([mk(dims[1:]) for _ in range(dims[0])], 'ndarray')
        return mk(shape)

    def np_sum(self, x, *a, **k):
        axis = a[0] if a else k.get('axis')
        if isinstance(x, VList) and isinstance(axis, int) and not isinstance(axis, bool) and len(a) <= 1 and set(k) <= {'axis'}:
            nd_, a_ = 0, x
            while isinstance(a_, VList):
                nd_ += 1
                a_ = a_.items[0] if a_.items else None
            ax = axis + nd_ if axis < 0 else axis
            if not 0 <= ax < nd_:
                raise PyRaise('ValueError', 'axis %d is out of bounds for array of dimension %d' % (axis, nd_))

            def red(v, ax_):
                if ax_ == 0:
                    if not v.items:
                        return 0
                    r = v.items[0]
                    for i in v.items[1:]:
                        r = self.binop(ast.Add(), r, i)
                    return r
                return VList([red(i, ax_ - 1) for i in v.items], 'ndarray')
            return red(x, ax)
        if isinstance(x, VList) and x.kind == 'ndarray' and not a and not k and x.items and all(isinstance(i, VList) for i in x.items):
            r = 0
            for i in x.items:
                r = self.binop(ast.Add(), r, self.np_sum(i))
            return r
        if isinstance(x, (tuple, VList)) and not a and not k:
            items = x.items if isinstance(x, VList) else x
            if all(is_scalar(exact(i)) for i in items):
                r = 0
                for i in items:
                    r = self.binop(ast.Add(), r, i)
                return r
        return Tm('call:numpy.sum', x, *a, *[('kw', kk, v) for kk, v in sorted(k.items())])

    def _flat_leaves(self, x):
        out = []
        for i in x.items:
            out += self._flat_leaves(i) if isinstance(i, VList) else [i]
        return out

    def _truth_formula(self, c):
        """truth value of one array element as a formula: booleans as they are, numbers as `!= 0` (numpy.any / numpy.all on numeric arrays)"""
        c = exact(c)
        if isinstance(c, bool):
            return z3.BoolVal(c)
        if isinstance(c, (int, float, Fraction)):
            return z3.BoolVal(c != 0)
        if isinstance(c, z3.ExprRef):
            return c if z3.is_bool(c) else c != 0
        if isinstance(c, Tm):
            return named_bool('truth(%s)' % vrepr(c))
        z = to_z3(c)
        return z if z3.is_bool(z) else z != 0

    def np_any(self, x):
        if isinstance(x, VList):
            leaves = self._flat_leaves(x)
            if all(isinstance(c, bool) for c in leaves):
                return any(leaves)
            cs = [self._truth_formula(c) for c in leaves]
            return z3.simplify(z3.Or(cs)) if cs else False
        if isinstance(x, Tm):
            return named_bool('any(%s)' % vrepr(x))
        return x

    def np_all(self, x):
        if isinstance(x, VList):
            leaves = self._flat_leaves(x)
            if all(isinstance(c, bool) for c in leaves):
                return all(leaves)
            cs = [self._truth_formula(c) for c in leaves]
            return z3.simplify(z3.And(cs)) if cs else True
        if isinstance(x, Tm):
            return named_bool('all(%s)' % vrepr(x))
        return x

    def elementwise1(self, name, x):
        x = exact(x)
        if isinstance(x, Tm):
            return Tm('call:numpy.' + name, x)
        if isinstance(x, VList):
            return VList([self.elementwise1(name, i) for i in x.items], x.kind)
        if is_num(x):
            if name == 'exp' and x == 0:
                return 1
            if name in ('log', 'log10') and x == 1:
                return 0
            if name == 'sqrt' and x in (0, 1):
                return x
        return uf(name)(to_real(x))

    def minmax(self, which, vals):
        vals = [exact(v) for v in vals]
        if len(vals) == 2 and any(isinstance(v, VList) for v in vals):
            a, b = vals
            if isinstance(a, VList) and isinstance(b, VList):
                if len(a.items) != len(b.items) and len(a.items) == 1:
                    return VList([self.minmax(which, [a.items[0], y]) for y in b.items], 'ndarray')     # numpy broadcasting of a length-1 axis
                if len(a.items) != len(b.items) and len(b.items) == 1:
                    return VList([self.minmax(which, [x, b.items[0]]) for x in a.items], 'ndarray')
                if len(a.items) != len(b.items):
                    raise PyRaise('ValueError', 'shape mismatch')
                return VList([self.minmax(which, [x, y]) for x, y in zip(a.items, b.items)], 'ndarray')
            if isinstance(a, VList) and not isinstance(b, Tm):
                return VList([self.minmax(which, [x, b]) for x in a.items], 'ndarray')
            if isinstance(b, VList) and not isinstance(a, Tm):
                return VList([self.minmax(which, [a, y]) for y in b.items], 'ndarray')
        if any(isinstance(v, Tm) for v in vals):
            return Tm('call:' + which, *vals)
        if all(is_num(v) for v in vals):
            return min(vals) if which == 'min' else max(vals)
        r = to_real(vals[0])
        for v in vals[1:]:
            v = to_real(v)
            r = z3.If(v < r, v, r) if which == 'min' else z3.If(v > r, v, r)
        return r

    def _mk_builtins(self):
        ex = self

        def _len(x):
            if isinstance(x, (tuple, list, str)):
                return len(x)
            if isinstance(x, VList):
                return len(x.items)
            if isinstance(x, VDict):
                return len(x.d)
            if isinstance(x, Tm):
                if '__len__' in x.attrs:
                    return x.attrs['__len__']
                n = z3.Int('len(%s)' % vrepr(x))
                return n
            raise PyRaise('TypeError', 'len of %s' % vrepr(x))

        def _range(*a):
            if not all(isinstance(i, int) for i in a):
                raise Unsupported('symbolic range')
            return range(*a)

        def _abs(x):
            x = exact(x)
            if isinstance(x, Tm):
                return Tm('call:abs', x)
            if isinstance(x, VList):
                return VList([_abs(i) for i in x.items], x.kind)
            if is_num(x):
                return abs(x)
            x = to_real(x)
            return z3.If(x >= 0, x, -x)

        def _min(*a, **k):
            vals = ex.iterate(a[0]) if len(a) == 1 else list(a)
            return ex.minmax('min', vals)

        def _max(*a, **k):
            vals = ex.iterate(a[0]) if len(a) == 1 else list(a)
            return ex.minmax('max', vals)

        def _sum(xs, start=0):
            r = start
            for x in ex.iterate(xs):
                r = ex.binop(ast.Add(), r, x)
            return r

        def _list(x=()):
            return VList(ex.iterate(x))

        def _tuple(x=()):
            return tuple(ex.iterate(x))

        def _dict(x=None, **kw):
            d = VDict()
            if isinstance(x, VDict):
                d.d.update(x.d)
            elif x is not None:
                for k, v in ex.iterate(x):
                    d.d[k] = v
            d.d.update(kw)
            return d

        def _zip(*xs):
            return VList(list(zip(*[ex.iterate(x) for x in xs])))

        def _enumerate(x, start=0):
            return VList(list(enumerate(ex.iterate(x), start)))

        def _float(x=0):
            if isinstance(x, Tm):
                return Tm('call:float', x)
            if isinstance(x, str):
                return exact(float(x))
            return x

        def _int(x=0):
            if isinstance(x, str):
                try:
                    return int(x)
                except ValueError as e:
                    raise PyRaise('ValueError', str(e))
            if isinstance(x, Tm):
                return Tm('call:int', x)
            if is_num(x):
                return int(x)
            if isinstance(x, bool):
                return int(x)
            if is_sym(x) and z3.is_int(x):
                return x
            return z3.ToInt(to_real(x))

        def _bool(x):
            return ex.truth(x)

        def _isinstance(x, t):
            if isinstance(x, VObj) and '__class__' in x.attrs:
                # an object built by the contract with a class tag: decide by the real class hierarchy of the analysed module
                def names(c):
                    out_ = {c.node.name}
                    for b in c.node.bases:
                        bn = getattr(b, 'id', getattr(b, 'attr', None))
                        if bn and bn in c.mod.classes:
                            out_ |= names(ClassRef(c.mod, c.mod.classes[bn]))
                    return out_
                ts = list(t) if isinstance(t, tuple) else (list(t.items) if isinstance(t, VList) else [t])
                if all(isinstance(c, ClassRef) for c in ts):
                    cls = x.attrs['__class__']
                    mine = names(cls) if isinstance(cls, ClassRef) else {cls}
                    return any(c.node.name in mine for c in ts)
            return named_bool('isinstance(%s, %s)' % (vrepr(x), vrepr(t)))

        def _hasattr(x, n):
            if isinstance(x, (Tm, Closure)) and n in x.attrs:
                return True
            if isinstance(x, Tm):
                return named_bool('hasattr(%s, %s)' % (vrepr(x), n))
            return False

        def _getattr(x, n, *d):
            try:
                return ex.getattr(x, n)
            except PyRaise:
                if d:
                    return d[0]
                raise

        def _print(*a, **k):
            return None

        def _sorted(x, **k):
            items = ex.iterate(x)
            if all(is_num(i) or isinstance(i, str) for i in items) and not k.get('key'):
                return VList(sorted(items, reverse=bool(k.get('reverse', False))))
            def conc(v):
                return is_num(v) or isinstance(v, (str, float)) or (isinstance(v, tuple) and all(conc(c) for c in v))
            if not k.get('key') and all(isinstance(i, tuple) and i and conc(i[0]) for i in items) and len({i[0] for i in items}) == len(items):
                # tuples ordered by distinct concrete first components: the remaining components never get compared
                return VList(sorted(items, key=lambda t: t[0], reverse=bool(k.get('reverse', False))))
            if k.get('key'):
                def concrete(v):
                    v = exact(v)
                    if isinstance(v, tuple):
                        return tuple(concrete(c) for c in v)
                    if is_num(v) or isinstance(v, str) or v is None:
                        return v
                    raise Unsupported('sorted with a symbolic key')
                keyed = [(concrete(ex.call(k['key'], [i], {})), n, i) for n, i in enumerate(items)]
                try:
                    keyed.sort(key=lambda t: t[0], reverse=bool(k.get('reverse', False)))
                except TypeError as e:
                    raise PyRaise('TypeError', str(e))
                return VList([i for _, _, i in keyed])
            if not k.get('key') and items and all(is_scalar(exact(i)) and not isinstance(exact(i), bool) for i in items) and len(items) <= 6:
                # symbolic scalars: insertion sort whose comparisons are decided under the path condition (an open comparison splits the path);
                # Python's sort is stable, and elements that compare equal are interchangeable as values
                out_ = []
                for it in items:
                    pos = len(out_)
                    while pos > 0:
                        lt = to_z3(exact(it)) < to_z3(exact(out_[pos - 1]))
                        if ex.ctx.decide(lt):
                            pos -= 1
                        else:
                            break
                    out_.insert(pos, it)
                if k.get('reverse'):
                    raise Unsupported('sorted(reverse=True) of symbolic values')
                return VList(out_)
            raise Unsupported('sorted of symbolic values')

        def _reversed(x):
            return VList(list(reversed(ex.iterate(x))))

        def _str(x=''):
            if isinstance(x, str):
                return x
            if isinstance(x, (int, Fraction)):
                return str(x)
            return Tm('call:str', x)

        def _map(f, *xs):
            return VList([ex.call(f, list(a), {}) for a in zip(*[ex.iterate(x) for x in xs])])

        def _callable(x):
            return isinstance(x, (Closure, FuncRef, PyFn))

        def _any(x):
            for v in ex.iterate(x):
                if ex.truth(v):
                    return True
            return False

        def _all(x):
            for v in ex.iterate(x):
                if not ex.truth(v):
                    return False
            return True

        def _round(x, n=None):
            return Tm('call:round', x, n)
        def _set(x=()):
            """set(iterable) of numbers / tuples of numbers: an element is dropped when it equals an earlier one (decided per path);
            iteration order is modelled as first-occurrence order (CPython's order is unspecified: only order-insensitive uses are sound)."""
            kept = []
            items_ = list(ex.iterate(x))
            if items_ and all(isinstance(exact(v), str) for v in items_):
                # concrete strings: duplicates dropped by equality, first-occurrence order (the real order depends on the hash seed: iteration is
                # logged as 'unordered-iteration' by the for / comprehension that consumes the set)
                for v in items_:
                    if exact(v) not in [exact(w) for w in kept]:
                        kept.append(v)
                return VList(kept, 'set')
            for v in items_:
                tv = tuple(ex.iterate(v)) if isinstance(v, (tuple, list, VList)) else (v,)
                if not all(is_scalar(exact(c)) for c in tv):
                    raise Unsupported('set() of non-numeric elements')
                dup = []
                for w in kept:
                    tw = tuple(ex.iterate(w)) if isinstance(w, (tuple, list, VList)) else (w,)
                    if len(tw) == len(tv):
                        dup.append(z3.And([to_real(exact(a)) == to_real(exact(c)) for a, c in zip(tw, tv)]) if tv else z3.BoolVal(True))
                if dup and ex.ctx.decide(z3.Or(dup)):
                    continue
                kept.append(v)
            return VList(kept, 'set')
        def _type(x):
            x = exact(x)
            tbl = [(bool, 'bool'), (int, 'int'), (Fraction, 'float'), (float, 'float'), (str, 'str'), (tuple, 'tuple'), (VDict, 'dict')]
            if isinstance(x, VList):
                return out['list'] if x.kind == 'list' else Tm('type:ndarray')
            for t, n_ in tbl:
                if isinstance(x, t):
                    return out[n_]
            if x is None:
                return Tm('type:NoneType')
            if isinstance(x, z3.ExprRef):
                return out['bool'] if z3.is_bool(x) else (out['int'] if z3.is_int(x) else out['float'])
            return Tm('type-of', x)
        b = dict(type=_type, slice=lambda *a: slice(*[exact(x) for x in a]), set=_set, len=_len, range=_range, abs=_abs, min=_min, max=_max, sum=_sum, list=_list, tuple=_tuple,
                 dict=_dict, zip=_zip, enumerate=_enumerate, float=_float, int=_int, bool=_bool,
                 isinstance=_isinstance, hasattr=_hasattr, getattr=_getattr, print=_print, sorted=_sorted,
                 reversed=_reversed, str=_str, map=_map, callable=_callable, any=_any, all=_all, round=_round)
        out = {k: PyFn(v, k) for k, v in b.items()}
        for n in ('ValueError', 'TypeError', 'AttributeError', 'KeyError', 'IndexError', 'Exception',
                  'ZeroDivisionError', 'NameError', 'RuntimeError', 'IOError', 'OSError', 'StopIteration',
                  'AssertionError', 'NotImplementedError', 'FloatingPointError', 'ImportError'):
            out[n] = Tm('exc-class:' + n)
        out['True'], out['False'], out['None'] = True, False, None
        return out


def _inf_sign(x):
    if isinstance(x, Tm) and x.op == 'float:inf':
        return 1
    if isinstance(x, Tm) and x.op == 'float:-inf':
        return -1
    if isinstance(x, float) and x in (float('inf'), float('-inf')):
        return 1 if x > 0 else -1
    return 0


def is_scalar(x):
    return isinstance(x, (int, float, Fraction, bool)) or (isinstance(x, z3.ExprRef))


class Env:
    def __init__(self, parent, mod):
        self.parent, self.mod = parent, mod
        self.vars = {}
        self.globals_declared = set()
        self.nonlocals = set()
        self.locals_declared = None   # set of names assigned somewhere in the function body

    def get(self, name, ex, mod, node=None):
        e = self
        first = True
        while e is not None:
            if name in e.vars:
                return e.vars[name]
            if first and e.locals_declared is not None and name in e.locals_declared \
                    and name not in e.globals_declared and name not in e.nonlocals:
                raise PyRaise('UnboundLocalError', name, node)
            first = False
            e = e.parent
        try:
            return ex.module_global(self.mod, name, node)
        except KeyError:
            pass
        if name in ex.builtins:
            return ex.builtins[name]
        raise PyRaise('NameError', name, node)

    def set(self, name, v, ex):
        if name in self.globals_declared:
            ex.module_overrides[(self.mod.name, name)] = v
            ex.ctx.log.append(('global-write', self.mod.name, name, v))
            return
        if name in self.nonlocals:
            e = self.parent
            while e is not None:
                if name in e.vars:
                    e.vars[name] = v
                    return
                e = e.parent
        self.vars[name] = v


def _assigned_names(fnode):
    """Names bound anywhere in the function body (Python's local-variable rule), nested defs excluded."""
    if isinstance(fnode, ast.Lambda):
        return set()
    names = set()

    class V(ast.NodeVisitor):
        def visit_FunctionDef(self, n):
            names.add(n.name)

        def visit_Lambda(self, n):
            pass

        def visit_ClassDef(self, n):
            names.add(n.name)

        def visit_Name(self, n):
            if isinstance(n.ctx, (ast.Store, ast.Del)):
                names.add(n.id)

        def visit_ListComp(self, n):
            for g in n.generators:
                self.visit(g.iter)

        visit_GeneratorExp = visit_DictComp = visit_SetComp = visit_ListComp

        def visit_Import(self, n):
            for a in n.names:
                names.add(a.asname or a.name.split('.')[0])

        def visit_ImportFrom(self, n):
            for a in n.names:
                names.add(a.asname or a.name)

        def visit_ExceptHandler(self, n):
            if n.name:
                names.add(n.name)
            self.generic_visit(n)
    v = V()
    for st in fnode.body:
        v.visit(st)
    return names


def _load(t):
    import copy
    t2 = copy.deepcopy(t)
    for n in ast.walk(t2):
        if hasattr(n, 'ctx'):
            n.ctx = ast.Load()
    return t2


def _dotted(e):
    if isinstance(e, ast.Name):
        return e.id
    if isinstance(e, ast.Attribute):
        b = _dotted(e.value)
        return b + '.' + e.attr if b else None
    return None


# ---------------------------------------------------------------- term equality (program algebra)
def term_eq(a, b, goals, path='', fresh=None, tm_hook=None):
    """Structural equality of two values modulo scalar arithmetic.  Scalar leaf equalities are appended
    to `goals` as (z3 Bool, where).  Returns None if structurally compatible, else a mismatch string."""
    a, b = exact(a), exact(b)
    _callable = (Closure, FuncRef, PyFn)
    if fresh is not None and (isinstance(a, _callable) and (is_scalar(b) or isinstance(b, _callable)) or
                              isinstance(b, _callable) and is_scalar(a)) and a is not b:
        return fresh(a, b, goals, path)
    if is_scalar(a) and is_scalar(b):
        if is_num(a) and is_num(b) or isinstance(a, bool) and isinstance(b, bool):
            return None if a == b else '%s: %s != %s' % (path, a, b)
        az, bz = to_z3(a), to_z3(b)
        if z3.is_bool(az) != z3.is_bool(bz):
            az, bz = to_real(az), to_real(bz)
        elif z3.is_int(az) != z3.is_int(bz):
            az, bz = to_real(az), to_real(bz)
        goals.append((az == bz, path))
        return None
    if isinstance(a, (tuple, VList)) and isinstance(b, (tuple, VList)):
        ai = a.items if isinstance(a, VList) else a
        bi = b.items if isinstance(b, VList) else b
        if len(ai) != len(bi):
            return '%s: length %d != %d' % (path, len(ai), len(bi))
        for i, (x, y) in enumerate(zip(ai, bi)):
            r = term_eq(x, y, goals, '%s[%d]' % (path, i), fresh, tm_hook)
            if r:
                return r
        return None
    if isinstance(a, VDict) and isinstance(b, VDict):
        if set(a.d) != set(b.d):
            return '%s: dict keys differ' % path
        for k in a.d:
            r = term_eq(a.d[k], b.d[k], goals, '%s[%r]' % (path, k), fresh, tm_hook)
            if r:
                return r
        return None
    if isinstance(a, Tm) and isinstance(b, Tm):
        if a is b:
            return None
        if tm_hook is not None:
            r = tm_hook(a, b, goals, path, fresh)
            if r is not NotImplemented:
                return r
        if a.op != b.op or len(a.args) != len(b.args):
            return '%s: %s vs %s' % (path, _short(a), _short(b))
        for i, (x, y) in enumerate(zip(a.args, b.args)):
            r = term_eq(x, y, goals, '%s/%s.%d' % (path, a.op.replace('call:', ''), i), fresh, tm_hook)
            if r:
                return r
        ka = {k: v for k, v in a.attrs.items() if not k.startswith('__')}
        kb = {k: v for k, v in b.attrs.items() if not k.startswith('__')}
        if set(ka) != set(kb):
            return '%s: attributes set differ %s vs %s' % (path, sorted(ka), sorted(kb))
        for k in ka:
            r = term_eq(ka[k], kb[k], goals, '%s.%s' % (path, k), fresh, tm_hook)
            if r:
                return r
        return None
    if isinstance(a, (Closure, FuncRef, PyFn)) and isinstance(b, (Closure, FuncRef, PyFn)):
        if a is b:
            return None
        if isinstance(a, FuncRef) and isinstance(b, FuncRef):
            return None if a.fullname == b.fullname else '%s: %s vs %s' % (path, a, b)
        if fresh is None:
            return '%s: closures compared without an application context' % path
        return fresh(a, b, goals, path)
    if a is None and b is None:
        return None
    if isinstance(a, str) and isinstance(b, str):
        return None if a == b else '%s: %r != %r' % (path, a, b)
    if isinstance(a, ModuleRef) and isinstance(b, ModuleRef) and a.name == b.name:
        return None
    if isinstance(a, slice) and isinstance(b, slice):
        return term_eq((a.start, a.stop, a.step), (b.start, b.stop, b.step), goals, path + ':slice', fresh, tm_hook)
    return '%s: %s vs %s' % (path, _short(a), _short(b))


def _short(v):
    s = vrepr(v)
    return s if len(s) < 160 else s[:157] + '...'
