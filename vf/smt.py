"""Discharge of verification conditions: z3 (python API, 5.x) first, then cvc5 / z3 4.8 CLI on the
SMT-LIB export.  `unknown` and time-outs are *undecided*, never a violation."""
import os, time, subprocess, tempfile, shutil
import z3

Z3_TIMEOUT_MS = int(os.environ.get('VERIF_Z3_MS', '20000'))
CVC5 = shutil.which('cvc5') or '/usr/bin/cvc5'
Z3_OLD = '/usr/bin/z3'


def _model_dict(m, limit=60):
    out = {}
    for d in m.decls()[:limit]:
        try:
            v = m[d]
            out[d.name()] = str(v) if not z3.is_func_decl(v) else str(v)
        except Exception:
            pass
    return out


def _cli(smt2, timeout_s):
    """Try cvc5 then the old z3 on the same text.  Returns ('unsat'|'sat'|'unknown', backend, seconds)."""
    res = ('unknown', '', 0.0)
    for backend, cmd in (('cvc5', [CVC5, '--lang', 'smt2', '--tlimit=%d' % (timeout_s * 1000), '--nl-ext-tplanes']),
                         ('z3-4.8', [Z3_OLD, '-smt2', '-T:%d' % timeout_s, '-in'])):
        if not os.path.exists(cmd[0]):
            continue
        t0 = time.time()
        try:
            text = smt2
            if backend == 'cvc5':
                text = '(set-logic ALL)\n' + smt2
            p = subprocess.run(cmd + ([] if backend != 'cvc5' else ['-']) if False else cmd, input=text,
                               capture_output=True, text=True, timeout=timeout_s + 5)
            out = p.stdout.strip().split('\n')[0] if p.stdout.strip() else ''
        except subprocess.TimeoutExpired:
            out = 'timeout'
        dt = time.time() - t0
        if out in ('unsat', 'sat'):
            return (out, backend, dt)
        res = ('unknown', backend, dt)
    return res


def _solve_guarded(s, timeout_ms, want_model=True):
    """s.check() with a limit that holds.  z3's own timeout is cooperative and some of its arithmetic code (seen: nla::monomial_bounds taking integer
    roots of huge numbers) does not poll it, and a python signal handler cannot interrupt C code; so the call runs in a forked child that the parent
    kills HARD_EXTRA_S seconds after the solver's own limit.  Returns ('sat'|'unsat'|'unknown', model dict or None, reason).
    VERIF_SMT_INPROC=1 switches the guard off."""
    if os.environ.get('VERIF_SMT_INPROC') == '1':
        r = s.check()
        if r == z3.sat:
            return 'sat', (_model_dict(s.model()) if want_model else None), 'sat'
        return ('unsat', None, 'unsat') if r == z3.unsat else ('unknown', None, s.reason_unknown())
    import json, select, signal
    rfd, wfd = os.pipe()
    pid = os.fork()
    if pid == 0:
        try:
            os.close(rfd)
            r = s.check()
            if r == z3.sat:
                out = dict(st='sat', model=_model_dict(s.model()) if want_model else None, reason='sat')
            elif r == z3.unsat:
                out = dict(st='unsat', model=None, reason='unsat')
            else:
                out = dict(st='unknown', model=None, reason=s.reason_unknown())
            data = json.dumps(out).encode()
            while data:
                n = os.write(wfd, data)
                data = data[n:]
        except BaseException:
            pass
        finally:
            os._exit(0)
    os.close(wfd)
    deadline = time.time() + timeout_ms / 1000.0 + HARD_EXTRA_S
    chunks = []
    try:
        while True:
            left = deadline - time.time()
            if left <= 0:
                try:
                    os.kill(pid, signal.SIGKILL)
                except OSError:
                    pass
                return 'unknown', None, 'solver call killed %ds after its own limit of %d ms' % (HARD_EXTRA_S, timeout_ms)
            ready, _, _ = select.select([rfd], [], [], min(left, 1.0))
            if ready:
                b = os.read(rfd, 1 << 16)
                if not b:
                    break
                chunks.append(b)
    finally:
        os.close(rfd)
        try:
            os.waitpid(pid, 0)
        except OSError:
            pass
    try:
        out = json.loads(b''.join(chunks).decode())
        return out['st'], out.get('model'), out.get('reason', '')
    except Exception:
        return 'unknown', None, 'solver child ended without an answer'


HARD_EXTRA_S = 5


def check(hyps, goal, timeout_ms=None, want_model=True, tactic=None, use_cli=True):
    """Validity of (/\\ hyps) => goal.  Returns dict(status=proved|refuted|undecided, backend, seconds, model, reason)."""
    timeout_ms = timeout_ms or Z3_TIMEOUT_MS
    s = z3.Solver() if tactic is None else z3.Tactic(tactic).solver()
    s.set('timeout', timeout_ms)
    for h in hyps:
        s.add(h)
    s.add(z3.Not(goal))
    t0 = time.time()
    if use_cli and os.environ.get('VERIF_SOLVER_ORDER') == 'cli-first':
        # retry mode (vf/core.run_tasks): an in-process call that never returns cannot be interrupted, an external process can
        st, backend, dt2 = _cli(s.to_smt2(), max(5, timeout_ms // 1000))
        if st == 'unsat':
            return dict(status='proved', backend=backend, seconds=dt2, model=None, reason='unsat')
        use_cli = False      # sat / unknown: the in-process solver is asked for the verdict and the model
    st_, mdl, reason = _solve_guarded(s, timeout_ms, want_model)
    dt = time.time() - t0
    if st_ == 'unsat':
        return dict(status='proved', backend='z3', seconds=dt, model=None, reason='unsat')
    if st_ == 'sat':
        return dict(status='refuted', backend='z3', seconds=dt, model=mdl if want_model else None, reason='sat')
    if use_cli:
        smt2 = s.to_smt2()
        st, backend, dt2 = _cli(smt2, max(5, timeout_ms // 1000))
        if st == 'unsat':
            return dict(status='proved', backend=backend, seconds=dt + dt2, model=None, reason='unsat')
        if st == 'sat':
            # a CLI 'sat' gives no model we can replay; treat as refuted-without-model
            return dict(status='refuted', backend=backend, seconds=dt + dt2, model=None, reason='sat (cli)')
        dt += dt2
    return dict(status='undecided', backend='z3', seconds=dt, model=None, reason='unknown: %s' % reason)


def sat(constraints, timeout_ms=5000):
    """Cover query: is the conjunction satisfiable?  returns True/False/None"""
    s = z3.Solver()
    s.set('timeout', timeout_ms)
    for c in constraints:
        s.add(c)
    r = s.check()
    if r == z3.sat:
        return True
    if r == z3.unsat:
        return False
    return None
