"""Overlay of /repo's working tree: the live Python sources (symlinks) + extension modules compiled
from the *current* C sources, so a change to a .c kernel is what the bounded drivers and replays run.

The compiled objects are cached under /verif/.cache keyed by the hash of every C input; the symlink
farm itself is rebuilt for every run in a temporary directory and removed at exit."""
import os, sys, glob, subprocess, tempfile, shutil, atexit, sysconfig
from .common import REPO, CACHE_DIR, sha

EXT_SUFFIX = sysconfig.get_config_var('EXT_SUFFIX')

EXTS = {
    'integration_c': dict(pkgdir='dadi', sources=['dadi/integration_c.c', 'dadi/integration1D.c',
                          'dadi/integration2D.c', 'dadi/integration3D.c', 'dadi/integration4D.c',
                          'dadi/integration5D.c', 'dadi/integration_shared.c', 'dadi/tridiag.c'],
                          headers=['dadi/integration_cython.h', 'dadi/integration_shared.h', 'dadi/tridiag.h']),
    'tridiag_cython': dict(pkgdir='dadi', sources=['dadi/tridiag_cython.c', 'dadi/tridiag.c'],
                           headers=['dadi/tridiag.h']),
    'PDFs_cython': dict(pkgdir='dadi/DFE', sources=['dadi/DFE/PDFs_cython.c'],
                        headers=['dadi/DFE/PDFs.c']),
}
# plain C library of the kernels (no Python) for ctypes replay / bounded kernel checks
KERNEL_SOURCES = ['dadi/integration1D.c', 'dadi/integration2D.c', 'dadi/integration3D.c',
                  'dadi/integration4D.c', 'dadi/integration5D.c', 'dadi/integration_shared.c',
                  'dadi/tridiag.c']


def _inc():
    import numpy
    return ['-I' + sysconfig.get_paths()['include'], '-I' + numpy.get_include(),
            '-I' + os.path.join(REPO, 'dadi'), '-I' + os.path.join(REPO, 'dadi/DFE')]


def _hash(files):
    parts = []
    for f in files:
        p = os.path.join(REPO, f)
        if os.path.exists(p):
            with open(p, 'rb') as fh:
                parts.append(f.encode() + b'\0' + fh.read())
    return sha(*parts)[:20]


def _build(name, sources, headers, extra, out_name):
    h = _hash(sources + headers)
    d = os.path.join(CACHE_DIR, 'ext', name + '-' + h)
    target = os.path.join(d, out_name)
    if os.path.exists(target):
        return target
    os.makedirs(d, exist_ok=True)
    tmp = target + '.%d.tmp' % os.getpid()
    cmd = ['gcc', '-O2', '-shared', '-fPIC', '-w'] + extra + \
          [os.path.join(REPO, s) for s in sources] + ['-o', tmp, '-lm']
    r = subprocess.run(cmd, capture_output=True, text=True)
    if r.returncode != 0:
        raise RuntimeError('build of %s failed:\n%s' % (name, r.stderr[-4000:]))
    os.replace(tmp, target)
    return target


def build_ext(name):
    e = EXTS[name]
    return _build(name, e['sources'], e['headers'], _inc(), name + EXT_SUFFIX)


def build_kernel_lib():
    return _build('kernels', KERNEL_SOURCES, ['dadi/integration_cython.h', 'dadi/integration_shared.h',
                  'dadi/tridiag.h'], ['-I' + os.path.join(REPO, 'dadi')], 'libdadikernels.so')


def build_pdfs_lib():
    return _build('pdfs', ['dadi/DFE/PDFs.c'], [],
                  ['-I' + os.path.join(REPO, 'dadi/DFE')], 'libdadipdfs.so')


_overlay = None


def make_overlay():
    """Return a directory to put first on sys.path; `import dadi` then gives the working tree with
    freshly compiled extensions."""
    global _overlay
    if _overlay:
        return _overlay
    root = tempfile.mkdtemp(prefix='dadi_overlay_')
    atexit.register(shutil.rmtree, root, ignore_errors=True)
    built = {n: build_ext(n) for n in EXTS}
    src = os.path.join(REPO, 'dadi')

    def farm(sdir, ddir):
        os.makedirs(ddir)
        for ent in os.listdir(sdir):
            s = os.path.join(sdir, ent)
            if ent == '__pycache__' or ent.endswith('.so') or ent.endswith('.pyc'):
                continue
            if os.path.isdir(s) and ent in ('DFE',):
                farm(s, os.path.join(ddir, ent))
            else:
                os.symlink(s, os.path.join(ddir, ent))
    farm(src, os.path.join(root, 'dadi'))
    # other compiled subpackages (Triallele, TwoLocus) are symlinked whole, with their stock .so
    for n, e in EXTS.items():
        shutil.copy(built[n], os.path.join(root, e['pkgdir'], n + EXT_SUFFIX))
    # tests directory is handy for the bounded drivers that need example data
    _overlay = root
    return root


def activate():
    """Make `import dadi` in this process resolve to the overlay."""
    root = make_overlay()
    if 'dadi' in sys.modules:
        raise RuntimeError('dadi imported before overlay activation')
    sys.path.insert(0, root)
    os.environ['DADI_OVERLAY'] = root
    return root
