"""Helper for E4 bounded drivers (run-time contracts on the real code over a stated bounded domain).

Usage inside a task function (runs in a worker process whose sys.path starts with the overlay, so
`import dadi` gives /repo's working tree with extension modules compiled from the current C sources):

    def bounded_something(tier):
        d = Driver('C08', 'projection.exhaustive', bound='all 1<=m<=n<=40, all hits; exact Fraction oracle')
        for case in ...:
            ok = <contract predicate evaluated on the real function's result>
            d.case(key=(n, m, hits), ok=ok, info=dict(n=n, m=m, hits=hits, got=..., want=...), nontrivial=True)
        return d.results()

Rules: every random choice comes from d.rng (seeded by VERIF_SEED); a failing case must carry the
concrete inputs in `info` (JSON-serialisable) so it can be replayed; `fail_key` groups failures of one
defect (used to match known findings) - give it a stable, input-class-specific name.
"""
import time, random, traceback, zlib
from .core import R
from . import common


class Driver:
    def __init__(self, pid, name, bound, max_fail_report=5):
        self.pid, self.name, self.bound = pid, name, bound
        self.rng = random.Random(common.seed() * 7919 + zlib.crc32(('%s/%s' % (pid, name)).encode()) % 100003)
        self.t0 = time.time()
        self.evals = 0
        self.keys = set()
        self.samples = []
        self.fails = {}       # fail_key -> list of info
        self.max_fail_report = max_fail_report

    @property
    def oid(self):
        return '%s/bounded/%s' % (self.pid, self.name)

    def nprng(self):
        import numpy
        return numpy.random.RandomState(self.rng.randrange(2 ** 31))

    def case(self, key, ok, info=None, nontrivial=True, fail_key=None):
        self.evals += 1
        if nontrivial:
            try:
                self.keys.add(key if isinstance(key, (str, int, tuple)) else repr(key))
            except TypeError:
                self.keys.add(repr(key))
        if len(self.samples) < 3 and info is not None and ok:
            self.samples.append(_js(info))
        if not ok:
            fk = fail_key or 'case'
            self.fails.setdefault(fk, [])
            if len(self.fails[fk]) < self.max_fail_report:
                self.fails[fk].append(_js(info))
        return ok

    def check(self, key, fn, info=None, fail_key=None, nontrivial=True):
        """Run fn() -> (ok, extra_info); an exception in fn is a failing case (with the traceback)."""
        try:
            ok, extra = fn()
        except Exception:
            ok, extra = False, dict(exception=traceback.format_exc()[-1200:])
        i = dict(info or {})
        if extra:
            i.update(extra)
        return self.case(key, ok, i, nontrivial, fail_key)

    def results(self):
        dt = time.time() - self.t0
        out = []
        if not self.fails:
            out.append(R(self.oid, 'bounded', 'held', backend='native', seconds=dt, detail='all %d cases held' % self.evals,
                         evals=self.evals, nontrivial=len(self.keys), samples=self.samples, bound=self.bound))
            return out
        first = True
        for fk, infos in self.fails.items():
            # finding key: property + failure class (independent of the task shard that happened to hit it)
            out.append(R('%s/%s' % (self.oid, fk), 'bounded', 'failed', backend='native', seconds=dt,
                         detail='%d failing case(s) recorded for %s; first: %s' % (len(infos), fk, str(infos[0])[:1500]),
                         witness=dict(replayed=True, cases=infos), evals=self.evals if first else 0,
                         nontrivial=len(self.keys) if first else 0, samples=self.samples if first else [],
                         bound=self.bound, finding_key='%s/bounded/%s' % (self.pid, fk)))
            first = False
        return out


def _js(o):
    import json
    try:
        json.dumps(o, default=common._default)
        return json.loads(json.dumps(o, default=common._default))
    except Exception:
        return repr(o)
