"""Developer runner for one props module's task list:  python -m vf.runb props.bounded_C08 [quick|thorough] [filter]
Builds the overlay of /repo's working tree, runs module.tasks(tier) in the process pool, prints every result."""
import sys, time, importlib, json
from . import core, overlay


def main():
    modname = sys.argv[1]
    tier = sys.argv[2] if len(sys.argv) > 2 else 'quick'
    flt = sys.argv[3] if len(sys.argv) > 3 else ''
    mod = importlib.import_module(modname)
    ov = overlay.make_overlay()
    tasks = [t for t in mod.tasks(tier) if flt in t.name]
    t0 = time.time()
    res = core.run_tasks(tasks, overlay=ov)
    bad = 0
    for r in res:
        print('%-9s %-60s evals=%-6d nontriv=%-6d %.1fs %s' % (r['verdict'], r['id'], r['evals'], r['nontrivial'], r['seconds'],
              '' if r['verdict'] in ('held', 'proved') else r['detail'][:3000]))
        if r['verdict'] not in ('held', 'proved'):
            bad += 1
    print('wall %.1fs, %d results, %d not held' % (time.time() - t0, len(res), bad))
    sys.exit(1 if bad else 0)


if __name__ == '__main__':
    main()
