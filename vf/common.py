"""Shared paths, environment, timing for the /verif machinery."""
import os, sys, time, json, hashlib

VERIF = os.path.dirname(os.path.dirname(os.path.abspath(__file__)))
REPO = os.environ.get('DADI_REPO', '/repo')
EVIDENCE_DIR = os.path.join(VERIF, 'evidence')
OUT_DIR = os.path.join(VERIF, 'out')
REPLAY_DIR = os.path.join(OUT_DIR, 'replay')
CACHE_DIR = os.path.join(VERIF, '.cache')
KNOWN_FINDINGS = os.path.join(VERIF, 'known_findings.json')
SCHEMA_EVIDENCE = '/root/.vp/EVIDENCE.schema.json'
NCPU = int(os.environ.get('VERIF_JOBS', '16'))


def seed():
    try:
        return int(os.environ.get('VERIF_SEED', '20261003'))
    except ValueError:
        return 20261003


def repo_file(rel):
    return os.path.join(REPO, rel)


def read_repo(rel):
    with open(repo_file(rel), encoding='utf-8') as f:
        return f.read()


def sha(*parts):
    h = hashlib.sha256()
    for p in parts:
        if isinstance(p, str):
            p = p.encode()
        h.update(p)
    return h.hexdigest()


class Timer:
    def __enter__(self):
        self.t0 = time.time()
        return self

    def __exit__(self, *a):
        self.s = time.time() - self.t0


def jdump(obj, path):
    os.makedirs(os.path.dirname(path), exist_ok=True)
    tmp = path + '.tmp%d' % os.getpid()
    with open(tmp, 'w') as f:
        json.dump(obj, f, indent=1, default=_default)
    os.replace(tmp, path)


def _default(o):
    try:
        import numpy
        if isinstance(o, numpy.generic):
            return o.item()
        if isinstance(o, numpy.ndarray):
            return o.tolist()
    except Exception:
        pass
    if isinstance(o, (set, frozenset, tuple)):
        return list(o)
    return repr(o)
