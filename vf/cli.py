"""./check <property-id>|all|selftest [--tier quick|thorough] [--replay <path>]"""
import sys, os, time, json, importlib, argparse
os.environ.setdefault('PYTHONDONTWRITEBYTECODE', '1')
sys.dont_write_bytecode = True
from . import common, core

PROPS = ['C%02d' % i for i in range(1, 21)]


def run_property(pid, tier):
    t0 = time.time()
    mod = importlib.import_module('props.' + pid)
    overlay = None
    if getattr(mod, 'NEEDS_OVERLAY', True):
        from . import overlay as ov
        try:
            overlay = ov.make_overlay()
        except Exception as e:
            print('CHECKER-FAULT property=%s overlay build failed: %s' % (pid, str(e)[-2000:]))
            # a tree whose C sources no longer compile cannot be checked
            return 3
    tasks = mod.tasks(tier)
    results = core.run_tasks(tasks, overlay=overlay)
    meta = dict(mod.META)
    return core.summarise(pid, results, meta, tier, t0)


def replay(pid, path):
    with open(path) as f:
        rec = json.load(f)
    mod = importlib.import_module('props.' + pid)
    from . import overlay as ov
    root = ov.activate()
    fn = getattr(mod, 'replay', None)
    if fn is None:
        print(json.dumps(rec, indent=1)[:4000])
        print('no native replay implemented for this property; record printed above')
        return 0
    return fn(rec)


def main(argv=None):
    ap = argparse.ArgumentParser()
    ap.add_argument('what')
    ap.add_argument('--tier', default=os.environ.get('VERIF_TIER', 'quick'), choices=['quick', 'thorough'])
    ap.add_argument('--replay', default=None)
    a = ap.parse_args(argv)
    if a.replay:
        sys.exit(replay(a.what, a.replay))
    if a.what == 'selftest':
        from . import selftest
        sys.exit(selftest.main(a.tier))
    if a.what == 'all':
        rc = 0
        for p in PROPS:
            try:
                r = run_property(p, a.tier)
            except ModuleNotFoundError as e:
                print('SKIP %s (%s)' % (p, e))
                continue
            rc = max(rc, r)
        sys.exit(rc)
    sys.exit(run_property(a.what, a.tier))


if __name__ == '__main__':
    main()
