"""E1: C kernels -> verification conditions.

Front end: `clang -fsyntax-only -Xclang -ast-dump=json` on the real .c file on every run (cached by
content hash).  Accepted subset (anything else raises CUnsupported => obligation undecided):
FunctionDecl, ParmVarDecl, CompoundStmt, DeclStmt/VarDecl, ForStmt, IfStmt, ReturnStmt, BinaryOperator,
CompoundAssignOperator, UnaryOperator, ArraySubscriptExpr, CallExpr, DeclRefExpr, ImplicitCastExpr,
ParenExpr, IntegerLiteral, FloatingLiteral, ConditionalOperator (scalar), UnaryExprOrTypeTraitExpr (sizeof inside malloc).

Semantics assumed: double = mathematical real, int = mathematical integer; distinct pointer
parameters do not alias; malloc returns fresh storage disjoint from everything, never fails; free is a
no-op; exp/log/sqrt/sin/cos are uninterpreted, pow(e,2) = e*e.

Arrays are *functions*: an Arr holds a Python closure from an index term (or a digit tuple for a
row-major N-d view, justified by LEMMA.rowmajor) to a z3 Real term.  A store makes a new closure.
Every subscript emits an in-bounds obligation (per digit for N-d views).
"""
import os, json, subprocess, copy, itertools
from fractions import Fraction
import z3
from .common import REPO, CACHE_DIR, sha
from . import polyring

RealS, IntS = z3.RealSort(), z3.IntSort()


class CUnsupported(Exception):
    pass


# ---------------------------------------------------------------- front end
_cfile_cache = {}


def load_c(relpath):
    """{function name: FunctionDecl json} for the functions *defined* in the file."""
    if relpath in _cfile_cache:
        return _cfile_cache[relpath]
    path = os.path.join(REPO, relpath)
    with open(path, 'rb') as f:
        src = f.read()
    incs = b''
    d = os.path.dirname(path)
    for h in sorted(os.listdir(d)):
        if h.endswith('.h'):
            with open(os.path.join(d, h), 'rb') as f:
                incs += f.read()
    key = sha(src, incs)[:24]
    cdir = os.path.join(CACHE_DIR, 'cast')
    os.makedirs(cdir, exist_ok=True)
    cj = os.path.join(cdir, os.path.basename(relpath) + '.' + key + '.json')
    if not os.path.exists(cj):
        r = subprocess.run(['clang', '-fsyntax-only', '-Xclang', '-ast-dump=json', '-I', d, path],
                           capture_output=True, text=True)
        if r.returncode != 0:
            raise CUnsupported('clang failed on %s: %s' % (relpath, r.stderr[-500:]))
        full = json.loads(r.stdout)
        funcs = {}
        for n in full.get('inner', []):
            if n.get('kind') == 'FunctionDecl' and any(c.get('kind') == 'CompoundStmt' for c in n.get('inner', [])):
                loc = n.get('loc', {})
                if 'includedFrom' in loc or ('spellingLoc' in loc and 'includedFrom' in loc['spellingLoc']):
                    continue
                if n['name'].startswith('__'):
                    continue
                funcs[n['name']] = _strip(n)
        glob = [_strip(n) for n in full.get('inner', []) if n.get('kind') == 'VarDecl' and not n.get('name', '').startswith('__')
                and 'includedFrom' not in n.get('loc', {})]
        tmp = cj + '.%d.tmp' % os.getpid()
        with open(tmp, 'w') as f:
            json.dump(dict(funcs=funcs, globals=glob), f)
        os.replace(tmp, cj)
    with open(cj) as f:
        d = json.load(f)
    _cfile_cache[relpath] = d
    return d


def _strip(n):
    keep = ('kind', 'name', 'opcode', 'value', 'type', 'referencedDecl', 'castKind', 'inner', 'isPostfix', 'init', 'storageClass')
    if not isinstance(n, dict):
        return n
    out = {}
    for k in keep:
        if k in n:
            v = n[k]
            if k == 'inner':
                v = [_strip(c) for c in v]
            elif k == 'type':
                v = {'qualType': v.get('qualType', '')}
            elif k == 'referencedDecl':
                v = {'name': v.get('name'), 'kind': v.get('kind'), 'type': {'qualType': v.get('type', {}).get('qualType', '')}}
            out[k] = v
    if 'range' in n and 'begin' in n['range']:
        b = n['range']['begin']
        line = b.get('line') or b.get('spellingLoc', {}).get('line') or b.get('expansionLoc', {}).get('line')
        if line:
            out['line'] = line
    return out


def func_params(fd):
    return [(c['name'], c['type']['qualType']) for c in fd.get('inner', []) if c.get('kind') == 'ParmVarDecl']


def func_body(fd):
    return [c for c in fd['inner'] if c.get('kind') == 'CompoundStmt'][0]


# ---------------------------------------------------------------- values
class Arr:
    _n = 0

    def __init__(self, name, length=None, shape=None, fn=None):
        Arr._n += 1
        self.uid = Arr._n
        self.name = name
        self.length = length          # z3 Int expr (linear view) or None (unknown)
        self.shape = shape            # tuple of z3 Int exprs (row-major digit view) or None
        if fn is None:
            if shape:
                f = z3.Function('%s!%d' % (name, self.uid), *([IntS] * len(shape) + [RealS]))
                fn = lambda idx, _f=f: _f(*idx)
            else:
                f = z3.Function('%s!%d' % (name, self.uid), IntS, RealS)
                fn = lambda k, _f=f: _f(k)
        self.fn = fn
        self.writes = []              # (index, pc) log

    def clone(self):
        a = copy.copy(self)
        a.writes = list(self.writes)
        return a


class Ptr:
    def __init__(self, aid, off=None):
        self.aid, self.off = aid, (z3.IntVal(0) if off is None else off)


def ite(c, a, b):
    c = z3.simplify(c) if isinstance(c, z3.ExprRef) else z3.BoolVal(bool(c))
    if z3.is_true(c):
        return a
    if z3.is_false(c):
        return b
    return z3.If(c, a, b)


def toreal(v):
    if isinstance(v, z3.ExprRef):
        if z3.is_int(v):
            return z3.ToReal(v)
        if z3.is_bool(v):
            return z3.If(v, z3.RealVal(1), z3.RealVal(0))
        return v
    return z3.RealVal(v)


def tobool(v):
    if z3.is_bool(v):
        return v
    return v != 0


_ufs = {}


def uf(name, n=1):
    if (name, n) not in _ufs:
        _ufs[(name, n)] = z3.Function(name, *([RealS] * (n + 1)))
    return _ufs[(name, n)]


# ---------------------------------------------------------------- polynomial view of index terms
def int_poly(e):
    """z3 Int term built from + - * consts vars -> polyring polynomial over atom *names*"""
    cv = polyring.Converter()
    r = _ip(e, cv)
    names = {v: k for k, v in cv.atoms.items()}
    return r, names, cv


def _ip(e, cv):
    if z3.is_int_value(e):
        return polyring.p_const(e.as_long())
    k = e.decl().kind()
    ch = e.children()
    if k == z3.Z3_OP_ADD:
        r = _ip(ch[0], cv)
        for c in ch[1:]:
            r = polyring.p_add(r, _ip(c, cv))
        return r
    if k == z3.Z3_OP_SUB:
        r = _ip(ch[0], cv)
        for c in ch[1:]:
            r = polyring.p_add(r, _ip(c, cv), -1)
        return r
    if k == z3.Z3_OP_UMINUS:
        return polyring.p_mul(polyring.p_const(-1), _ip(ch[0], cv))
    if k == z3.Z3_OP_MUL:
        r = _ip(ch[0], cv)
        for c in ch[1:]:
            r = polyring.p_mul(r, _ip(c, cv))
        return r
    if k == z3.Z3_OP_UNINTERPRETED and e.num_args() == 0:
        key = e.sexpr()
        if key not in cv.atoms:
            cv.atoms[key] = len(cv.atoms)
            cv.__dict__.setdefault('exprs', {})[cv.atoms[key]] = e
        return polyring.p_var(cv.atoms[key])
    if k == z3.Z3_OP_ITE:
        key = e.sexpr()
        if key not in cv.atoms:
            cv.atoms[key] = len(cv.atoms)
            cv.__dict__.setdefault('exprs', {})[cv.atoms[key]] = e
        return polyring.p_var(cv.atoms[key])
    raise CUnsupported('index term %s' % e)


def poly_to_z3(p, cv):
    exprs = cv.__dict__.get('exprs', {})
    tot = None
    for mono, c in sorted(p.items()):
        if c.denominator != 1:
            raise CUnsupported('fractional index')
        t = z3.IntVal(int(c))
        first = True
        for a, e in mono:
            for _ in range(e):
                t = exprs[a] * t if not (first and int(c) == 1) else exprs[a]
                first = False
        if int(c) == 1 and mono:
            pass
        tot = t if tot is None else tot + t
    return z3.IntVal(0) if tot is None else tot


def digits(lin, shape):
    """Decompose a linear row-major index polynomial into one digit term per axis (greedy by stride).
    Returns list of z3 Int terms; raises CUnsupported if the index is not of the form sum d_i*stride_i."""
    p, names, cv = int_poly(lin)
    # stride monomials
    shp = []
    for s in shape:
        sp, _, _ = None, None, None
        q = _ip(s, cv)
        if len(q) != 1 or list(q.values())[0] != 1:
            raise CUnsupported('array extent is not a single variable: %s' % s)
        shp.append(list(q.keys())[0])
    out = []
    rest = dict(p)
    n = len(shape)
    for i in range(n):
        stride = ()
        for m in shp[i + 1:]:
            stride = polyring._mmul(stride, m)
        sd = dict(stride)
        d = {}
        for mono, c in list(rest.items()):
            md = dict(mono)
            if all(md.get(a, 0) >= e for a, e in sd.items()):
                q = dict(md)
                for a, e in sd.items():
                    q[a] -= e
                    if q[a] == 0:
                        del q[a]
                if i < n - 1 or True:
                    d[tuple(sorted(q.items()))] = c
                    del rest[mono]
        out.append(poly_to_z3(d, cv))
    if rest:
        raise CUnsupported('index %s does not match the row-major layout %s' % (lin, shape))
    return out


# ---------------------------------------------------------------- state
class State:
    def __init__(self):
        self.env = {}        # name -> z3 scalar | Ptr
        self.arrs = {}       # aid -> Arr
        self.pc = []
        self.returned = False
        self.retval = None

    def fork(self):
        s = State()
        s.env = dict(self.env)
        s.arrs = {k: a.clone() for k, a in self.arrs.items()}
        s.pc = list(self.pc)
        s.returned, s.retval = self.returned, self.retval
        return s

    def new_arr(self, name, length=None, shape=None, fn=None):
        a = Arr(name, length, shape, fn)
        self.arrs[a.uid] = a
        return Ptr(a.uid)

    def arr(self, name):
        p = self.env[name]
        if not isinstance(p, Ptr):
            raise CUnsupported('%s is not a pointer' % name)
        return self.arrs[p.aid]


class Oblig:
    def __init__(self, kind, hyps, goal, where):
        self.kind, self.hyps, self.goal, self.where = kind, hyps, goal, where


class CExec:
    def __init__(self, files, contracts=None, loop_handler=None):
        """files: list of relpaths whose functions are visible; contracts: name -> callable(ex, st, args)"""
        self.funcs = {}
        for f in files:
            d = load_c(f)
            for n, fd in d['funcs'].items():
                self.funcs[n] = (f, fd)
        self.contracts = contracts or {}
        self.loop_handler = loop_handler      # (ex, st, node, ordinal) -> list[State] | NotImplemented
        self.obligs = []                      # in-bounds obligations
        self.loop_ordinal = 0
        self.globals = {}
        self.trace = []

    # ---- array access
    def _index(self, st, a, lin):
        if a.shape:
            ds = digits(lin, a.shape)
            for d, ext in zip(ds, a.shape):
                self.obligs.append(Oblig('in-bounds', list(st.pc), z3.And(d >= 0, d < ext), '%s digit %s' % (a.name, d)))
            return tuple(ds)
        if a.length is not None:
            self.obligs.append(Oblig('in-bounds', list(st.pc), z3.And(lin >= 0, lin < a.length), '%s[%s]' % (a.name, lin)))
        return lin

    def load(self, st, ptr, idx):
        a = st.arrs[ptr.aid]
        k = self._index(st, a, z3.simplify(ptr.off + idx))
        return a.fn(k)

    def store(self, st, ptr, idx, val):
        a = st.arrs[ptr.aid]
        k = self._index(st, a, z3.simplify(ptr.off + idx))
        old = a.fn
        val = toreal(val)
        if a.shape:
            a.fn = lambda t, _k=k, _v=val, _o=old: ite(z3.And(*[x == y for x, y in zip(t, _k)]), _v, _o(t))
        else:
            a.fn = lambda t, _k=k, _v=val, _o=old: ite(t == _k, _v, _o(t))
        a.writes.append((k, list(st.pc)))

    # ---- expressions
    def ev(self, n, st):
        k = n['kind']
        if k in ('ImplicitCastExpr', 'ParenExpr', 'CStyleCastExpr'):
            v = self.ev(n['inner'][0], st)
            if n.get('castKind') == 'IntegralToFloating':
                return toreal(v)
            return v
        if k == 'IntegerLiteral':
            return z3.IntVal(int(n['value']))
        if k == 'FloatingLiteral':
            return z3.RealVal(Fraction(repr(float(n['value']))))
        if k == 'DeclRefExpr':
            name = n['referencedDecl']['name']
            if name in st.env:
                return st.env[name]
            if n['referencedDecl'].get('kind') == 'FunctionDecl':
                return ('func', name)
            raise CUnsupported('unbound %s' % name)
        if k == 'ArraySubscriptExpr':
            base = self.ev(n['inner'][0], st)
            idx = self.ev(n['inner'][1], st)
            if not isinstance(base, Ptr):
                raise CUnsupported('subscript of non-pointer')
            return self.load(st, base, idx)
        if k == 'UnaryOperator':
            op = n['opcode']
            if op == '&':
                inner = n['inner'][0]
                while inner['kind'] in ('ParenExpr', 'ImplicitCastExpr'):
                    inner = inner['inner'][0]
                if inner['kind'] == 'ArraySubscriptExpr':
                    base = self.ev(inner['inner'][0], st)
                    idx = self.ev(inner['inner'][1], st)
                    return Ptr(base.aid, z3.simplify(base.off + idx))
                raise CUnsupported('& of non-subscript')
            if op == '*':
                raise CUnsupported('dereference')
            v = self.ev(n['inner'][0], st)
            if op == '-':
                return -v
            if op == '+':
                return v
            if op == '!':
                return z3.Not(tobool(v))
            if op in ('++', '--'):
                tgt = n['inner'][0]
                name = tgt['referencedDecl']['name']
                st.env[name] = v + (1 if op == '++' else -1)
                return v if n.get('isPostfix') else st.env[name]
            raise CUnsupported('unary %s' % op)
        if k == 'BinaryOperator':
            op = n['opcode']
            if op == '=':
                return self.assign(n['inner'][0], self.ev(n['inner'][1], st), st)
            if op == ',':
                self.ev(n['inner'][0], st)
                return self.ev(n['inner'][1], st)
            a, b = self.ev(n['inner'][0], st), self.ev(n['inner'][1], st)
            return self.binop(op, a, b)
        if k == 'CompoundAssignOperator':
            op = n['opcode'][:-1]
            cur = self.ev(n['inner'][0], st)
            rhs = self.ev(n['inner'][1], st)
            return self.assign(n['inner'][0], self.binop(op, cur, rhs), st)
        if k == 'CallExpr':
            return self.call(n, st)
        if k == 'UnaryExprOrTypeTraitExpr':
            return ('sizeof',)
        if k == 'ConditionalOperator':
            # c ? a : b on scalar values without side effects in the branches (both are evaluated symbolically)
            c = tobool(self.ev(n['inner'][0], st))
            a, b = self.ev(n['inner'][1], st), self.ev(n['inner'][2], st)
            if not (isinstance(a, (z3.ExprRef, int, float)) and isinstance(b, (z3.ExprRef, int, float))):
                raise CUnsupported('conditional expression on non-scalar operands')
            if (isinstance(a, z3.ExprRef) and z3.is_real(a)) or (isinstance(b, z3.ExprRef) and z3.is_real(b)) or isinstance(a, float) or isinstance(b, float):
                a, b = toreal(a), toreal(b)
            return ite(c, a, b)
        raise CUnsupported('expression kind %s' % k)

    def binop(self, op, a, b):
        if op in ('&&', '||'):
            return (z3.And if op == '&&' else z3.Or)(tobool(a), tobool(b))
        if isinstance(a, tuple) or isinstance(b, tuple):
            # n * sizeof(*p)
            if op == '*':
                return ('bytes', a if not isinstance(a, tuple) else b)
            raise CUnsupported('sizeof arithmetic')
        if isinstance(a, Ptr) or isinstance(b, Ptr):
            raise CUnsupported('pointer arithmetic')
        if z3.is_bool(a):
            a = z3.If(a, z3.IntVal(1), z3.IntVal(0))
        if z3.is_bool(b):
            b = z3.If(b, z3.IntVal(1), z3.IntVal(0))
        if z3.is_int(a) and z3.is_int(b):
            if op == '/':
                raise CUnsupported('integer division')
        else:
            a, b = toreal(a), toreal(b)
        if op == '+':
            return a + b
        if op == '-':
            return a - b
        if op == '*':
            return a * b
        if op == '/':
            return a / b
        if op == '<':
            return a < b
        if op == '<=':
            return a <= b
        if op == '>':
            return a > b
        if op == '>=':
            return a >= b
        if op == '==':
            return a == b
        if op == '!=':
            return a != b
        raise CUnsupported('binary %s' % op)

    def assign(self, tgt, val, st):
        while tgt['kind'] in ('ParenExpr', 'ImplicitCastExpr'):
            tgt = tgt['inner'][0]
        if tgt['kind'] == 'DeclRefExpr':
            name = tgt['referencedDecl']['name']
            ty = tgt.get('type', {}).get('qualType', '')
            if isinstance(val, tuple) and val and val[0] == 'malloc':
                st.env[name] = st.new_arr(name, length=val[1])
                return st.env[name]
            if isinstance(val, z3.ExprRef) and ty == 'double':
                val = toreal(val)
            st.env[name] = val
            if name in self.globals:
                self.globals[name] = val
            return val
        if tgt['kind'] == 'ArraySubscriptExpr':
            base = self.ev(tgt['inner'][0], st)
            idx = self.ev(tgt['inner'][1], st)
            self.store(st, base, idx, val)
            return val
        raise CUnsupported('assignment target %s' % tgt['kind'])

    def call(self, n, st):
        callee = n['inner'][0]
        while callee['kind'] in ('ImplicitCastExpr', 'ParenExpr'):
            callee = callee['inner'][0]
        name = callee['referencedDecl']['name']
        argn = n['inner'][1:]
        if name == 'malloc':
            v = self.ev(argn[0], st)
            if isinstance(v, tuple) and v[0] == 'bytes':
                return ('malloc', v[1])
            raise CUnsupported('malloc argument')
        if name == 'free':
            return None
        args = [self.ev(a, st) for a in argn]
        if name in ('exp', 'log', 'sqrt', 'sin', 'cos', 'fabs', 'lgamma', 'tgamma'):
            return uf(name)(toreal(args[0]))
        if name == 'pow':
            e = args[1]
            es = z3.simplify(toreal(e))
            if z3.is_rational_value(es) and es.denominator_as_long() == 1 and 0 <= es.numerator_as_long() <= 4:
                r = z3.RealVal(1)
                for _ in range(es.numerator_as_long()):
                    r = r * toreal(args[0])
                return r
            return uf('pow', 2)(toreal(args[0]), toreal(e))
        self.trace.append(('call', name, args, list(st.pc)))
        if name in self.contracts:
            return self.contracts[name](self, st, args)
        if name in self.funcs:
            f, fd = self.funcs[name]
            ps = func_params(fd)
            if all('*' not in t for _, t in ps):
                return self.inline_scalar(fd, args)
        raise CUnsupported('call of %s without contract' % name)

    def inline_scalar(self, fd, args):
        st = State()
        for (n, t), v in zip(func_params(fd), args):
            st.env[n] = toreal(v) if t == 'double' else v
        outs = self.exec_block(func_body(fd)['inner'], [st])
        rets = [s for s in outs if s.returned]
        if len(rets) != 1 or rets[0].pc:
            raise CUnsupported('scalar function with branches')
        return rets[0].retval

    # ---- statements
    def exec_block(self, stmts, states):
        for s in stmts:
            nxt = []
            for st in states:
                if st.returned:
                    nxt.append(st)
                else:
                    nxt.extend(self.exec_stmt(s, st))
            states = nxt
        return states

    def exec_stmt(self, n, st):
        k = n.get('kind')
        if k is None:
            return [st]
        if k == 'CompoundStmt':
            return self.exec_block(n.get('inner', []), [st])
        if k == 'DeclStmt':
            for d in n['inner']:
                if d['kind'] != 'VarDecl':
                    raise CUnsupported('decl %s' % d['kind'])
                name, ty = d['name'], d['type']['qualType']
                init = [c for c in d.get('inner', []) if 'kind' in c]
                if init:
                    v = self.ev(init[0], st)
                    if isinstance(v, tuple) and v[0] == 'malloc':
                        st.env[name] = st.new_arr(name, length=v[1])
                    elif '*' in ty:
                        st.env[name] = v
                    else:
                        st.env[name] = toreal(v) if ty == 'double' else v
                else:
                    if '*' in ty:
                        st.env[name] = None
                    else:
                        st.env[name] = z3.FreshConst(RealS if ty == 'double' else IntS, name + '_uninit')
            return [st]
        if k == 'ReturnStmt':
            inner = [c for c in n.get('inner', []) if 'kind' in c]
            st.retval = self.ev(inner[0], st) if inner else None
            st.returned = True
            return [st]
        if k == 'IfStmt':
            cond = tobool(self.ev(n['inner'][0], st))
            then = n['inner'][1]
            els = n['inner'][2] if len(n['inner']) > 2 else None
            if _has_return(then) or (els is not None and _has_return(els)):
                a, b = st.fork(), st.fork()
                a.pc.append(cond)
                b.pc.append(z3.Not(cond))
                out = self.exec_stmt(then, a)
                out += self.exec_stmt(els, b) if els is not None else [b]
                return out
            a, b = st.fork(), st.fork()
            a.pc.append(cond)
            b.pc.append(z3.Not(cond))
            ra = self.exec_stmt(then, a)
            rb = self.exec_stmt(els, b) if els is not None else [b]
            if len(ra) != 1 or len(rb) != 1:
                raise CUnsupported('nested forking inside a merged if')
            return [self.merge(st, cond, ra[0], rb[0])]
        if k == 'ForStmt':
            self.loop_ordinal += 1
            if self.loop_handler is not None:
                r = self.loop_handler(self, st, n, self.loop_ordinal)
                if r is not NotImplemented:
                    return r
            return self.map_loop(n, st)
        if k in ('BinaryOperator', 'CompoundAssignOperator', 'CallExpr', 'UnaryOperator'):
            v = self.ev(n, st)
            return [st]
        if k == 'NullStmt':
            return [st]
        raise CUnsupported('statement kind %s' % k)

    def merge(self, base, cond, a, b):
        out = base.fork()
        out.pc = list(base.pc)
        for name in set(a.env) | set(b.env):
            va, vb = a.env.get(name), b.env.get(name)
            if isinstance(va, z3.ExprRef) and isinstance(vb, z3.ExprRef) and not va.eq(vb):
                if z3.is_int(va) != z3.is_int(vb):
                    va, vb = toreal(va), toreal(vb)
                out.env[name] = ite(cond, va, vb)
            else:
                out.env[name] = va if va is not None else vb
        for aid in set(a.arrs) | set(b.arrs):
            xa, xb = a.arrs.get(aid), b.arrs.get(aid)
            if xa is None or xb is None:
                out.arrs[aid] = (xa or xb).clone()
                continue
            m = xa.clone()
            if xa.fn is not xb.fn:
                m.fn = lambda t, _c=cond, _fa=xa.fn, _fb=xb.fn: ite(_c, _fa(t), _fb(t))
            m.writes = xa.writes + xb.writes[len(base.arrs[aid].writes) if aid in base.arrs else 0:]
            out.arrs[aid] = m
        return out

    # ---- loops
    def loop_header(self, n, st):
        """for(v = lo; v < hi; v++) / (v <= hi) ; returns (var, lo, hi_exclusive, step) with step +1 or -1 (v >= lo_inclusive; v--)"""
        init, _, cond, inc, body = (n['inner'] + [None] * 5)[:5]
        if init is None or init.get('kind') != 'BinaryOperator' or init['opcode'] != '=':
            raise CUnsupported('for-init')
        t = init['inner'][0]
        while t['kind'] in ('ParenExpr', 'ImplicitCastExpr'):
            t = t['inner'][0]
        var = t['referencedDecl']['name']
        lo = self.ev(init['inner'][1], st)
        if cond.get('kind') != 'BinaryOperator':
            raise CUnsupported('for-cond')
        cl = cond['inner'][0]
        while cl['kind'] in ('ParenExpr', 'ImplicitCastExpr'):
            cl = cl['inner'][0]
        if cl.get('referencedDecl', {}).get('name') != var:
            raise CUnsupported('for-cond variable')
        bound = self.ev(cond['inner'][1], st)
        op = cond['opcode']
        incop = None
        if inc.get('kind') == 'UnaryOperator' and inc['opcode'] in ('++', '--'):
            incop = inc['opcode']
        elif inc.get('kind') == 'CompoundAssignOperator' and inc.get('opcode') in ('+=', '-='):
            # v += 1 / v -= 1 : the same unit step
            tgt = inc['inner'][0]
            while tgt['kind'] in ('ParenExpr', 'ImplicitCastExpr'):
                tgt = tgt['inner'][0]
            stepv = self.ev(inc['inner'][1], st)
            one = z3.simplify(stepv == 1) if isinstance(stepv, z3.ExprRef) else (stepv == 1)
            if tgt.get('referencedDecl', {}).get('name') == var and (one is True or (isinstance(one, z3.ExprRef) and z3.is_true(one))):
                incop = '++' if inc['opcode'] == '+=' else '--'
        elif inc.get('kind') == 'BinaryOperator' and inc.get('opcode') == '=':
            # v = v + 1
            tgt = inc['inner'][0]
            while tgt['kind'] in ('ParenExpr', 'ImplicitCastExpr'):
                tgt = tgt['inner'][0]
            if tgt.get('referencedDecl', {}).get('name') == var and var in st.env:
                cur = st.env[var] if isinstance(st.env.get(var), z3.ExprRef) else None
                probe = z3.FreshConst(IntS, var)
                saved = st.env.get(var)
                st.env[var] = probe
                try:
                    rhs = self.ev(inc['inner'][1], st)
                finally:
                    if saved is None:
                        st.env.pop(var, None)
                    else:
                        st.env[var] = saved
                if isinstance(rhs, z3.ExprRef):
                    if z3.is_true(z3.simplify(rhs == probe + 1)):
                        incop = '++'
                    elif z3.is_true(z3.simplify(rhs == probe - 1)):
                        incop = '--'
        if incop is None:
            raise CUnsupported('for-inc')
        inc = dict(opcode=incop)
        if inc['opcode'] == '++':
            if op == '<':
                return var, lo, bound, 1, body
            if op == '<=':
                return var, lo, bound + 1, 1, body
        else:
            if op == '>=':
                return var, lo, bound, -1, body     # v from lo down to bound inclusive
            if op == '>':
                return var, lo, bound + 1, -1, body
        raise CUnsupported('for header shape')

    def map_loop(self, n, st):
        """Exact summary of a loop whose iterations are independent: every array written in the body is
        accessed only at one index expression that is (loop variable + constant) in exactly one digit."""
        var, lo, hi, step, body = self.loop_header(n, st)
        if step != 1:
            raise CUnsupported('descending loop needs an invariant')
        pre = st.fork()
        # probe execution at a symbolic iteration to discover the write pattern
        v = z3.FreshConst(IntS, var)
        probe = pre.fork()
        probe.env[var] = v
        probe.pc += [v >= lo, v < hi]
        n_ob = len(self.obligs)
        before = {aid: len(a.writes) for aid, a in probe.arrs.items()}
        scal_before = dict(probe.env)
        outs = self.exec_stmt(body, probe)
        if len(outs) != 1 or outs[0].returned:
            raise CUnsupported('loop body forks or returns')
        post = outs[0]
        written = {}
        for aid, a in post.arrs.items():
            ws = a.writes[before.get(aid, 0):]
            if ws:
                written[aid] = ws
        # scalars modified by the body are per-iteration temporaries (havoc'd after the loop)
        mod_scalars = [nm for nm, val in post.env.items() if isinstance(val, z3.ExprRef) and nm != var and
                       (nm not in scal_before or not (isinstance(scal_before[nm], z3.ExprRef) and scal_before[nm].eq(val)))]
        patterns = {}
        for aid, ws in written.items():
            idxs = []
            for k, _pc in ws:
                ks = k if isinstance(k, tuple) else (k,)
                if not idxs:
                    idxs = ks
                elif any(not z3.simplify(x - y == 0).eq(z3.BoolVal(True)) for x, y in zip(idxs, ks)):
                    raise CUnsupported('array %s written at two different indices in one iteration' % post.arrs[aid].name)
            pos, offs = None, None
            for i, d in enumerate(idxs):
                c = z3.simplify(d - v)
                if not _mentions(c, v):
                    if pos is not None:
                        raise CUnsupported('two digits depend on the loop variable')
                    pos, offs = i, c
                elif _mentions(d, v):
                    raise CUnsupported('index %s is not loop variable + constant' % d)
            if pos is None:
                raise CUnsupported('array %s written at a loop-invariant index' % post.arrs[aid].name)
            patterns[aid] = (pos, offs, idxs)
        # reads of written arrays at other indices would make iterations dependent: check via the read log
        # (conservative syntactic check: re-run body with written arrays replaced by fresh symbols except at v)
        out = st
        memo = {}
        for aid, (pos, offs, idxs) in patterns.items():
            a_old = pre.arrs[aid].fn
            arr = out.arrs[aid]
            multi = isinstance(pre.arrs[aid].shape, tuple) and pre.arrs[aid].shape is not None

            def newfn(t, _aid=aid, _pos=pos, _offs=offs, _idxs=idxs, _old=a_old, _multi=multi):
                ts = t if _multi else (t,)
                key = (_aid, tuple(x.get_id() if isinstance(x, z3.ExprRef) else x for x in ts))
                if key in memo:
                    return memo[key]
                vt = z3.simplify(ts[_pos] - _offs)
                inr = z3.And(vt >= lo, vt < hi)
                # the other digits (loop-invariant, or written by a nested map loop) are compared by the re-executed body's own
                # store closure below; here only the range of the digit driven by this loop's variable is needed
                cond = inr
                it = pre.fork()
                it.env[var] = vt
                it.pc += [vt >= lo, vt < hi]
                for nm in mod_scalars:      # per-iteration temporaries: value from another iteration is unknown
                    it.env[nm] = z3.FreshConst(post.env[nm].sort(), nm + '_havoc')
                save = len(self.obligs)
                r = self.exec_stmt(body, it)
                del self.obligs[save:]       # bounds already recorded by the probe
                val = r[0].arrs[_aid].fn(t)
                res = ite(cond, val, _old(t))
                memo[key] = res
                return res
            arr.fn = newfn
            arr.writes = arr.writes + [((tuple(idxs) if multi else 'loop'), list(st.pc))]
        st.env[var] = ite(hi > lo, hi, lo)
        for nm in mod_scalars:
            st.env[nm] = z3.FreshConst(post.env[nm].sort(), nm + '_after_loop')
        # dependence check: body at iteration v must not read a written array at an index another iteration writes.
        self._dependence_check(pre, body, var, v, lo, hi, patterns)
        return [st]

    def _dependence_check(self, pre, body, var, v, lo, hi, patterns):
        """Re-run the probe with every written array replaced by a tracer that records read indices."""
        reads = []
        it = pre.fork()
        it.env[var] = v
        it.pc += [v >= lo, v < hi]
        for aid in patterns:
            a = it.arrs[aid]
            old = a.fn
            multi = a.shape is not None

            def tracer(t, _aid=aid, _old=old):
                reads.append((_aid, t))
                return _old(t)
            a.fn = tracer
        save = len(self.obligs)
        self.exec_stmt(body, it)
        del self.obligs[save:]
        for aid, t in reads:
            pos, offs, idxs = patterns[aid]
            ts = t if isinstance(t, tuple) else (t,)
            same = all(z3.is_true(z3.simplify(x == y)) for x, y in zip(ts, idxs))
            if not same:
                raise CUnsupported('loop-carried dependence: array read at %s but written at %s' % (ts, idxs))


def _mentions(e, v):
    if not isinstance(e, z3.ExprRef):
        return False
    if e.eq(v):
        return True
    return any(_mentions(c, v) for c in e.children())


def _has_return(n):
    if not isinstance(n, dict):
        return False
    if n.get('kind') == 'ReturnStmt':
        return True
    return any(_has_return(c) for c in n.get('inner', []))
