"""Back end `polyring`: decides  hyps |- A == B  for A, B rational functions over the reals by exact
normalisation (commutative-ring normal form with factored denominators), the same argument as Lean's
`field_simp; ring`:

   A - B = N / D,  D = product of the divisor sub-expressions of A and B;
   N == 0 as a polynomial  and  hyps |- every divisor != 0 (each a small z3 query)   ==>   A == B.

Only  + - * /  numerals, constants and applications of uninterpreted functions (atoms) are accepted;
anything else raises NotRing and the caller falls back to the SMT solvers.  Sound, not complete (a
valid equality that needs the hypotheses for more than non-vanishing of divisors is `undecided`)."""
from fractions import Fraction
import z3


class NotRing(Exception):
    pass


# polynomial = dict{ monomial: Fraction }, monomial = tuple(sorted((atom_id, exp)))
def p_const(c):
    c = Fraction(c)
    return {(): c} if c != 0 else {}


def p_var(a):
    return {((a, 1),): Fraction(1)}


def p_add(p, q, s=1):
    r = dict(p)
    for m, c in q.items():
        v = r.get(m, 0) + s * c
        if v == 0:
            r.pop(m, None)
        else:
            r[m] = v
    return r


def _mmul(m1, m2):
    d = dict(m1)
    for a, e in m2:
        d[a] = d.get(a, 0) + e
    return tuple(sorted(d.items()))


def p_mul(p, q):
    if len(p) > len(q):
        p, q = q, p
    r = {}
    for m1, c1 in p.items():
        for m2, c2 in q.items():
            m = _mmul(m1, m2)
            v = r.get(m, 0) + c1 * c2
            if v == 0:
                r.pop(m, None)
            else:
                r[m] = v
    return r


def p_norm(p):
    """Return (unit, primitive) with p = unit * primitive and the leading coefficient of primitive 1."""
    if not p:
        raise ZeroDivisionError
    lead = max(p)
    u = p[lead]
    return u, {m: c / u for m, c in p.items()}


def p_key(p):
    return tuple(sorted(p.items()))


class Rat:
    """num / prod(den factors);  den: dict{poly_key: (poly, multiplicity)}; scalar units folded into num."""
    def __init__(self, num, den=None):
        self.num, self.den = num, den or {}

    def lcm_with(self, other):
        den = dict(self.den)
        for k, (p, m) in other.den.items():
            if k not in den or den[k][1] < m:
                den[k] = (p, m)
        return den

    def lift(self, den):
        """numerator of self over the (larger) denominator `den`"""
        n = self.num
        for k, (p, m) in den.items():
            have = self.den.get(k, (None, 0))[1]
            for _ in range(m - have):
                n = p_mul(n, p)
        return n

    def add(self, o, s=1):
        den = self.lcm_with(o)
        return Rat(p_add(self.lift(den), o.lift(den), s), den)

    def mul(self, o):
        den = dict(self.den)
        for k, (p, m) in o.den.items():
            den[k] = (p, den.get(k, (p, 0))[1] + m)
        return Rat(p_mul(self.num, o.num), den)

    def inv_factors(self):
        """1/self as Rat; the numerator polynomial becomes one (normalised) denominator factor."""
        if not self.num:
            raise NotRing('division by the zero polynomial')
        u, prim = p_norm(self.num)
        num = p_const(1 / u)
        for k, (p, m) in self.den.items():
            for _ in range(m):
                num = p_mul(num, p)
        if prim == {(): Fraction(1)}:
            return Rat(num, {})
        return Rat(num, {p_key(prim): (prim, 1)})


class Converter:
    def __init__(self):
        self.atoms = {}
        self.divisors = []   # z3 expressions that occur as divisors

    def atom(self, e):
        e = z3.simplify(e)          # canonical index terms: f(k - 1 + 1) and f(k) are the same atom
        k = e.sexpr()
        if k not in self.atoms:
            self.atoms[k] = len(self.atoms)
        return Rat(p_var(self.atoms[k]))

    def conv(self, e):
        if z3.is_rational_value(e) or z3.is_int_value(e):
            return Rat(p_const(Fraction(e.numerator_as_long(), e.denominator_as_long()) if z3.is_rational_value(e)
                               else Fraction(e.as_long())))
        if z3.is_algebraic_value(e):
            raise NotRing('algebraic numeral')
        k = e.decl().kind()
        ch = e.children()
        if k == z3.Z3_OP_ADD:
            r = self.conv(ch[0])
            for c in ch[1:]:
                r = r.add(self.conv(c))
            return r
        if k == z3.Z3_OP_SUB:
            r = self.conv(ch[0])
            for c in ch[1:]:
                r = r.add(self.conv(c), -1)
            return r
        if k == z3.Z3_OP_UMINUS:
            return Rat(p_const(-1)).mul(self.conv(ch[0]))
        if k == z3.Z3_OP_MUL:
            r = self.conv(ch[0])
            for c in ch[1:]:
                r = r.mul(self.conv(c))
            return r
        if k == z3.Z3_OP_DIV:
            self.divisors.append(ch[1])
            return self.conv(ch[0]).mul(self.conv_divisor(ch[1]))
        if k == z3.Z3_OP_TO_REAL:
            return self.atom(e)
        if k == z3.Z3_OP_POWER and z3.is_int_value(ch[1]) and 0 <= ch[1].as_long() <= 8:
            r = Rat(p_const(1))
            b = self.conv(ch[0])
            for _ in range(ch[1].as_long()):
                r = r.mul(b)
            return r
        if k == z3.Z3_OP_UNINTERPRETED:
            return self.atom(e)
        raise NotRing('operator %s' % e.decl().name())

    def conv_divisor(self, e):
        """1/e, splitting top-level products so that every factor is its own denominator factor"""
        k = e.decl().kind()
        if k == z3.Z3_OP_MUL:
            r = Rat(p_const(1))
            for c in e.children():
                r = r.mul(self.conv_divisor(c))
            return r
        return self.conv(e).inv_factors()


def decide_eq(hyps, a, b, nonzero_timeout_ms=10000):
    """Returns ('proved'|'undecided'|'refuted-poly', info).  'refuted-poly' means the normal forms differ
    (the equality is not an identity of rational functions); the caller should then ask the SMT solver
    for a counter-model under the hypotheses."""
    cv = Converter()
    ra, rb = cv.conv(a), cv.conv(b)
    diff = ra.add(rb, -1)
    if diff.num:
        return 'refuted-poly', dict(monomials=len(diff.num), atoms=len(cv.atoms))
    bad = []
    seen = set()
    for d in cv.divisors:
        key = d.sexpr()
        if key in seen:
            continue
        seen.add(key)
        parts = d.children() if d.decl().kind() == z3.Z3_OP_MUL else [d]
        for part in parts:
            s = z3.Solver()
            s.set('timeout', nonzero_timeout_ms)
            s.add(*hyps)
            s.add(part == 0)
            if s.check() != z3.unsat:
                bad.append(str(part))
    if bad:
        return 'undecided', dict(divisors_not_shown_nonzero=bad[:5])
    return 'proved', dict(atoms=len(cv.atoms), divisors=len(seen))
