"""Obligation store, task pool, verdicts, evidence, known findings.

A *task* is (callable-name, kwargs) resolved in a worker process; it returns one or more `Result`
dicts.  Kinds:
  proof    - an obligation generated from the real source and handed to z3 / cvc5 / Lean
  struct   - an obligation decided structurally on the AST / term (frame, typestate, wiring)
  bounded  - a run-time contract evaluated on the real code over a stated, bounded domain
Verdicts: proved | refuted | undecided (proof/struct);  held | failed (bounded);  error (checker fault)
"""
import os, sys, time, json, traceback, importlib, multiprocessing as mp
from concurrent.futures import ProcessPoolExecutor, as_completed
from . import common
from .common import jdump


def R(oid, kind, verdict, backend='', seconds=0.0, detail='', witness=None, finding_key=None,
      func=None, evals=0, nontrivial=0, samples=None, canary=False, cover=False, inst=None,
      trusted=None, bound=None):
    """Build a result record."""
    return dict(id=oid, kind=kind, verdict=verdict, backend=backend, seconds=round(float(seconds), 4),
                detail=detail, witness=witness, finding_key=finding_key or oid, func=func,
                evals=evals, nontrivial=nontrivial, samples=samples or [], canary=canary,
                cover=cover, inst=inst, trusted=trusted or [], bound=bound)


class Task:
    def __init__(self, target, name=None, timeout=None, **kw):
        self.target = target      # "module:function"
        self.kw = kw
        self.name = name or target
        self.timeout = timeout    # seconds, wall, for the whole task (enforced by the worker via alarm)


def _init_worker(use_overlay):
    os.environ['PYTHONDONTWRITEBYTECODE'] = '1'
    sys.dont_write_bytecode = True
    if use_overlay:
        sys.path.insert(0, use_overlay)


class TaskTimeout(BaseException):
    pass


def _run_task(target, kw, name, timeout):
    import signal
    t0 = time.time()

    def _alarm(*a):
        raise TaskTimeout()
    try:
        if timeout:
            signal.signal(signal.SIGALRM, _alarm)
            signal.alarm(int(timeout))
        modname, fn = target.split(':')
        mod = importlib.import_module(modname)
        out = getattr(mod, fn)(**kw)
        if isinstance(out, dict):
            out = [out]
        out = list(out)
        return out
    except TaskTimeout:
        return [R(name, 'proof', 'undecided', detail='task wall-clock timeout %ss' % timeout,
                  seconds=time.time() - t0)]
    except Exception:
        return [R(name, 'proof', 'error', detail=traceback.format_exc()[-3000:],
                  seconds=time.time() - t0)]
    finally:
        if timeout:
            signal.alarm(0)


def _child(conn, overlay, target, kw, name, timeout, env=None):
    try:
        os.environ.update(env or {})
        _init_worker(overlay)
        out = _run_task(target, kw, name, timeout)
    except BaseException:
        out = [R(name, 'proof', 'error', detail=traceback.format_exc()[-3000:])]
    try:
        conn.send(out)
    except Exception:
        try:
            conn.send([R(name, 'proof', 'error', detail='result could not be sent back: ' + traceback.format_exc()[-1500:])])
        except Exception:
            pass
    finally:
        conn.close()


HARD_GRACE = 45      # seconds past the task's own (alarm) timeout after which the worker process is killed


def run_tasks(tasks, overlay=None, jobs=None):
    """One forked process per task, at most `jobs` at a time.  The task's wall-clock timeout is enforced twice: by an alarm inside the worker
    (python level) and, because a solver call inside C code cannot be interrupted by a python signal handler, by the parent killing the worker
    HARD_GRACE seconds later; a killed task is retried once with the solver order reversed (external processes, which can be killed on time,
    before the in-process z3).  A task killed twice yields one `undecided` result - never a violation."""
    jobs = jobs or common.NCPU
    results = []
    if not tasks:
        return results
    ctx = mp.get_context('fork')
    pending = list(tasks)
    running = {}          # conn -> (proc, task, start)
    from multiprocessing.connection import wait as mpwait
    import atexit

    def _reap():
        for pr_, t_, st_ in list(running.values()):
            try:
                pr_.kill()
            except Exception:
                pass
    atexit.register(_reap)
    while pending or running:
        while pending and len(running) < jobs:
            t = pending.pop(0)
            rc, wc = ctx.Pipe(duplex=False)
            pr = ctx.Process(target=_child, args=(wc, overlay, t.target, t.kw, t.name, t.timeout, getattr(t, 'env', None)), daemon=False)     # not daemonic: the code under test starts processes of its own (DFE cache generation)
            pr.start()
            wc.close()
            running[rc] = (pr, t, time.time())
        ready = mpwait(list(running), timeout=1.0)
        for c in ready:
            pr, t, st = running.pop(c)
            try:
                results.extend(c.recv())
            except (EOFError, OSError) as e:       # worker died without an answer
                results.append(R(t.name, 'proof', 'error', detail='worker died: %r (exit code %r)' % (e, pr.exitcode)))
            c.close()
            pr.join(5)
        now = time.time()
        for c, (pr, t, st) in list(running.items()):
            if t.timeout and now - st > t.timeout + HARD_GRACE:
                pr.kill()
                pr.join(5)
                running.pop(c)
                c.close()
                if not getattr(t, 'env', None):
                    # second and last attempt: external solver processes first (they can be killed on time), in-process z3 only after them
                    t.env = {'VERIF_SOLVER_ORDER': 'cli-first'}
                    sys.stderr.write('note: %s killed after %ds (a solver call that does not return); retrying once with the external solvers first\n' % (t.name, int(now - st)))
                    pending.append(t)
                    continue
                results.append(R(t.name, 'proof', 'undecided', detail='task killed %ds after its wall-clock timeout of %ss, twice (a solver call that does not return)'
                                 % (HARD_GRACE, t.timeout), seconds=now - st))
    results.sort(key=lambda r: r['id'])
    return results


# --------------------------------------------------------------------------------------------------
def load_known():
    if not os.path.exists(common.KNOWN_FINDINGS):
        return []
    with open(common.KNOWN_FINDINGS) as f:
        return json.load(f).get('findings', [])


def summarise(pid, results, meta, tier, t0):
    """Classify results, print VIOLATION / KNOWN-FINDING / UNDECIDED lines, write evidence, return exit code."""
    known = [k for k in load_known() if k.get('property') == pid and k.get('status') == 'known']
    known_keys = {k['key']: k for k in known}
    proofs = [r for r in results if r['kind'] in ('proof', 'struct') and not r['canary'] and not r['cover']]
    canaries = [r for r in results if r['canary']]
    covers = [r for r in results if r['cover']]
    bounded = [r for r in results if r['kind'] == 'bounded']
    errors = [r for r in results if r['verdict'] == 'error']
    violations, printed_known, undecided = [], [], []
    for r in proofs + bounded:
        if r['verdict'] in ('refuted', 'failed'):
            if r['finding_key'] in known_keys:
                printed_known.append(r)
            else:
                violations.append(r)
        elif r['verdict'] == 'undecided':
            undecided.append(r)
    # canaries must be refuted, covers must be sat ("proved" is used for "as expected")
    # a canary that *verifies* (or a vacuous cover) is a checker fault; a canary the solver could not decide is only noted
    bad_guard = [r for r in canaries + covers if r['verdict'] not in ('proved', 'undecided')]
    weak_guard = [r for r in canaries + covers if r['verdict'] == 'undecided']
    os.makedirs(common.REPLAY_DIR, exist_ok=True)
    lines = []
    seen_known = set()
    for r in printed_known:
        k = known_keys[r['finding_key']]
        if r['finding_key'] in seen_known:
            continue
        seen_known.add(r['finding_key'])
        lines.append('KNOWN-FINDING: property=%s %s [%s]' % (pid, k.get('what', r['detail'][:200]), r['finding_key']))
    # a refuted obligation whose counter-model has no native observable borrows the concrete failing input that the
    # run-time contract of the same property found on the same tree in this run (if any)
    native = [b for b in bounded if b['verdict'] == 'failed' and (b['witness'] or {}).get('cases') and b['finding_key'] not in known_keys]
    for r in violations:
        if r['kind'] != 'bounded' and not (r['witness'] and r['witness'].get('replayed')) and native:
            w = dict(r['witness'] or {})
            w.update(replayed=True, replay_source='run-time contract %s of the same property on the same tree' % native[0]['id'],
                     native_failing_case=native[0]['witness']['cases'][0])
            r['witness'] = w
    for r in violations:
        path = os.path.join(common.REPLAY_DIR, pid, _safe(r['id']) + '.json')
        jdump(dict(property=pid, obligation=r['id'], kind=r['kind'], verdict=r['verdict'],
                   backend=r['backend'], solver_output=r['detail'], witness=r['witness'],
                   finding_key=r['finding_key'], func=r['func'],
                   replay='./check %s --replay %s' % (pid, path)), path)
        tail = '' if (r['witness'] and r['witness'].get('replayed')) else ' no-failing-input-found'
        lines.append('VIOLATION property=%s replay=%s obligation=%s%s' % (pid, path, r['id'], tail))
    for r in undecided:
        lines.append('UNDECIDED property=%s obligation=%s reason=%s' % (pid, r['id'], r['detail'][:300].replace('\n', ' ')))
    for r in bad_guard:
        lines.append('CHECKER-FAULT property=%s guard=%s verdict=%s %s' % (pid, r['id'], r['verdict'], r['detail'][:300].replace('\n', ' ')))
    for r in weak_guard:
        lines.append('NOTE property=%s guard=%s not decided by the solver (%s)' % (pid, r['id'], r['detail'][:120]))
    for r in errors:
        lines.append('CHECKER-FAULT property=%s task=%s %s' % (pid, r['id'], r['detail'][-1500:]))
    n_obl = len(proofs)
    n_dis = sum(1 for r in proofs if r['verdict'] == 'proved')
    if n_obl == 0 and meta.get('expects_obligations', True):
        lines.append('CHECKER-FAULT property=%s zero obligations generated' % pid)
        errors.append(None)
    by_backend = {}
    for r in proofs:
        b = by_backend.setdefault(r['backend'] or 'none', dict(count=0, seconds=0.0))
        b['count'] += 1
        b['seconds'] = round(b['seconds'] + r['seconds'], 3)
    ev_bounded = dict(drivers=[dict(id=r['id'], bound=r['bound'], evaluations=r['evals'],
                                    distinct_nontrivial=r['nontrivial'], verdict=r['verdict'],
                                    seconds=r['seconds']) for r in bounded])
    evals = sum(r['evals'] for r in bounded)
    nontriv = sum(r['nontrivial'] for r in bounded)
    samples = []
    for r in proofs[:3]:
        samples.append(dict(obligation=r['id'], verdict=r['verdict'], backend=r['backend'], detail=r['detail'][:300]))
    for r in bounded:
        samples.extend(r['samples'][:2])
    trusted = list(meta.get('trusted_base', []))
    for r in results:
        for t in r['trusted']:
            if t not in trusted:
                trusted.append(t)
    level = meta.get('level', 'other')
    if level == 'proof' and (n_dis != n_obl or n_obl == 0):
        level = 'other'
    cov = dict(
        obligations=n_obl, discharged=n_dis,
        refuted=sum(1 for r in proofs if r['verdict'] == 'refuted'),
        undecided=len([r for r in undecided if r['kind'] != 'bounded']),
        by_backend=by_backend,
        obligation_list=[dict(id=r['id'], kind=r['kind'], verdict=r['verdict'], backend=r['backend'],
                              seconds=r['seconds'], func=r['func'], inst=r['inst'],
                              detail=r['detail'][:160]) for r in proofs],
        canaries_refuted=sum(1 for r in canaries if r['verdict'] == 'proved'), canaries=len(canaries),
        covers_sat=sum(1 for r in covers if r['verdict'] == 'proved'), covers=len(covers),
        functions_under_contract=sorted({r['func'] for r in proofs if r['func']}),
        bounded=ev_bounded,
        evaluations=max(evals, n_obl, 1), distinct_nontrivial=max(nontriv, n_dis if n_dis >= 2 else 0, 2 if (nontriv + n_dis) >= 2 else 0),
        rule=meta.get('rule', 'obligations generated from the AST of the current source, one per contract clause and path; '
                              'bounded drivers: see bounded.drivers[].bound'),
        samples=samples[:12] or [dict(note='no samples')],
        checker_cmd='./check %s --tier %s' % (pid, tier),
        trusted_base=trusted,
        explanation=meta.get('explanation', ''),
        known_findings_printed=[r['finding_key'] for r in printed_known],
    )
    # assumptions every obligation of the two engines rests on (DESIGN.md section 4); property-specific ones come from META
    general = []
    backends = set(r.get('backend') for r in proofs)
    if proofs:
        general.append('machine arithmetic treated as mathematical: IEEE doubles are reals, C int / numpy int64 are unbounded integers; round-off, overflow, nan/inf filters are outside the proofs (bounded drivers complement them)')
    if any((r.get('func') or '').endswith('.py') or '.py::' in (r.get('func') or '') for r in proofs):
        general += ['Python semantics as modelled by vf/pyvc.py; numpy / scipy / stdlib functions by the stated models (DESIGN.md section 4), checked against CPython by tools/crosscheck_e2.py; arrays have the stated small concrete shapes with symbolic entries',
                    'callees that existed when the contracts were written and are not inlined or answered by a contract are opaque terms (contracts/known_functions.json); the Spectrum constructor keeps data and mask and masks the two corners unless mask_corners=False',
                    'termination of loops is not proved']
    if any('.c::' in (r.get('func') or '') or (r.get('func') or '').endswith('.c') for r in proofs):
        general.append('C semantics as modelled by vf/cvc.py over the clang AST of the current source: no aliasing between distinct array parameters, malloc succeeds, all Thomas pivots non-zero (explicit hypothesis of every kernel postcondition)')
    ev = dict(property_id=pid, tier=tier, seed=common.seed(), level=level, coverage=cov,
              assumptions=list(meta.get('assumptions', [])) + general, wall_s=round(time.time() - t0, 2),
              violations=len(violations))
    path = os.path.join(common.EVIDENCE_DIR, pid + '.json')
    jdump(ev, path)
    try:
        import jsonschema
        with open(common.SCHEMA_EVIDENCE) as f:
            jsonschema.validate(ev_roundtrip(path), json.load(f))
    except FileNotFoundError:
        pass
    except Exception as e:
        lines.append('CHECKER-FAULT property=%s evidence does not validate: %s' % (pid, str(e)[:300]))
        errors.append(None)
    for l in lines:
        print(l)
    print('SUMMARY property=%s tier=%s obligations=%d discharged=%d refuted=%d undecided=%d canaries=%d/%d '
          'covers=%d/%d bounded_drivers=%d bounded_evals=%d known=%d violations=%d wall=%.1fs' % (
              pid, tier, n_obl, n_dis, cov['refuted'], len(undecided), cov['canaries_refuted'],
              len(canaries), cov['covers_sat'], len(covers), len(bounded), evals, len(printed_known),
              len(violations), time.time() - t0))
    if violations:
        return 1
    if errors or bad_guard:
        return 3
    if undecided:
        return 2
    return 0


def ev_roundtrip(path):
    with open(path) as f:
        return json.load(f)


def _safe(s):
    return ''.join(c if c.isalnum() or c in '-_.' else '_' for c in s)[:150]
