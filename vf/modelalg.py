"""Program algebra for dadi model functions: a model is executed by the E2 executor with the numerical
layer (Numerics.default_grid, PhiManip.*, Integration.*, Spectrum.from_phi*) kept as uninterpreted
function symbols, giving one first-order term per path.  Terms are compared modulo

  R1  zero-duration integration is the identity:  k_pops(phi, xx, T, ..., initial_t) with T == initial_t  ->  phi
      (obligation `C15/Integration.py:<k>_pops/zero-duration`, proved on the real integrators)
  R2  argument binding against the callee's real signature (defaults, keywords)      (done by Executor.bind)
  R3  a constant c and the function  t |-> c  are the same parameter (Misc.ensure_1arg_func; obligation
      `C15/Integration.py:<k>_pops/ensure_1arg_func`), closures are compared extensionally at a fresh t
  R4  scalar arithmetic (z3, `pow/exp/log` uninterpreted: congruence only)
"""
import re
import z3
from . import smt
from .pyvc import (Executor, Tm, VList, VDict, PyFn, PyRaise, FuncRef, Closure, ClassRef, ModInfo, vrepr, term_eq,
                   Unsupported, to_real, is_scalar, exact)

MODEL_FILES = ['dadi/Demographics1D.py', 'dadi/Demographics2D.py', 'dadi/Demographics3D.py',
               'dadi/PortikModels/portik_models_2d.py', 'dadi/PortikModels/portik_models_3d.py',
               'dadi/DFE/DemogSelModels.py']
MODEL_MODS = {f[:-3].replace('/', '.') for f in MODEL_FILES}
INTEGRATORS = {'one_pop': 1, 'two_pops': 2, 'three_pops': 3, 'four_pops': 4, 'five_pops': 5}


def model_policy(fref):
    if fref.mod.name in MODEL_MODS:
        return 'inline'
    return 'abstract'


def all_models():
    """[(relpath, name, param_names)] for every function carrying __param_names__ (from the AST)."""
    import ast
    out = []
    for f in MODEL_FILES:
        m = ModInfo.load(f)
        for name, attrs in m.func_attrs.items():
            if '__param_names__' in attrs and name in m.funcs:
                out.append((f, name, ast.literal_eval(attrs['__param_names__'])))
    return out


def run_model(relpath, name, params, ns, pts, hyps=(), ex=None):
    ex = ex or Executor(policy=model_policy, max_paths=64)
    f = ex.func(relpath, name)
    nargs = len(f.node.args.args)
    args = [tuple(params), ns, pts][:nargs]
    paths = ex.explore(lambda ex: ex.apply(f.node, None, f.mod, args, {}, name), base_pc=list(hyps))
    return ex, paths


def argdict(t):
    names = t.attrs.get('__argnames__')
    if not names:
        return None
    return dict(zip(names, t.args))


def normalise(v, pc, memo=None):
    """Apply R1 bottom-up under the path condition pc."""
    memo = {} if memo is None else memo
    if isinstance(v, Tm):
        if v.uid in memo:
            return memo[v.uid]
        args = [normalise(a, pc, memo) for a in v.args]
        m = re.match(r'call:dadi\.Integration\.(one_pop|two_pops|three_pops|four_pops|five_pops)$', v.op)
        if m and v.attrs.get('__argnames__'):
            d = dict(zip(v.attrs['__argnames__'], args))
            T, t0 = d.get('T'), d.get('initial_t', 0)
            if is_scalar(exact(T)) and is_scalar(exact(t0)):
                r = smt.check(list(pc), to_real(T) == to_real(t0), timeout_ms=5000, use_cli=False)
                if r['status'] == 'proved':
                    memo[v.uid] = d['phi']
                    return d['phi']
        n = Tm(v.op, *args)
        n.attrs = {k: (normalise(a, pc, memo) if not k.startswith('__') else a) for k, a in v.attrs.items()}
        memo[v.uid] = n
        return n
    if isinstance(v, tuple):
        return tuple(normalise(a, pc, memo) for a in v)
    if isinstance(v, VList):
        return VList([normalise(a, pc, memo) for a in v.items], v.kind)
    return v


class Fresh:
    """Extensional comparison of function-valued parameters (R3)."""
    def __init__(self):
        self.n = 0
        self.ex = Executor(policy=model_policy, max_paths=8)

    def __call__(self, a, b, goals, path):
        self.n += 1
        t = z3.Real('t!%d' % self.n)

        def app(f):
            if is_scalar(f):
                return f
            ps = self.ex.explore(lambda ex: ex.call(f, [t], {}))
            ps = [p for p in ps if p.outcome == 'return']
            if len(ps) != 1 or ps[0].pc:
                raise Unsupported('function-valued parameter with branches')
            return ps[0].value
        try:
            va, vb = app(a), app(b)
        except Unsupported as e:
            return '%s: %s' % (path, e)
        return term_eq(va, vb, goals, path + '(t)', self, integrator_hook)


def integrator_hook(a, b, goals, path, fresh):
    """Two calls of the same integrator are equal if density, grid, T and initial_t agree and either the
    integration has zero duration (R1) or all remaining arguments agree."""
    m = re.match(r'call:dadi\.Integration\.(one_pop|two_pops|three_pops|four_pops|five_pops)$', a.op)
    if not m or a.op != b.op or not a.attrs.get('__argnames__') or len(a.args) != len(b.args):
        return NotImplemented
    names = a.attrs['__argnames__']
    da, db = dict(zip(names, a.args)), dict(zip(names, b.args))
    for k in ('phi', 'xx', 'T', 'initial_t'):
        r = term_eq(da[k], db[k], goals, '%s/%s.%s' % (path, m.group(1), k), fresh, integrator_hook)
        if r:
            return r
    if not (is_scalar(exact(da['T'])) and is_scalar(exact(da['initial_t']))):
        return NotImplemented
    live = to_real(da['T']) != to_real(da['initial_t'])
    sub = []
    for k in names:
        if k in ('phi', 'xx', 'T', 'initial_t'):
            continue
        r = term_eq(da[k], db[k], sub, '%s/%s.%s' % (path, m.group(1), k), fresh, integrator_hook)
        if r:
            return r
    for g, where in sub:
        goals.append((z3.Implies(live, g), where))
    return None


def compare_paths(pathsA, pathsB, hyps, what=''):
    """Every jointly feasible pair of paths must agree.  Returns list of (ok, detail, model)."""
    out = []
    npairs = 0
    for i, pa in enumerate(pathsA):
        for j, pb in enumerate(pathsB):
            pc = list(hyps) + list(pa.pc) + list(pb.pc)
            if smt.sat(pc, timeout_ms=5000) is False:
                continue
            npairs += 1
            tag = '%s pair(%d,%d)' % (what, i, j)
            if pa.outcome != pb.outcome:
                out.append((False, '%s: one side %s, the other %s' % (tag, _oc(pa), _oc(pb)), _model(pc)))
                continue
            if pa.outcome == 'raise':
                out.append((pa.exc.kind == pb.exc.kind, '%s: both raise %s/%s' % (tag, pa.exc.kind, pb.exc.kind), None))
                continue
            va, vb = normalise(pa.value, pc), normalise(pb.value, pc)
            goals = []
            mm = term_eq(va, vb, goals, '', Fresh(), integrator_hook)
            if mm:
                out.append((False, '%s: terms differ at %s' % (tag, mm), _model(pc)))
                continue
            bad = None
            for g, where in goals:
                gs = z3.simplify(g)
                if z3.is_true(gs):
                    continue
                r = smt.check(pc, gs, timeout_ms=15000)
                if r['status'] != 'proved':
                    bad = (r['status'], '%s: scalar argument differs at %s: %s  [%s] model=%s' % (tag, where, gs, r['status'], str(r['model'])[:400]), r['model'])
                    break
            if bad:
                out.append((False if bad[0] == 'refuted' else None, bad[1], bad[2]))
            else:
                out.append((True, '%s: equal (%d scalar goals)' % (tag, len(goals)), None))
    if npairs == 0:
        out.append((None, '%s: no jointly feasible pair of paths' % what, None))
    return out


def _oc(p):
    return 'returns' if p.outcome == 'return' else 'raises %s(%s)' % (p.exc.kind, p.exc.msg[:60])


def _model(pc):
    s = z3.Solver()
    s.set('timeout', 3000)
    s.add(*pc)
    if s.check() == z3.sat:
        m = s.model()
        return {d.name(): str(m[d]) for d in m.decls()[:40]}
    return None


def phi_rank(t):
    """Dimension of a density term from the constructors that built it (None if unknown)."""
    if not isinstance(t, Tm):
        return None
    op = t.op
    m = re.match(r'call:dadi\.PhiManip\.phi_(\d)D_to_(\d)D', op)
    if m:
        return int(m.group(2))
    m = re.match(r'call:dadi\.PhiManip\.phi_(\d)D_admix', op)
    if m:
        return int(m.group(1))
    m = re.match(r'call:dadi\.PhiManip\.phi_1D', op)
    if m:
        return 1
    m = re.match(r'call:dadi\.Integration\.(\w+)$', op)
    if m and m.group(1) in INTEGRATORS:
        return INTEGRATORS[m.group(1)]
    if op in ('call:dadi.PhiManip.remove_pop',):
        r = phi_rank(t.args[0])
        return None if r is None else r - 1
    if op == 'call:dadi.PhiManip.reorder_pops':
        return phi_rank(t.args[0])
    if op == 'call:dadi.PhiManip.filter_pops':
        d = argdict(t)
        tk = d.get('tokeep') if d else None
        if isinstance(tk, (VList, tuple)):
            return len(tk.items if isinstance(tk, VList) else tk)
    if op.startswith('op:'):
        for a in t.args:
            r = phi_rank(a)
            if r is not None:
                return r
    return None


def walk(t, f, seen=None):
    seen = set() if seen is None else seen
    if isinstance(t, Tm):
        if t.uid in seen:
            return
        seen.add(t.uid)
        f(t)
        for a in t.args:
            walk(a, f, seen)
    elif isinstance(t, (tuple, list)):
        for a in t:
            walk(a, f, seen)
    elif isinstance(t, VList):
        for a in t.items:
            walk(a, f, seen)
