#!/bin/bash
# Build /verif/.venv offline: python 3.12 (same interpreter as /venv), solver + contract wheels from
# the local wheelhouse, and a .pth that exposes /venv's site-packages (numpy, scipy, demes, nlopt ...)
# so the real dadi package imports.  Idempotent.
set -e
cd "$(dirname "$0")"
V=.venv
if [ ! -x $V/bin/python ] || ! $V/bin/python -c "import z3, cvc5, jsonschema, mpmath, sympy, deal" 2>/dev/null; then
  rm -rf $V
  /venv/bin/python -m venv $V
  PIP_NO_INDEX=1 $V/bin/python -m pip install -q --no-index --find-links /opt/veriftools/wheels \
      z3-solver cvc5 deal icontract crosshair-tool jsonschema mpmath sympy hypothesis
  SP=$($V/bin/python -c "import sysconfig; print(sysconfig.get_paths()['purelib'])")
  echo "import site; site.addsitedir('/venv/lib/python3.12/site-packages')" > $SP/_overlay.pth
fi
$V/bin/python -c "import z3, cvc5, numpy, scipy; print('venv ok', z3.get_version_string())"
