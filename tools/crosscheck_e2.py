"""Differential check of the E2 symbolic executor against CPython/numpy: the real functions are run (a) natively on random concrete inputs and
(b) by vf.pyvc on the same inputs given as exact rationals; the two results must agree to 1e-9.  This exercises the numpy models the
contracts rely on (basic indexing, broadcasting, sum/diff/where/logical ops, dot, trapz, boolean-mask and fancy assignment, closures with
default arguments, ...).  It is a test of the *checker*, not of dadi: a mismatch means a model in vf/pyvc.py is wrong.
Usage: .venv/bin/python tools/crosscheck_e2.py [seed]      exit 0 = all agree, 1 = mismatch."""
import sys, os, random, math, warnings
warnings.filterwarnings('ignore', category=SyntaxWarning)      # docstrings of the analysed files contain '\\g'; dadi's logging would echo the warning on every parse
from fractions import Fraction as F
sys.path.insert(0, os.path.dirname(os.path.dirname(os.path.abspath(__file__))))
from vf import overlay          # noqa: F401  (puts the working tree of /repo on sys.path)
import numpy as np
import z3
from vf.pyvc import Executor, VList, VDict, Tm, PyFn, ClassRef, exact

seed = int(sys.argv[1]) if len(sys.argv) > 1 else 1
rng = random.Random(seed)
fails = []
count = [0]


def fr(lo=0.1, hi=2.0):
    return F(rng.randint(int(lo * 1000), int(hi * 1000)), 1000)


def arr(shape, lo=0.1, hi=2.0):
    if len(shape) == 1:
        return [fr(lo, hi) for _ in range(shape[0])]
    return [arr(shape[1:], lo, hi) for _ in range(shape[0])]


def grid(n):
    pts = sorted({fr(0.01, 0.99) for _ in range(n - 2)})
    while len(pts) < n - 2:
        pts = sorted(set(pts) | {fr(0.01, 0.99)})
    return [F(0)] + pts + [F(1)]


def to_v(a):
    return VList([to_v(x) for x in a], 'ndarray') if isinstance(a, list) else a


def to_np(a):
    return np.array([[float(y) for y in x] if isinstance(x, list) and x and not isinstance(x[0], list) else x for x in a], dtype=object) if False else np.array(_floats(a))


def _floats(a):
    return [_floats(x) for x in a] if isinstance(a, list) else float(a)


def from_v(v):
    v = exact(v)
    if isinstance(v, VList):
        return [from_v(x) for x in v.items]
    if isinstance(v, (tuple, list)):
        return [from_v(x) for x in v]
    if isinstance(v, bool):
        return v
    if isinstance(v, z3.ExprRef):
        s = z3.simplify(v)
        if z3.is_true(s):
            return True
        if z3.is_false(s):
            return False
        if z3.is_rational_value(s) or z3.is_int_value(s):
            return float(F(s.as_fraction())) if z3.is_rational_value(s) else float(s.as_long())
        raise ValueError('not a value: %s' % s)
    return float(v)


def agree_unmasked(got, want):
    """[data, mask] pairs: masks must agree everywhere, data where unmasked (values under a mask are not part of a masked array's meaning)"""
    gd, gm = np.array(got[0], dtype=float), np.array(got[1], dtype=bool)
    wd, wm = np.array(want[0], dtype=float), np.array(want[1], dtype=bool)
    return gd.shape == wd.shape and np.array_equal(gm, wm) and np.allclose(gd[~wm], wd[~wm], rtol=1e-9, atol=1e-12)


def agree(a, b, tol=1e-9):
    if isinstance(a, (list, tuple, np.ndarray)) or isinstance(b, (list, tuple, np.ndarray)):
        a, b = list(a), list(b)
        return len(a) == len(b) and all(agree(x, y, tol) for x, y in zip(a, b))
    if isinstance(a, (bool, np.bool_)) or isinstance(b, (bool, np.bool_)):
        return bool(a) == bool(b)
    return abs(float(a) - float(b)) <= tol * max(1.0, abs(float(b)))


def case(name, native, symbolic, masked_pair=False):
    count[0] += 1
    try:
        want = native()
        got = symbolic()
        ok = agree_unmasked(got, want) if masked_pair else agree(from_v(got) if not isinstance(got, (list, float, int, bool)) else got, want.tolist() if isinstance(want, np.ndarray) else want)
        if not ok:
            fails.append((name, 'E2 %r vs CPython %r' % (str(from_v(got))[:300], str(want)[:300])))
    except Exception as e:
        import traceback
        fails.append((name, 'exception: %s' % traceback.format_exc()[-600:]))


def run1(ex, relpath, qual, args, kwargs=None, base=None):
    f = ex.func(relpath, qual)
    paths = ex.run(f, args, kwargs or {})
    rets = [p for p in paths if p.outcome == 'return']
    if len(rets) != 1 or len(paths) != 1:
        raise RuntimeError('expected one returning path, got %r' % paths[:3])
    return rets[0].value


def spectrum_identity(ex):
    def ah(ex_, fref, a, kw, ctx):
        if (isinstance(fref, ClassRef) and fref.node.name == 'Spectrum') or (isinstance(fref, Tm) and 'Spectrum' in fref.op):
            return a[0]
        return NotImplemented
    ex.abstract_hook = ah
    return ex


import dadi
from dadi import Numerics, Integration, Misc, Spectrum
from dadi.Spectrum_mod import Spectrum as S

for rep in range(3):
    # --- Numerics.trapz: 1-D, 2-D last axis, 2-D first axis
    y1, x1 = arr((5,)), sorted(arr((5,)))
    case('trapz.1d', lambda: Numerics.trapz(to_np(y1), to_np(x1)), lambda: run1(Executor(), 'dadi/Numerics.py', 'trapz', [to_v(y1), to_v(x1)]))
    y2, d2 = arr((3, 4)), arr((3,))
    case('trapz.2d.last', lambda: Numerics.trapz(to_np(y2), dx=to_np(d2)), lambda: run1(Executor(), 'dadi/Numerics.py', 'trapz', [to_v(y2)], dict(dx=to_v(d2))))
    d0 = arr((2,))
    case('trapz.2d.axis0', lambda: Numerics.trapz(to_np(y2), dx=to_np(d0), axis=0), lambda: run1(Executor(), 'dadi/Numerics.py', 'trapz', [to_v(y2)], dict(dx=to_v(d0), axis=0)))
    # --- reverse_array 3-D
    a3 = arr((2, 3, 2))
    case('reverse_array', lambda: Numerics.reverse_array(to_np(a3)), lambda: run1(Executor(), 'dadi/Numerics.py', 'reverse_array', [to_v(a3)]))
    # --- Integration helpers with broadcasting
    xx = grid(4)
    dx = [xx[i + 1] - xx[i] for i in range(3)]
    case('_compute_dfactor', lambda: Integration._compute_dfactor(to_np(dx)), lambda: run1(Executor(), 'dadi/Integration.py', '_compute_dfactor', [to_v(dx)]))
    m, g, h = fr(), fr(-2, 2), fr(0, 1)
    case('_Mfunc2D.broadcast', lambda: Integration._Mfunc2D(to_np(xx)[:, None], to_np(xx)[None, :], float(m), float(g), float(h)),
         lambda: run1(Executor(policy=lambda f_: 'inline'), 'dadi/Integration.py', '_Mfunc2D', [VList([VList([x], 'ndarray') for x in xx], 'ndarray'), VList([to_v(xx)], 'ndarray'), m, g, h]))
    # --- direct 2-D sampling (nested trapz with dx=, newaxis, caches)
    G = 4
    gx = grid(G)
    phi = arr((G, G))
    ex = spectrum_identity(Executor(policy=lambda f_: 'inline' if f_.qualname in ('Spectrum._from_phi_2D_direct',) else 'abstract'))
    case('_from_phi_2D_direct', lambda: np.asarray(S._from_phi_2D_direct(2, 3, to_np(gx), to_np(gx), to_np(phi), mask_corners=False).data),
         lambda: run1(ex, 'dadi/Spectrum_mod.py', 'Spectrum._from_phi_2D_direct', [2, 3, to_v(gx), to_v(gx), to_v(phi)], dict(mask_corners=False)))
    # --- Misc.combine_pops 3-D (index arithmetic)
    ns = (2, 1, 2)
    f3 = arr(tuple(n + 1 for n in ns))

    def nat_cp():
        fs = dadi.Spectrum(to_np(f3), mask_corners=False)
        return np.asarray(Misc.combine_pops(fs, [0, 2]).data)

    def sym_cp():
        data = to_v(f3)

        def gh(ex_, obj, name, ctx):
            if obj is data and name == 'sample_sizes':
                return VList(list(ns), 'ndarray')
            if obj is data and name == 'extrap_x':
                return None
            return NotImplemented
        return run1(spectrum_identity(Executor(getattr_hook=gh)), 'dadi/Misc.py', 'combine_pops', [data, VList([0, 2])])
    case('Misc.combine_pops', nat_cp, sym_cp)
    # --- fold: data and mask, against the real Spectrum object
    from contracts.py_wiring import _run_spectrum_method
    for ns2 in ((4,), (2, 3)):
        shape = tuple(n + 1 for n in ns2)
        fv = arr(shape)
        mv = (np.array([rng.random() < 0.3 for _ in range(int(np.prod(shape)))]).reshape(shape)).tolist()

        def nat_fold(fv=fv, mv=mv):
            fs = dadi.Spectrum(to_np(fv), mask=np.array(mv), mask_corners=False)
            o = fs.fold()
            return [np.asarray(o.data).tolist(), np.ma.getmaskarray(o).tolist()]

        def sym_fold(fv=fv, mv=mv, ns2=ns2):
            ex_, paths, made, _ = _run_spectrum_method('fold', to_v(fv), to_v(mv), ns2, False)
            arr_, kw, t = made[0]
            return [from_v(arr_), from_v(kw.get('mask'))]
        case('fold.%s' % (ns2,), nat_fold, sym_fold)
    # --- closures with default arguments (late-binding trap)
    from dadi.Demes import Demes as DM
    sizes = [(fr(), fr(), 'linear'), (fr(), None, 'constant'), (fr(), fr(), 'exponential')]
    sizes = [(a, a if k == 'constant' else b, k) for a, b, k in sizes]
    T, Ne, t = fr(), fr(100, 1000), fr(0.01, 0.09)

    def nat_nu():
        fs_ = DM._make_nu_func([(float(a), float(b), k) for a, b, k in sizes[:2]], float(T), float(Ne))
        return [f_(float(t)) for f_ in fs_]

    def sym_nu():
        ex_ = Executor()
        fl = run1(ex_, 'dadi/Demes/Demes.py', '_make_nu_func', [VList([tuple(s) for s in sizes[:2]]), T, Ne])
        outs = []
        for c in ex_.iterate(fl):
            sub = ex_.explore(lambda e, _c=c: e.call(_c, [t], {}))
            outs.append(sub[0].value)
        return outs
    case('_make_nu_func.closures', nat_nu, sym_nu)
    # --- summary statistics on a concrete spectrum
    n = 6
    fv = arr((n + 1,))
    from contracts import py_wiring as W
    for meth in ('pi', 'theta_L', 'Watterson_theta'):
        def nat_st(meth=meth, fv=fv):
            return float(getattr(dadi.Spectrum(to_np(fv)), meth)())

        def sym_st(meth=meth, fv=fv):
            me = to_v(fv)

            def gh(ex_, obj, name, ctx):
                if obj is me:
                    if name == 'sample_sizes':
                        return VList([n], 'ndarray')
                    if name in ('Npop', 'ndim'):
                        return 1
                    if name == 'S':
                        return PyFn(lambda: sum(fv[1:n]), 'S')
                return NotImplemented
            return run1(Executor(getattr_hook=gh), 'dadi/Spectrum_mod.py', 'Spectrum.' + meth, [me])
        case('stat.' + meth, nat_st, sym_st)
    # --- Fst (indices / transpose / broadcasting / mean)
    ns3 = (1, 2)
    f2 = arr((2, 3))

    def nat_fst():
        return float(dadi.Spectrum(to_np(f2), mask_corners=False).Fst())

    def sym_fst():
        me = to_v(f2)

        def gh(ex_, obj, name, ctx):
            if obj is me and name == 'sample_sizes':
                return VList(list(ns3), 'ndarray')
            if obj is me and name == 'Npop':
                return 2
            return NotImplemented
        return run1(Executor(getattr_hook=gh), 'dadi/Spectrum_mod.py', 'Spectrum.Fst', [me])
    case('Fst', nat_fst, sym_fst)
    # --- LowPass.projection_inbreeding (combinations, symbolic-index update path with concrete values)
    from dadi.LowPass import LowPass
    part = [rng.randint(0, 2) for _ in range(4)]
    case('projection_inbreeding', lambda: LowPass.projection_inbreeding(part, 4), lambda: run1(Executor(), 'dadi/LowPass/LowPass.py', 'projection_inbreeding', [VList(list(part)), 4]))

# --- bookkeeping functions that go through the Spectrum constructor (corner masks!), against the real class
def ctor_hook(ex):
    from contracts.py_wiring import _nd_build, _nd_get

    def ah(ex_, fref, a, kw, ctx):
        if (isinstance(fref, ClassRef) and fref.node.name == 'Spectrum') or (isinstance(fref, Tm) and 'Spectrum' in fref.op):
            arr_ = a[0]
            shp = ex_.list_method(arr_, 'shape')
            mc = kw.get('mask_corners', True)
            given = kw.get('mask')
            corner = lambda idx: bool(mc) and (all(i == 0 for i in idx) or all(i == s_ - 1 for i, s_ in zip(idx, shp)))
            ex_.setattr(arr_, 'mask', _nd_build(shp, lambda idx: True if corner(idx) else (_nd_get(given, idx) if given is not None else False)))
            ex_.setattr(arr_, 'pop_ids', kw.get('pop_ids'))
            return arr_
        return NotImplemented
    ex.abstract_hook = ah
    return ex


for rep in range(3):
    ns = rng.choice([(2, 3), (1, 2, 2), (2, 1, 1)])
    shape = tuple(n + 1 for n in ns)
    fv = arr(shape)
    mv = (np.array([rng.random() < 0.25 for _ in range(int(np.prod(shape)))]).reshape(shape)).tolist()
    tc = rng.sample(range(1, len(ns) + 1), 2)

    def nat_comb():
        fs = dadi.Spectrum(to_np(fv), mask=np.array(mv), mask_corners=False, pop_ids=['P%d' % i for i in range(len(ns))])
        o = fs.combine_two_pops(list(tc))
        return [np.asarray(o.data).tolist(), np.ma.getmaskarray(o).tolist()]

    def sym_comb():
        data, mask = to_v(fv), to_v(mv)

        def gh(ex_, obj, name, ctx):
            if obj is data:
                if name == 'sample_sizes':
                    return VList(list(ns), 'ndarray')
                if name == 'pop_ids':
                    return VList(['P%d' % i for i in range(len(ns))])
                if name == 'mask':
                    return mask
                if name in ('extrap_x', 'folded'):
                    return None if name == 'extrap_x' else False
            return NotImplemented
        ex_ = ctor_hook(Executor(getattr_hook=gh))
        r = run1(ex_, 'dadi/Spectrum_mod.py', 'Spectrum.combine_two_pops', [data, VList(list(tc))])
        return [from_v(r), from_v(r.__dict__['attrs']['mask'])]
    case('combine_two_pops%s%s' % (ns, tc), nat_comb, sym_comb, masked_pair=True)

    axis = rng.randrange(len(ns))
    nproj = rng.randint(1, ns[axis])

    def nat_proj():
        fs = dadi.Spectrum(to_np(fv), mask=np.array(mv), mask_corners=False)
        o = fs._project_one_axis(nproj, axis) if nproj <= ns[axis] else None
        return [np.asarray(o.data).tolist(), np.ma.getmaskarray(o).tolist()]

    def sym_proj():
        data, mask = to_v(fv), to_v(mv)

        def gh(ex_, obj, name, ctx):
            if obj is data:
                if name == 'sample_sizes':
                    return VList(list(ns), 'ndarray')
                if name == 'Npop':
                    return len(ns)
                if name == 'mask':
                    return mask
            return NotImplemented

        def pol(fr_):
            if fr_.qualname == '_cached_projection':
                return lambda ex_, f_, a, kw: VList([F(float(x)).limit_denominator(10 ** 12) for x in Numerics._cached_projection(*[int(exact(z)) for z in a])], 'ndarray')
            return 'inline' if fr_.qualname == 'Spectrum._project_one_axis' else 'abstract'
        ex_ = ctor_hook(Executor(policy=pol, getattr_hook=gh))
        r = run1(ex_, 'dadi/Spectrum_mod.py', 'Spectrum._project_one_axis', [data, nproj], dict(axis=axis))
        return [from_v(r), from_v(r.__dict__['attrs']['mask'])]
    case('_project_one_axis%s.%d.%d' % (ns, axis, nproj), nat_proj, sym_proj, masked_pair=True)

# --- data-dictionary functions (dicts, defaultdict, string keys, sorting) and marginalize
for rep in range(2):
    keys = ['chr_1_%d' % rng.randint(1, 60) for _ in range(4)] + ['sc.2_%d' % rng.randint(1, 60) for _ in range(3)] + ['chr_1_33.b']
    keys = list(dict.fromkeys(keys))
    cs = rng.randint(7, 40)
    ddn = {k: {'id': k} for k in keys}

    def nat_frag():
        return [sorted(c.keys()) for c in Misc.fragment_data_dict(ddn, cs)]

    def sym_frag():
        r = run1(Executor(), 'dadi/Misc.py', 'fragment_data_dict', [VDict({k: Tm('v:' + k) for k in keys}), cs])
        return [sorted(c.d.keys()) for c in r.items]
    count[0] += 1
    try:
        a_, b_ = nat_frag(), sym_frag()
        if a_ != b_:
            fails.append(('fragment_data_dict', 'E2 %r vs CPython %r' % (b_, a_)))
    except Exception:
        import traceback
        fails.append(('fragment_data_dict', traceback.format_exc()[-500:]))

    snps = {}
    for i in range(6):
        seg = rng.choice([('A', 'C'), ('G', 'T'), ('A', 'C', 'G')])
        og = rng.choice([seg[0], seg[1], '-', 'N', None])
        info = {'segregating': seg, 'calls': {'P1': (rng.randint(0, 3), rng.randint(0, 3)), 'P2': (rng.randint(0, 2), rng.randint(0, 2))}}
        if og is not None:
            info['outgroup_allele'] = og
        snps['s%d' % i] = info

    def nat_count():
        return sorted((k, v) for k, v in Misc.count_data_dict(snps, ['P1', 'P2']).items())

    def sym_count():
        dd = VDict({k: VDict({kk: (VDict(dict(vv)) if isinstance(vv, dict) else vv) for kk, vv in v.items()}) for k, v in snps.items()})
        r = run1(Executor(), 'dadi/Misc.py', 'count_data_dict', [dd, VList(['P1', 'P2'])])
        return sorted((k, int(v)) for k, v in r.d.items())
    count[0] += 1
    try:
        a_, b_ = nat_count(), sym_count()
        if a_ != b_:
            fails.append(('count_data_dict', 'E2 %r vs CPython %r' % (b_, a_)))
    except Exception:
        import traceback
        fails.append(('count_data_dict', traceback.format_exc()[-500:]))

# --- new-population constructor with the bracket helper replaced by the same fixed arrays on both sides
#     (advanced indexing with broadcast index arrays, in-place += through a fancy index)
from dadi import PhiManip
for rep in range(3):
    G = 3
    shp = (G, G, G)
    lowv = [[[rng.randrange(G) for _ in range(G)] for _ in range(G)] for _ in range(G)]
    upv = [[[(lowv[i][j][k] + 1) % G for k in range(G)] for j in range(G)] for i in range(G)]
    flv, fuv, nmv = arr(shp), arr(shp), arr(shp)
    ph3 = arr(shp)
    g3 = grid(G)

    def nat_ctor():
        saved = PhiManip._three_pop_admixture_intermediates
        PhiManip._three_pop_admixture_intermediates = lambda *a: (np.array(lowv), np.array(upv), to_np(flv), to_np(fuv), to_np(nmv))
        try:
            return PhiManip.phi_3D_to_4D(to_np(ph3), 0.2, 0.3, to_np(g3), to_np(g3), to_np(g3), to_np(g3))
        finally:
            PhiManip._three_pop_admixture_intermediates = saved

    def sym_ctor():
        def pol(f_):
            if f_.qualname == '_three_pop_admixture_intermediates':
                return lambda ex_, ff, a, kw: (to_v(lowv), to_v(upv), to_v(flv), to_v(fuv), to_v(nmv))
            return 'inline' if f_.qualname == 'phi_3D_to_4D' else 'abstract'
        return run1(Executor(policy=pol), 'dadi/PhiManip.py', 'phi_3D_to_4D', [to_v(ph3), F(1, 5), F(3, 10), to_v(g3), to_v(g3), to_v(g3), to_v(g3)])
    case('phi_3D_to_4D.fancy-indexing', nat_ctor, sym_ctor)

# --- Cache2D.integrate_point_pos: boolean-mask indexing (alone, with a slice, two masks), numpy.squeeze, numpy.concatenate, trapz along axis 1
import types
from dadi.DFE import Cache2D_mod
for trial in range(3):
    ng = sorted([-fr(0.5, 9.0) for _ in range(3)])
    while len(set(ng)) < 3:
        ng = sorted([-fr(0.5, 9.0) for _ in range(3)])
    gam = ng + [F(3), F(5)]
    spec = arr((5, 5, 2, 3))
    NN = arr((2, 3))
    cont = [fr(), fr()]
    a1, a2 = rng.choice([3, 4]), rng.choice([3, 4])
    pp1 = fr(0.2, 3.0)
    pp2 = 1 / pp1          # ppos1*ppos2 = 1: the square root is exact
    theta_, rho_ = fr(), fr(0.0, 1.0)
    prm = cont + [pp1, gam[a1], pp2, gam[a2]]

    def nat_pp():
        me = types.SimpleNamespace(gammas=to_np(gam), neg_gammas=to_np(ng), spectra=to_np(spec), integrate=lambda *a, **k: to_np(NN))
        pdf = lambda xx, yy, p: 1 + p[0] * xx[:, None] + 2 * p[1] * yy[None, :] + xx[:, None] * yy[None, :]
        return Cache2D_mod.Cache2D.integrate_point_pos(me, [float(x) for x in prm], None, pdf, float(theta_), rho=float(rho_))

    def sym_pp():
        me = Tm('self')
        me.attrs.update(gammas=to_v(gam), neg_gammas=to_v(ng), spectra=to_v(spec))
        me.attrs['integrate'] = PyFn(lambda *a, **k: to_v(NN), 'self.integrate')

        def pdf(xx, yy, p):
            xs, ys, p = [exact(v) for v in xx.items], [exact(v) for v in yy.items], [exact(v) for v in (p.items if isinstance(p, VList) else p)]
            return VList([VList([1 + p[0] * x + 2 * p[1] * y + x * y for y in ys], 'ndarray') for x in xs], 'ndarray')
        return run1(Executor(), 'dadi/DFE/Cache2D_mod.py', 'Cache2D.integrate_point_pos', [me, VList(list(prm)), None, PyFn(pdf, 'pdf'), theta_], dict(rho=rho_))
    case('Cache2D.integrate_point_pos.%d' % trial, nat_pp, sym_pp)

    def nat_sym():
        seen = {}
        me = types.SimpleNamespace(integrate_point_pos=lambda params, ns, sd, theta, rho=0, pts=None: seen.update(p=list(params), rho=rho) or 0)
        Cache2D_mod.Cache2D.integrate_symmetric_point_pos(me, [float(x) for x in cont + [rho_, pp1, gam[a1]]], None, None, 1.0)
        return seen['p'] + [seen['rho']]

    def sym_sym():
        seen = {}
        me = Tm('self')
        me.attrs['integrate_point_pos'] = PyFn(lambda params, ns, sd, theta, rho=0, pts=None: seen.update(p=list(params.items), rho=rho) or 0, 'ipp')
        run1(Executor(), 'dadi/DFE/Cache2D_mod.py', 'Cache2D.integrate_symmetric_point_pos', [me, VList(cont + [rho_, pp1, gam[a1]]), None, None, 1])
        return VList(seen['p'] + [seen['rho']])
    case('Cache2D.integrate_symmetric_point_pos.%d' % trial, nat_sym, sym_sym)

# --- LowPass.calling_error_matrix: a[i, idx] += v with an index array, scipy binom.pmf over an array of k, 0.5**depths
from dadi.LowPass import LowPass as _LP
from vf.pyvc import FuncRef as _FuncRef
for nsub_ in (2, 4):
    probs_ = [fr(0.05, 1.0) for _ in range(4)]
    tot_ = sum(probs_)
    probs_ = [x / tot_ for x in probs_]
    cov_ = [[F(0), F(1), F(2), F(3)], probs_]
    parts_nat, pp_nat = _LP.partitions_and_probabilities(nsub_, 'genotype', 0)
    parts_l = [[list(map(int, c)) for c in ps] for ps in parts_nat]
    pp_l = [[F(float(x)) for x in ws] for ws in pp_nat]

    def nat_cem(_n=nsub_, _c=cov_):
        return _LP.calling_error_matrix(np.array([[float(x) for x in r] for r in _c]), _n, 0)

    def sym_cem(_n=nsub_, _c=cov_, _p=parts_l, _w=pp_l):
        def pol(fr_):
            if fr_.qualname == 'partitions_and_probabilities':
                return lambda ex_, f_, a, kw: (VList([VList([VList(list(c)) for c in ps]) for ps in _p]), VList([VList(list(w), 'ndarray') for w in _w]))
            return 'inline' if fr_.qualname == 'calling_error_matrix' else 'abstract'
        cd = VList([VList([0, 1, 2, 3], 'ndarray'), VList(list(_c[1]), 'ndarray')], 'ndarray')
        return run1(Executor(policy=pol), 'dadi/LowPass/LowPass.py', 'calling_error_matrix', [cd, _n, 0])
    case('LowPass.calling_error_matrix.%d' % nsub_, nat_cem, sym_cem)

# --- the low-pass wrapper on two populations: ndarray.swapaxes, ndarray.dot, in-place *=, sum over simulated entries (precalculated matrices stubbed identically on both sides)
import dadi as _dadi
for trial in range(2):
    nsq, nsb = [2, 3], [1, 2]
    mdl = arr((3, 4))
    nocall_ = arr((3, 4), 0.0, 0.9)
    usim_ = [[False] * 4 for _ in range(3)]
    usim_[1][2] = True
    projs_ = [arr((3, 2)), arr((4, 3))]
    hets_ = [arr((2, 2)), arr((3, 3))]
    sim_ = arr((2, 3))

    def nat_lp():
        def pre(*a, **k):
            return (to_np(nocall_), np.array(usim_), [to_np(x) for x in projs_], [to_np(x) for x in hets_], {(1, 2): to_np(sim_)})
        old = _LP.low_cov_precalc_GATK_multisample_GATK_multisample
        _LP.low_cov_precalc_GATK_multisample_GATK_multisample = pre
        try:
            f_ = _LP.make_low_pass_func_GATK_multisample(lambda p_, ns_, pts_: _dadi.Spectrum(to_np(mdl), mask_corners=False), None, ['A', 'B'], nsq, nsb)
            return np.asarray(f_(None, [9, 9], None).data)
        finally:
            _LP.low_cov_precalc_GATK_multisample_GATK_multisample = old

    def sym_lp():
        def pol(fr_):
            if fr_.qualname == 'low_cov_precalc_GATK_multisample_GATK_multisample':
                def stub(ex_, f_, a, kw):
                    sims = VDict()
                    sims.d[(1, 2)] = to_v(sim_)
                    return (to_v(nocall_), to_v(usim_), VList([to_v(x) for x in projs_]), VList([to_v(x) for x in hets_]), sims)
                return stub
            return 'inline' if fr_.qualname == 'make_low_pass_func_GATK_multisample' else 'abstract'

        def mf(p_, ns_, pts_):
            v = to_v(mdl)
            v.attrs = dict(folded=False, extrap_x=None)
            return v
        ex_ = Executor(policy=pol)
        mk_ = ex_.func('dadi/LowPass/LowPass.py', 'make_low_pass_func_GATK_multisample')
        paths = ex_.explore(lambda e: e.call(e.call(mk_, [PyFn(mf, 'func'), None, VList(['A', 'B']), VList(list(nsq)), VList(list(nsb))], {}), [None, VList([9, 9]), None], {}))
        assert len(paths) == 1 and paths[0].outcome == 'return', paths
        return paths[0].value
    case('LowPass.lowpass_func.2pop.%d' % trial, nat_lp, sym_lp)

print('E2-vs-CPython cross-check: %d cases, %d mismatches (seed %d)' % (count[0], len(fails), seed))
for n_, why in fails:
    print('MISMATCH %s: %s' % (n_, why))
sys.exit(1 if fails else 0)
