#!/bin/bash
# Run every property's quick (or $1) check on the current tree, sequentially; print one line per property.
cd "$(dirname "$0")/.."
tier=${1:-quick}
rc=0
# checker self-test: the symbolic executor against CPython/numpy on the real functions (a mismatch is a fault of the checker, not of dadi)
for sd in 1 2; do
  out=$(.venv/bin/python tools/crosscheck_e2.py $sd 2>&1 | tail -n 3); echo "$out" | grep "cross-check\|MISMATCH" | cut -c1-250
  echo "$out" | grep -q " 0 mismatches" || rc=1
done
for i in $(seq -w 1 20); do
  out=$(./check C$i --tier $tier 2>&1); r=$?
  echo "C$i exit=$r $(echo "$out" | grep SUMMARY | cut -c1-220)"
  echo "$out" | grep "VIOLATION\|FAULT\|UNDECIDED" | cut -c1-250
  [ $r -ne 0 ] && rc=1
done
exit $rc
