#!/bin/bash
# Run every property's quick (or $1) check on the current tree, sequentially; print one line per property.
cd "$(dirname "$0")/.."
tier=${1:-quick}
rc=0
for i in $(seq -w 1 20); do
  out=$(./check C$i --tier $tier 2>&1); r=$?
  echo "C$i exit=$r $(echo "$out" | grep SUMMARY | cut -c1-220)"
  echo "$out" | grep "VIOLATION\|FAULT\|UNDECIDED" | cut -c1-250
  [ $r -ne 0 ] && rc=1
done
exit $rc
