"""Snapshot of every function / method defined in /repo/dadi/**/*.py (module-qualified names) at the time the contracts were written.
The symbolic executor abstracts a callee the contract does not inline ONLY if it is in this snapshot: a function that did not exist then
(a private helper extracted by a later refactor, a renamed function) is inlined instead, so that behaviour-preserving refactors do not
turn into alarms.  Regenerate only together with a review of the contracts:  .venv/bin/python tools/gen_known_functions.py"""
import os, sys, json, glob
HERE = os.path.dirname(os.path.dirname(os.path.abspath(__file__)))
sys.path.insert(0, HERE)
from vf.pyvc import ModInfo, REPO
names = []
for p in sorted(glob.glob(os.path.join(REPO, 'dadi', '**', '*.py'), recursive=True)):
    rel = os.path.relpath(p, REPO)
    try:
        mi = ModInfo.load(rel)
    except Exception as e:
        print('skip', rel, e)
        continue
    for q in mi.funcs:
        names.append('%s.%s' % (mi.name, q))
json.dump(dict(comment='module-qualified function names known to the contracts; see tools/gen_known_functions.py', functions=sorted(set(names))),
          open(os.path.join(HERE, 'contracts', 'known_functions.json'), 'w'), indent=0)
print(len(set(names)), 'functions')
