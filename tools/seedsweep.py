"""Apply every recorded seeded change in /verif/seeded to /repo in turn, run the property's quick check, revert; print which
obligations (proof vs bounded) report it.  Usage: tools/seedsweep.py [ids...]   (restores evidence/ afterwards)"""
import sys, os, subprocess, json, glob, time
ids = sys.argv[1:] or sorted(os.listdir('/verif/seeded'))
def run(cmd, **kw):
    return subprocess.run(cmd, shell=True, capture_output=True, text=True, **kw)
assert run('git -C /repo status --porcelain').stdout.strip() == '', 'repo not clean'
summary = {}
for sid in ids:
    d = '/verif/seeded/' + sid
    prop = sid.split('.')[0]
    ap = run('git -C /repo apply %s/patch.diff' % d)
    if ap.returncode != 0:
        summary[sid] = 'patch does not apply: ' + ap.stderr[-200:]
        continue
    try:
        t0 = time.time()
        c = run('cd /verif && ./check %s --tier quick' % prop, timeout=3600)
        v = [l for l in c.stdout.split('\n') if l.startswith('VIOLATION')]
        proof = [l.split('obligation=')[1][:110] for l in v if '/bounded/' not in l]
        bnd = [l.split('obligation=')[1][:80] for l in v if '/bounded/' in l]
        summary[sid] = dict(exit=c.returncode, proof=proof[:4], n_proof=len(proof), bounded=bnd[:3], n_bounded=len(bnd), wall=round(time.time() - t0))
        m = json.load(open(d + '/meta.json'))
        m['detected_by'] = dict(exit=c.returncode, proof_obligations=proof[:6], bounded_drivers=bnd[:6])
        json.dump(m, open(d + '/meta.json', 'w'), indent=1)
    finally:
        run('git -C /repo checkout -- .')
    print(sid, json.dumps(summary[sid])[:700], flush=True)
run('cd /verif && git checkout -- evidence')
missed = [s for s, v in summary.items() if not isinstance(v, dict) or v['exit'] != 1]
print('MISSED:', missed)
