"""Print the section-0 status table of DESIGN.md from evidence/*.json (numbers) and the texts below (what the obligations cover)."""
import json, os, sys
HERE = os.path.dirname(os.path.dirname(os.path.abspath(__file__)))
COVERS = {
 'C01': 'closed forms of `phi_1D_snm`, `phi_1D_genic` (interior, both regimes), dispatch h=0.5 -> genic, gamma=0 -> snm incl. beta; the 1-D kernel `implicit_1Dx` against the shared C contracts (V with beta, M, delj, a/b/c, solve, frame, bounds); one step of `one_pop` (influx then kernel, dt rule); `_one_pop_const_params` system (n=4)',
 'C02': 'contracts + lemmas for all of `integration_shared.c`, `tridiag.c`; 15 per-axis + 5 precalc kernels (system, frame, bounds); `Integration.py` one-step wiring of `one_pop..five_pops`; `_one_pop_const_params` (n=4,5) and `_two_pops_const_params` (3x3 grid, frozen variants) entry-wise equal to the kernel system with `_compute_delj` by contract; Python `_compute_delj` closed form; `.pyx` argument order',
 'C03': 'rescaling lemmas over the C contracts (V, M, delj, a/b/c), `_compute_dt` on every path pair, each population\'s own (nu, m, gamma, h) handed to the step rule (1-5 D), influx amount = dt*theta0/2 per mutating population in trapezoid units for every flag pattern (1-5 D), the 1-D and 2-D constant drivers build their system from V, M, Delta and delj *of the swept population*, `ensure_1arg_func`',
 'C04': '`Delta_k w_k = 1`, weighted column sums vanish, influx support and amount for every flag pattern (1-5 D), frozen+migration guard iff (2-5 D), absorbing-term placement / frame / line-digit clauses of every kernel',
 'C05': '`Numerics.trapz` rule; `_from_phi_1D_direct` / `_2D_direct` entry-wise + total = trapezoid mass; `_from_phi_1D_analytic`, `cached_dbeta`, `_from_phi_{2,3,4,5}D_linalg` = tensor product of the exact piecewise-linear sampling operator with each axis\'s own sample size (betainc uninterpreted); `_from_phi_{2,3,4}D_admix_props` executed with a symbolic proportion matrix; `from_phi` dispatch, arguments, labels, extrap_x (1-4 D); inbreeding argument roles',
 'C06': 'deposition law of `_admixture_intermediates` (n=3,4,5), destination-grid/axis roles of the 14 pulse functions, every pulse function and every new-population constructor *executed* on a 2-point-per-axis grid against the bracket-deposition (+ trapezoid) spec (helper by abstract result, fractions in population order); `reorder_pops`, `remove_pop`, `filter_pops` on phi incl. mass conservation',
 'C07': 'Lagrange exactness k=2..6, dispatch of `make_extrap_func` (k=1..7, positional/keyword, log), fallback source',
 'C08': 'memo key injective, window = hypergeometric support, weight formula (gammaln axiom), refusal guards and fold wrapping of `project`; `_project_one_axis` entry-wise and mask-wise on 1-3-D shapes (weights by contract)',
 'C09': '`fold`/`unfold` entry-wise and mask-wise with every entry and mask bit symbolic (n=4, 5, (2,3)): total conserved, mirror-invariant, fold(unfold(fold x)) = fold x incl. masks, folded input refused; operator folding guard (iff); misidentification mix and wrapper',
 'C10': '`reorder_pops` for every permutation of 2-4 populations; `combine_two_pops`, `Misc.combine_pops`, `marginalize` (any `over` order), `filter_pops`, `scramble_pop_ids` by explicit index arithmetic incl. labels, masks, totals',
 'C11': '`ll_per_bin` formula and auto-fold on all paths, `ll`, `ll_multinom`, `optimal_sfs_scaling`, linear and Anscombe residuals (formula, sign, mask rule); lemma: the optimal scaling maximises the Poisson likelihood (log axioms listed)',
 'C12': 'all optimiser wrappers + `NLopt_mod.opt` (log transform of bounds/start/result, fixed parameters) + `_object_func` bound check + `perturb_params`',
 'C13': '`count_data_dict` classification; `_from_count_dict` = sum of count x outer product of projections (polarized filter / fold); `fragment_data_dict` partition and chunk windows for every chunk size in a range; `bootstraps_from_dd_chunks`; S/pi/Watterson/theta_L/Tajima_D closed forms; Fst = Weir-Cockerham with exact rational coefficients; S() frame',
 'C14': 'pickle wiring; `to_file`: header text, logical (C-order) data and mask lines, format strings, gzip/plain open mode, close; `from_file` on the same header text (new, label-free and pre-1.3 formats): metadata round trip; generic `array_to_file` / `array_from_file`',
 'C15': '107 models well-formed, every parameter used, nesting table incl. last epochs, integrator axioms',
 'C16': '`_sizes_at_time`, `_make_nu_func`, `_get_integration_parameters` (T, 2 Ne m, frozen flags, epoch order), `_migration_rate_in_interval`, `_integrate_phi` argument map 1-5 D, `_admix_phi` / `_admix_new_pop_phi` / `_split_phi` for every destination and source order (2-5 demes), `_apply_event` dispatch and deme order, name inheritance of the export through Split/Remove/Reorder',
 'C17': '`PDFs.c:biv_lognormal`; `Cache1D.integrate`, `integrate_point_pos`; `Cache2D.integrate`: interior double trapezoid + the four edge marginals + three corner integrals with the documented integrand/range of every quad/dblquad call (asymmetric and symmetric shortcut; the missing both-deleterious corner is a known finding); `Vourlaki_mixture` as an exact linear combination of cached quantities',
 'C18': '`split_list_by_lengths`, `projection_inbreeding` (subsets with multiplicity), `probability_enough_individuals_covered` (binomial tail), `projection_matrix` rows (F=0 / F!=0), `probability_of_no_call_1D_GATK_multisample` closed form + definedness (no division by a quantity that can vanish), `part_inbreeding_probability` (multinomial x beta-binomial weights), memo keys',
 'C19': 'all stencils exact on every path, step rule, frame, definite assignment, multinom augmentation, `get_godambe` assembly (linear and log parameters, per-bootstrap theta adjustment), LRT/Wald/score formulas, mixture chi-square',
 'C20': 'integrators work on a fresh C-contiguous copy and a contiguous grid (syntactic dataflow), memo keys of 6 caches injective, `perturb_params` frame, frame clauses of all 20 compiled kernels, `S()` mask frame',
}
rows = []
for i in range(1, 21):
    pid = 'C%02d' % i
    d = json.load(open(os.path.join(HERE, 'evidence', pid + '.json')))
    cov = d.get('coverage', {})
    b = cov.get('bounded', {})
    drv = b.get('drivers', [])
    ev = sum(x.get('evaluations', 0) for x in drv) if drv else b.get('evaluations', 0)
    fu = cov.get('functions_under_contract', [])
    rows.append('| %s | %s | %s | %s | %s | %d / %s |' % (pid, d.get('level'), cov.get('discharged'), len(fu) if isinstance(fu, list) else fu, COVERS[pid], len(drv), ('%.1fk' % (ev / 1000.0)) if ev >= 1000 else ev))
print('| id | level | P | functions under contract | what P covers | B drivers / evaluations |')
print('|---|---|---|---|---|---|')
print('\n'.join(rows))
