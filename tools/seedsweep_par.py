"""Parallel version of tools/seedsweep.py: the recorded seeded changes are applied to scratch worktrees of /repo (one per worker, under /tmp,
removed afterwards) and the property's quick check is run against that worktree (DADI_REPO), so /repo itself is never touched.  All seeds of one
property go to the same worker (evidence/<id>.json and out/replay/<id>/ are per property).
Usage: tools/seedsweep_par.py [--workers=N] [--corpus=seeded|benign] [ids...]      (restores evidence/ and out/replay afterwards)
With --corpus=benign the behaviour-preserving refactors of /verif/benign are applied instead and every check must exit 0 without a VIOLATION line."""
import sys, os, subprocess, json, time, shutil, threading
args = [a for a in sys.argv[1:] if not a.startswith('--')]
opts = dict(a[2:].split('=') for a in sys.argv[1:] if a.startswith('--') and '=' in a)
NW = int(opts.get('workers', 4))
CORPUS = opts.get('corpus', 'seeded')
BASE = os.path.dirname(os.path.dirname(os.path.abspath(__file__)))      # the checkout this script lives in (a `vp run` snapshot sweeps with its own evidence/ and out/)
ids = args or sorted(os.listdir(BASE + '/' + CORPUS))
COST = dict(C02=95, C03=60, C04=45, C05=70, C01=30, C19=35, C07=10, C09=25, C16=15, C15=20, C17=25)


def run(cmd, **kw):
    return subprocess.run(cmd, shell=True, capture_output=True, text=True, **kw)


groups = {}
for sid in ids:
    groups.setdefault(sid.split('.')[0], []).append(sid)
order = sorted(groups, key=lambda p: -COST.get(p, 12) * len(groups[p]))
buckets = [[] for _ in range(NW)]
load = [0] * NW
for p in order:
    k = load.index(min(load))
    buckets[k].append(p)
    load[k] += COST.get(p, 12) * len(groups[p])
summary = {}
lock = threading.Lock()


def worker(k):
    d = '/tmp/sweepwt_%s_%d_%d' % (CORPUS, os.getpid(), k)
    run('git -C /repo worktree remove --force %s' % d)
    r = run('git -C /repo worktree add -q --detach %s HEAD' % d)
    if r.returncode != 0:
        with lock:
            print('worker %d: worktree failed: %s' % (k, r.stderr[-300:]), flush=True)
        return
    # ignored build products (stock extension modules of sub-packages the overlay links as they are)
    run("cd /repo && git status --porcelain --ignored | grep '^!! ' | cut -c4- | grep -v '__pycache__\\|egg-info\\|test.fs' | "
        "while read f; do mkdir -p %s/$(dirname $f); cp -pr \"$f\" \"%s/$f\" 2>/dev/null; done" % (d, d))
    try:
        for p in buckets[k]:
            for sid in groups[p]:
                sd = '%s/%s/%s' % (BASE, CORPUS, sid)
                ap = run('git -C %s apply %s/patch.diff' % (d, sd))
                if ap.returncode != 0:
                    with lock:
                        summary[sid] = 'patch does not apply: ' + ap.stderr[-200:]
                        print(sid, summary[sid], flush=True)
                    continue
                try:
                    t0 = time.time()
                    c = run('cd %s && DADI_REPO=%s ./check %s --tier quick' % (BASE, d, p), timeout=5400)
                    v = [l for l in c.stdout.split('\n') if l.startswith('VIOLATION')]
                    proof = [l.split('obligation=')[1][:110] for l in v if '/bounded/' not in l]
                    bnd = [l.split('obligation=')[1][:80] for l in v if '/bounded/' in l]
                    res = dict(exit=c.returncode, proof=proof[:4], n_proof=len(proof), bounded=bnd[:3], n_bounded=len(bnd), wall=round(time.time() - t0))
                    if CORPUS == 'seeded':
                        m = json.load(open(sd + '/meta.json'))
                        m['detected_by'] = dict(exit=c.returncode, proof_obligations=proof[:6], bounded_drivers=bnd[:6])
                        json.dump(m, open(sd + '/meta.json', 'w'), indent=1)
                    else:
                        res['other'] = [l[:200] for l in c.stdout.split('\n') if l.startswith(('UNDECIDED', 'CHECKER-FAULT'))][:4]
                except subprocess.TimeoutExpired:
                    res = 'check timed out'
                finally:
                    run('git -C %s checkout -- .' % d)
                with lock:
                    summary[sid] = res
                    print(sid, json.dumps(res)[:600], flush=True)
    finally:
        run('git -C /repo worktree remove --force %s' % d)
        shutil.rmtree(d, ignore_errors=True)


ths = [threading.Thread(target=worker, args=(k,)) for k in range(NW) if buckets[k]]
for t in ths:
    t.start()
for t in ths:
    t.join()
run('git -C /repo worktree prune')
run('cd %s && git checkout -- evidence out/replay; git clean -fdq out/replay' % BASE)
if CORPUS == 'seeded':
    missed = [s for s in ids if not isinstance(summary.get(s), dict) or summary[s]['exit'] != 1]
    noproof = [s for s in ids if isinstance(summary.get(s), dict) and summary[s]['exit'] == 1 and summary[s]['n_proof'] == 0]
    print('MISSED:', missed)
    print('BOUNDED-ONLY:', noproof)
else:
    print('NOT OK:', [s for s in ids if not isinstance(summary.get(s), dict) or summary[s]['exit'] != 0 or summary[s]['n_proof'] or summary[s]['n_bounded']])
