"""Evaluate one seeded change: tools/seedcheck.py <ID> [patchname] [demoname] [--props C05,C08]
 1. demo on unpatched /repo must exit 0; demo on the agent's patched worktree must exit 1;
 2. apply the patch to /repo, run ./check <prop> --tier quick for the property (and any extra), record exit codes and VIOLATION lines;
 3. revert /repo (git checkout -- .).
Writes /verif/seeded/<ID>[.n]/{patch.diff,demo.py,meta.json} when confirmed."""
import sys, os, subprocess, json, shutil, time
ID = sys.argv[1]
patch = sys.argv[2] if len(sys.argv) > 2 and not sys.argv[2].startswith('--') else 'patch.diff'
demo = sys.argv[3] if len(sys.argv) > 3 and not sys.argv[3].startswith('--') else 'demo.py'
props = [ID]
for a in sys.argv:
    if a.startswith('--props'):
        props = a.split('=')[1].split(',')
rnd = ''
for a in sys.argv:
    if a.startswith('--round'):
        rnd = a.split('=')[1]
src = '/tmp/seed%s_out/%s' % (rnd, ID)
wt = '/tmp/seed%s_%s' % (rnd, ID)
def run(cmd, **kw):
    return subprocess.run(cmd, shell=True, capture_output=True, text=True, **kw)
st = run('git -C /repo status --porcelain')
assert st.stdout.strip() == '', 'repo not clean: ' + st.stdout
res = dict(id=ID, patch=patch)
r0 = run('/venv/bin/python %s/%s /repo' % (src, demo), timeout=1800)
res['demo_unpatched_exit'] = r0.returncode
r1 = run('/venv/bin/python %s/%s %s' % (src, demo, wt), timeout=1800)
res['demo_patched_exit_in_worktree'] = r1.returncode
res['demo_patched_msg'] = (r1.stdout + r1.stderr)[-400:]
ap = run('git -C /repo apply --check %s/%s' % (src, patch))
if ap.returncode != 0:
    ap3 = run('git -C /repo apply -3 %s/%s' % (src, patch))
    res['apply'] = 'three-way' if ap3.returncode == 0 else 'FAILED: ' + ap.stderr[-300:]
    if ap3.returncode != 0:
        run('git -C /repo checkout -- . ; git -C /repo reset -q')
        print(json.dumps(res, indent=1)); sys.exit(2)
    run('git -C /repo reset -q')
else:
    run('git -C /repo apply %s/%s' % (src, patch))
    res['apply'] = 'clean'
try:
    res['diffstat'] = run('git -C /repo diff --stat').stdout.strip().split('\n')[-1]
    rd = run('/venv/bin/python %s/%s /repo' % (src, demo), timeout=1800)
    res['demo_on_patched_repo_exit'] = rd.returncode   # python-only patches: should be 1 (C patches need the .so rebuilt: may stay 0)
    res['checks'] = {}
    for p in props:
        t0 = time.time()
        c = run('cd /verif && ./check %s --tier quick' % p, timeout=3600)
        lines = [l for l in c.stdout.split('\n') if l.startswith(('VIOLATION', 'UNDECIDED', 'CHECKER-FAULT', 'SUMMARY'))]
        res['checks'][p] = dict(exit=c.returncode, wall=round(time.time() - t0, 1), lines=[l[:300] for l in lines[:12]])
finally:
    run('git -C /repo checkout -- .')
    assert run('git -C /repo status --porcelain').stdout.strip() == ''
print(json.dumps(res, indent=1))
out = '/verif/seeded/%s%s%s' % (ID, '' if patch == 'patch.diff' else '.' + patch.replace('.diff', '').replace('patch', 'p'), '.r' + rnd if rnd else '')
ok = res['demo_unpatched_exit'] == 0 and res['demo_patched_exit_in_worktree'] == 1
if ok:
    os.makedirs(out, exist_ok=True)
    shutil.copy(os.path.join(src, patch), os.path.join(out, 'patch.diff'))
    shutil.copy(os.path.join(src, demo), os.path.join(out, 'demo.py'))
    meta = {}
    try:
        meta = json.load(open(os.path.join(src, 'meta.json')))
    except Exception:
        pass
    meta['confirmed'] = dict(demo_unpatched_exit=res['demo_unpatched_exit'], demo_patched_exit=res['demo_patched_exit_in_worktree'],
                             applied_to_repo=res['apply'], what_ran='tools/seedcheck.py: demo on /repo (unpatched) and on the scratch worktree (patched); patch applied to /repo, ./check run, reverted')
    meta['detected_by'] = {p: dict(exit=v['exit'], violations=[l for l in v['lines'] if l.startswith('VIOLATION')][:6]) for p, v in res['checks'].items()}
    json.dump(meta, open(os.path.join(out, 'meta.json'), 'w'), indent=1)
    print('recorded in', out)
