"""Regenerate MANIFEST.json from props/*.py (MANIFEST_ENTRY dicts) - keeps the manifest valid at all times."""
import json, os, sys, importlib
sys.path.insert(0, os.path.dirname(os.path.dirname(os.path.abspath(__file__))))
PROPS = ['C%02d' % i for i in range(1, 21)]
checks, na = [], []
NA_REASONS = json.load(open(os.path.join(os.path.dirname(__file__), 'not_applicable.json')))
for p in PROPS:
    path = os.path.join(os.path.dirname(os.path.dirname(os.path.abspath(__file__))), 'props', p + '.py')
    if not os.path.exists(path):
        na.append(dict(property_id=p, reason=NA_REASONS.get(p, 'no check built yet for this property (work in progress); not claimed')))
        continue
    m = importlib.import_module('props.' + p)
    e = m.MANIFEST_ENTRY
    checks.append(dict(
        property_id=p,
        quick_cmd='./check %s --tier quick' % p,
        thorough_cmd='./check %s --tier thorough' % p,
        evidence_file='evidence/%s.json' % p,
        replay_cmd_template='./check %s --replay {path}' % p,
        engine=e.get('engine', 'pyvc'),
        level_claimed=dict(category=e['category'], text=e['text'], design_ref=e.get('design_ref', 'DESIGN.md 7 ' + p)),
        level_note=e['note'],
        technique=e['technique'],
    ))
man = dict(
    version=1,
    setup_cmd='./setup.sh',
    hooks=dict(guard='DADI_VERIF', enable='no hooks: all contracts are sidecars under /verif; /repo carries only fix: commits',
               baseline_off_cmd='cd /repo && /venv/bin/python -m pytest -ra -q -p no:cacheprovider --timeout=900 --continue-on-collection-errors',
               source_commits=[], add_only=True),
    engines=[
        dict(name='pyvc', path='vf/pyvc.py', serves_properties=[c['property_id'] for c in checks],
             kind_free_text='symbolic executor over the real Python AST -> z3/cvc5 obligations, program-algebra terms, frame/typestate obligations'),
        dict(name='cvc', path='vf/cvc.py', serves_properties=['C02', 'C03', 'C04', 'C17'],
             kind_free_text='clang JSON AST of the real C kernels -> z3 obligations with loop invariants from sidecars'),
        dict(name='polyring', path='vf/polyring.py', serves_properties=['C07', 'C19'],
             kind_free_text='exact rational-function normaliser (ring normal form, factored denominators) for identities z3 NRA times out on'),
        dict(name='bounded', path='props/', serves_properties=[c['property_id'] for c in checks],
             kind_free_text='run-time contracts on the real functions over a stated bounded domain (stand-in, never counted as proved)'),
    ],
    checks=checks,
    not_applicable=na,
    notes='Contract-based deductive verification; see DESIGN.md. Exit codes: 0 held, 1 violation, 2 undecided, 3 checker fault.',
)
json.dump(man, open(os.path.join(os.path.dirname(os.path.dirname(os.path.abspath(__file__))), 'MANIFEST.json'), 'w'), indent=1)
import jsonschema
jsonschema.validate(man, json.load(open('/root/.vp/MANIFEST.schema.json')))
print('MANIFEST.json: %d checks, %d not_applicable' % (len(checks), len(na)))
