"""Apply each behaviour-preserving refactor in /tmp/benign_out/<ID>/patch.diff (or /verif/benign/<ID>/patch.diff) to /repo, run the property's
quick check - which must exit 0 with no VIOLATION line -, revert.  Usage: tools/benigncheck.py [ids...]"""
import sys, os, subprocess, json, time
srcdir = None
args = []
for a in sys.argv[1:]:
    if a.startswith('--src='):
        srcdir = a.split('=', 1)[1]
    else:
        args.append(a)
ids = args or (sorted(os.listdir('/verif/benign')) if not srcdir else ['C%02d' % i for i in range(1, 21)])
def run(cmd, **kw):
    return subprocess.run(cmd, shell=True, capture_output=True, text=True, **kw)
assert run('git -C /repo status --porcelain').stdout.strip() == '', 'repo not clean'
bad = []
for pid in ids:
    src = ('%s/%s' % (srcdir, pid)) if srcdir else ('/verif/benign/%s' % pid if os.path.exists('/verif/benign/%s/patch.diff' % pid) else '/tmp/benign_out/%s' % pid)
    if not os.path.exists(src + '/patch.diff'):
        print(pid, 'no patch'); continue
    ap = run('git -C /repo apply %s/patch.diff' % src)
    if ap.returncode != 0:
        print(pid, 'patch does not apply:', ap.stderr[-200:]); bad.append(pid); continue
    try:
        t0 = time.time()
        c = run('cd /verif && ./check %s --tier quick' % pid.split('.')[0], timeout=3600)
        lines = [l for l in c.stdout.split('\n') if l.startswith(('VIOLATION', 'UNDECIDED', 'CHECKER-FAULT', 'SUMMARY'))]
        ok = c.returncode == 0 and not any(l.startswith('VIOLATION') for l in lines)
        print(pid, 'exit', c.returncode, 'OK' if ok else 'FALSE-ALARM', round(time.time() - t0), [l[:230] for l in lines if not l.startswith('SUMMARY')][:6], flush=True)
        if not ok:
            bad.append(pid)
    finally:
        run('git -C /repo checkout -- .')
run('cd /verif && git checkout -- evidence')
print('NOT OK:', bad)
