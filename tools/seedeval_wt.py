"""Evaluate seeded changes of one round on the sub-agents' scratch worktrees (the patch is applied there; /repo is never touched):
   tools/seedeval_wt.py --round=8 [--tests] C01 C02 ...
 1. the worktree's diff must be the delivered patch (git apply -R --check);  2. demo on /repo (unpatched) must exit 0, on the worktree 1;
 3. with --tests the project's test suite is run in the worktree;  4. DADI_REPO=<worktree> ./check <id> --tier quick.
Records /verif/seeded/<ID>.r<round>/{patch.diff,demo.py,meta.json}.  Several ids run in parallel (evidence files are per property)."""
import sys, os, subprocess, json, shutil, time, threading
ids = [a for a in sys.argv[1:] if not a.startswith('--')]
opts = dict((a[2:].split('=') + ['1'])[:2] for a in sys.argv[1:] if a.startswith('--'))
rnd = opts['round']
NW = int(opts.get('workers', 5))
lock = threading.Lock()
sem = threading.Semaphore(NW)


def run(cmd, **kw):
    return subprocess.run(cmd, shell=True, capture_output=True, text=True, **kw)


def one(ID):
    with sem:
        src, wt = '/tmp/seed%s_out/%s' % (rnd, ID), '/tmp/seed%s_%s' % (rnd, ID)
        res = dict(id=ID)
        res['worktree_is_patch'] = run('git -C %s apply -R --check %s/patch.diff' % (wt, src)).returncode == 0
        res['applies_to_repo'] = run('git -C /repo apply --check %s/patch.diff' % src).returncode == 0
        res['demo_unpatched_exit'] = run('/venv/bin/python %s/demo.py /repo' % src, timeout=1800).returncode
        r1 = run('/venv/bin/python %s/demo.py %s' % (src, wt), timeout=1800)
        res['demo_patched_exit'] = r1.returncode
        res['demo_msg'] = (r1.stdout + r1.stderr)[-300:]
        if 'tests' in opts:
            t = run('cd %s && /venv/bin/python -m pytest -q -p no:cacheprovider --timeout=900 2>&1 | tail -1' % wt, timeout=3000)
            res['tests'] = t.stdout.strip()[-120:]
        t0 = time.time()
        c = run('cd /verif && DADI_REPO=%s ./check %s --tier quick' % (wt, ID), timeout=5400)
        v = [l for l in c.stdout.split('\n') if l.startswith('VIOLATION')]
        proof = [l.split('obligation=')[1][:130] for l in v if '/bounded/' not in l and 'obligation=' in l]
        bnd = [l.split('obligation=')[1][:90] for l in v if '/bounded/' in l]
        res['check'] = dict(exit=c.returncode, n_proof=len(proof), proof=proof[:5], n_bounded=len(bnd), bounded=bnd[:4], wall=round(time.time() - t0),
                            other=[l[:200] for l in c.stdout.split('\n') if l.startswith(('UNDECIDED', 'CHECKER-FAULT'))][:4])
        ok = res['demo_unpatched_exit'] == 0 and res['demo_patched_exit'] == 1 and res['worktree_is_patch'] and res['applies_to_repo']
        if ok:
            out = '/verif/seeded/%s.r%s' % (ID, rnd)
            os.makedirs(out, exist_ok=True)
            shutil.copy(src + '/patch.diff', out + '/patch.diff')
            shutil.copy(src + '/demo.py', out + '/demo.py')
            try:
                meta = json.load(open(src + '/meta.json'))
            except Exception:
                meta = {}
            prev = {}
            try:
                prev = json.load(open(out + '/meta.json')).get('confirmed', {})
            except Exception:
                pass
            meta['confirmed'] = dict(demo_unpatched_exit=0, demo_patched_exit=1, tests=res.get('tests') or prev.get('tests') or 'as run by the author of the change', patch_applies_to_repo='clean',
                                     what_ran='tools/seedeval_wt.py: demo on /repo (unpatched) and on the scratch worktree carrying exactly this patch; test suite in that worktree; ./check with DADI_REPO=<worktree>')
            meta['detected_by'] = dict(exit=c.returncode, proof_obligations=proof[:6], bounded_drivers=bnd[:6])
            json.dump(meta, open(out + '/meta.json', 'w'), indent=1)
        with lock:
            print(json.dumps(res)[:1500], flush=True)


ths = [threading.Thread(target=one, args=(i,)) for i in ids]
for t in ths:
    t.start()
for t in ths:
    t.join()
