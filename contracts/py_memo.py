"""Memo transparency: the key under which a memoised function stores its result determines every argument the
result depends on (so a hit can never return another argument tuple's value).

   forall a, b in the parameter domain:  key(a) == key(b)  ==>  a == b

The key is obtained by symbolically executing the real function up to its first access of the module-level cache."""
import z3
from vf.core import R
from vf import smt
from vf.helpers import prove, struct
from vf.pyvc import Executor, MemoProbe, MemoHit, ModInfo, VList, Tm, vrepr, to_z3, Unsupported, PyRaise


def key_of(relpath, fname, cache, args):
    ex = Executor()
    f = ex.func(relpath, fname)
    ex.module_overrides[(f.mod.name, cache)] = MemoProbe()
    out = {}

    def thunk(ex_):
        try:
            ex_.apply(f.node, None, f.mod, list(args), {}, fname)
        except MemoHit as h:
            out['key'] = h.key
        return None
    ex.explore(thunk)
    return out.get('key')


def flat(v):
    if isinstance(v, (tuple, list)):
        r = []
        for x in v:
            r += flat(x)
        return r
    if isinstance(v, VList):
        return flat(v.items)
    return [v]


def memo_obligation(pid, relpath, fname, cache, params, domain=None, seq_param=None, seq_len=3):
    """params: list of (name, 'int'|'real').  seq_param: a parameter that is a sequence (modelled with seq_len elements)."""
    oid = '%s/%s:%s/memo-key-determines-arguments' % (pid, relpath.split('/')[-1], fname)
    fn = '%s::%s' % (relpath, fname)
    try:
        def mk(tag):
            vals = []
            for n, t in params:
                if n == seq_param:
                    mkc = z3.Int if t == 'seq' else z3.Real
                    vals.append(VList([mkc('%s%s_%d' % (n, tag, i)) for i in range(seq_len)], 'ndarray'))
                else:
                    vals.append(z3.Int(n + tag) if t == 'int' else z3.Real(n + tag))
            return vals
        a, b = mk('!a'), mk('!b')
        ka, kb = key_of(relpath, fname, cache, a), key_of(relpath, fname, cache, b)
        if ka is None or kb is None:
            return [struct(oid, False, 'no access to %s found on any path' % cache, fn, undecided=True)]
        fa, fb = flat(ka), flat(kb)
        if len(fa) != len(fb) or any(not isinstance(x, z3.ExprRef) for x in fa + fb):
            return [struct(oid, False, 'key is not a tuple of scalars: %s' % vrepr(ka), fn, undecided=True)]
        same_key = z3.And(*[x == y for x, y in zip(fa, fb)])
        pa, pb = flat(a), flat(b)
        same_args = z3.And(*[x == y for x, y in zip(pa, pb)])
        hy = [same_key]
        for x in pa + pb:
            if z3.is_int(x):
                hy.append(x >= 0)
        if domain:
            hy += domain(a) + domain(b)

        def replay(model):
            """native: call f(a) then f(b) (same key): the second call must equal f(b) computed with an empty cache"""
            try:
                import importlib, numpy
                from vf.helpers import _frac
                mod = importlib.import_module(relpath[:-3].replace('/', '.'))
                f, c = getattr(mod, fname), getattr(mod, cache)

                def val(sym):
                    v = model.get(str(sym))
                    q = _frac(v) if v is not None else 1
                    return int(q) if q.denominator == 1 else float(q)

                def args(vs):
                    return [[val(x) for x in v.items] if isinstance(v, VList) else val(v) for v in vs]
                A, B = args(a), args(b)

                def norm(v):
                    # structural value of a result: nested sequences / arrays as nested lists (ragged results and tuples of lists included)
                    if isinstance(v, numpy.ndarray):
                        return norm(v.tolist())
                    if isinstance(v, (list, tuple)):
                        return [norm(x) for x in v]
                    if isinstance(v, (float, numpy.floating)):
                        return float('%.12g' % float(v))
                    if isinstance(v, (int, numpy.integer)):
                        return int(v)
                    return repr(v)
                c.clear()
                try:
                    f(*A)
                except Exception:
                    pass
                try:
                    second = norm(f(*B))
                except Exception as e:
                    second = 'raises ' + repr(e)
                c.clear()
                try:
                    clean = norm(f(*B))
                except Exception as e:
                    clean = 'raises ' + repr(e)
                c.clear()
                same = second == clean
                return dict(replayed=True, inputs=dict(first_call=A, second_call=B), second_call_after_first=str(second)[:200], second_call_alone=str(clean)[:200],
                            postcondition_holds_natively=bool(same))
            except Exception as e:
                return dict(replayed=False, error=repr(e)[:300])
        r = prove(oid, hy, same_args, func=fn, timeout_ms=20000, replay=replay, finding_key='%s/memo-key/%s' % (pid, fname))
        r['detail'] = 'key = %s; ' % vrepr(ka) + r['detail']
        return [r]
    except (Unsupported, PyRaise, KeyError) as e:
        return [R(oid, 'proof', 'undecided', detail='%r' % e, func=fn)]


def _dom_projection(v):
    to, fr, hits = v
    return [to >= 1, to <= fr, fr <= 400, hits >= 0, hits <= fr]


DOMAINS = {'_cached_projection': _dom_projection}

MEMOS = [
    ('dadi/Numerics.py', '_cached_projection', '_projection_cache', [('proj_to', 'int'), ('proj_from', 'int'), ('hits', 'int')], None),
    ('dadi/Numerics.py', 'multinomln', '_multinomln_cache', [('N', 'seq')], 'N'),
    ('dadi/Numerics.py', 'BetaBinomln', '_BetaBinomln_cache', [('i', 'int'), ('n', 'int'), ('a', 'real'), ('b', 'real')], None),
    ('dadi/Numerics.py', 'cached_part', '_part_cache', [('x', 'int'), ('n', 'int'), ('minval', 'int'), ('maxval', 'int')], None),
    ('dadi/Spectrum_mod.py', 'cached_dbeta', '_dbeta_cache', [('nx', 'int'), ('xx', 'realseq')], 'xx'),
    ('dadi/Numerics.py', 'cached_part_precalc', '_part_precalc_cache', [('x', 'int'), ('n', 'int'), ('minval', 'int'), ('maxval', 'int')], None),
]


def all_memo_obligations(pid, only=None):
    out = []
    for relpath, fname, cache, params, seq in MEMOS:
        if only and fname not in only:
            continue
        out += memo_obligation(pid, relpath, fname, cache, params, seq_param=seq, domain=DOMAINS.get(fname))
    return out
