"""Contracts and verification driver for the per-axis kernels implicit_{1..5}D{x,y,z,a,b} and
implicit_precalc_{2,3}D{x,y,z} (dadi/integration{1..5}D.c).

Postcondition (taken from property C02, not from the code), for every line of the swept axis p that the
kernel processes, with u = the line of phi after the call and phi_in the line before:

    pivots of the line's system non-zero  ==>
    for every k:  u_k/dt + Delta_k (F_{k+1/2}(u) - F_{k-1/2}(u)) + abs_k u_k  ==  phi_in_k/dt
      V_j       = x_j (1-x_j)/nu_p                              [1-D: times (beta+1)^2/(4 beta)]
      M(x)      = sum_{q != p} m_pq (coord_q - x) + 2 gamma_p x (1-x) (h_p + (1-2 h_p) x)      (m_pq: INTO p FROM q)
      F_{j+1/2} = M(xInt_j) (d_j u_j + (1-d_j) u_{j+1}) - (V_{j+1} u_{j+1} - V_j u_j)/(2 dx_j),  F_{-1/2} = F_{n-1/2} = 0
      d_j       = 1/2, or Chang-Cooper's weight of (M(xInt_j), V(xInt_j), dx_j) when use_delj_trick
      Delta_k   = 2/(dx_k + dx_{k-1}), 2/dx_0, 2/dx_{n-2} at the ends   (trapezoid weights: Delta_k w_k = 1)
      abs_0     = (1/(2 nu_p) - M(x_0)) 2/dx_0      iff every other coordinate == 0 and M(x_0) <= 0, else 0
      abs_{n-1} = (1/(2 nu_p) + M(x_{n-1})) 2/dx_{n-2}  iff every other coordinate == 1 and M(x_{n-1}) >= 0, else 0
    every entry of phi outside the processed lines is unchanged; all subscripts are in bounds.

The verification is modular: the kernel body is executed against the *contracts* of compute_dx/xInt/dfactor/
delj/abc_nobc and tridiag_premalloc; the flux form then follows from the two lemmas proved on those
contracts (compute_abc_nobc/lemma.flux-form, tridiag_premalloc/lemma.rows).  Line loops are handled by the
disjoint-line rule: the body is verified for an arbitrary line with every other line of phi and every
temporary havoc'd; it must write only its own line (LEMMA.rowmajor gives disjointness of distinct lines).
"""
import re, time
import z3
from fractions import Fraction
from vf.cvc import (CExec, State, Arr, Ptr, Oblig, ite, toreal, uf, CUnsupported, func_params, func_body, IntS, RealS)
from vf.core import R
from vf import smt
from vf.helpers import prove as _prove, prove_eq as _prove_eq

_FILTER = None      # when set (list of substrings), only obligations whose id matches are sent to the solvers (used by C04, which needs the
                    # absorbing-term and frame obligations of every kernel but not the rest of C02)


def prove(oid, *a, **k):
    if _FILTER and not any(s in oid for s in _FILTER):
        return R(oid, 'proof', 'skipped')
    return _prove(oid, *a, **k)


def prove_eq(oid, *a, **k):
    if _FILTER and not any(s in oid for s in _FILTER):
        return R(oid, 'proof', 'skipped')
    return _prove_eq(oid, *a, **k)
from contracts import c_shared as CS
from contracts.c_verify import _resolve

EXT = ['L', 'M', 'N', 'O', 'P']
GRID = ['xx', 'yy', 'zz', 'aa', 'bb']
AXIS = {'x': 0, 'y': 1, 'z': 2, 'a': 3, 'b': 4}


def kernel_list():
    out = [('dadi/integration1D.c', 'implicit_1Dx')]
    for K in (2, 3, 4, 5):
        for ax in 'xyzab'[:K]:
            out.append(('dadi/integration%dD.c' % K, 'implicit_%dD%s' % (K, ax)))
    for K in (2, 3):
        for ax in 'xyz'[:K]:
            out.append(('dadi/integration%dD.c' % K, 'implicit_precalc_%dD%s' % (K, ax)))
    return out


def _contains_call(n, name):
    if not isinstance(n, dict):
        return False
    if n.get('kind') == 'CallExpr':
        c = n['inner'][0]
        while c.get('kind') in ('ImplicitCastExpr', 'ParenExpr'):
            c = c['inner'][0]
        if c.get('referencedDecl', {}).get('name') == name:
            return True
    return any(_contains_call(c, name) for c in n.get('inner', []))


# which argument positions a callee writes through (from the contracts in c_shared.py); unknown callee => all pointers
CALLEE_OUTPUTS = dict(compute_dx=[2], compute_xInt=[2], compute_dfactor=[2], compute_delj=[4], compute_abc_nobc=[7, 8, 9],
                      tridiag_premalloc=[4], tridiag=[4], tridiag_malloc=[], tridiag_free=[], free=[], malloc=[],
                      Vfunc=[], Vfunc_beta=[], Mfunc1D=[], Mfunc2D=[], Mfunc3D=[], Mfunc4D=[], Mfunc5D=[], exp=[], pow=[])


def _assigned(n, out):
    """names assigned (scalars) or stored through (arrays) anywhere in a statement tree; callee outputs included"""
    if not isinstance(n, dict):
        return
    k = n.get('kind')
    if k in ('BinaryOperator', 'CompoundAssignOperator') and (n.get('opcode') == '=' or k == 'CompoundAssignOperator'):
        t = n['inner'][0]
        while t.get('kind') in ('ImplicitCastExpr', 'ParenExpr'):
            t = t['inner'][0]
        if t.get('kind') == 'DeclRefExpr':
            out.add(t['referencedDecl']['name'])
        elif t.get('kind') == 'ArraySubscriptExpr':
            b = t['inner'][0]
            while b.get('kind') in ('ImplicitCastExpr', 'ParenExpr'):
                b = b['inner'][0]
            if b.get('kind') == 'DeclRefExpr':
                out.add(b['referencedDecl']['name'])
    if k == 'UnaryOperator' and n.get('opcode') in ('++', '--'):
        t = n['inner'][0]
        if t.get('kind') == 'DeclRefExpr':
            out.add(t['referencedDecl']['name'])
    if k == 'CallExpr':
        cal = n['inner'][0]
        while cal.get('kind') in ('ImplicitCastExpr', 'ParenExpr'):
            cal = cal['inner'][0]
        cname = cal.get('referencedDecl', {}).get('name')
        outs_of = CALLEE_OUTPUTS.get(cname)
        for ai, a in enumerate(n['inner'][1:]):
            if outs_of is not None and ai not in outs_of:
                continue
            b = a
            while b.get('kind') in ('ImplicitCastExpr', 'ParenExpr'):
                b = b['inner'][0]
            if b.get('kind') == 'DeclRefExpr' and '*' in b.get('type', {}).get('qualType', ''):
                out.add(b['referencedDecl']['name'])     # conservatively: any array passed to a callee may be written
            if b.get('kind') == 'UnaryOperator' and b.get('opcode') == '&':
                s = b['inner'][0]
                while s.get('kind') in ('ImplicitCastExpr', 'ParenExpr'):
                    s = s['inner'][0]
                if s.get('kind') == 'ArraySubscriptExpr':
                    bb = s['inner'][0]
                    while bb.get('kind') in ('ImplicitCastExpr', 'ParenExpr'):
                        bb = bb['inner'][0]
                    out.add(bb['referencedDecl']['name'])
    for c in n.get('inner', []):
        _assigned(c, out)


class KernelCheck:
    def __init__(self, relpath, fname, pid='C02', only=None):
        self.relpath, self.fname = relpath, fname
        self.pid, self.only = pid, only
        m = re.match(r'implicit_(precalc_)?(\d)D([xyzab])$', fname)
        self.precalc = bool(m.group(1))
        self.K = int(m.group(2))
        self.p = AXIS[m.group(3)]           # swept axis (0-based)
        self.oid = '%s/%s:%s' % (self.pid, relpath.split('/')[-1], fname)
        self.fn = '%s::%s' % (relpath, fname)
        self.results = []
        self.lines = []                     # per-line records
        self.ranges = []

    # ---- driver
    def run(self):
        global _FILTER
        t0 = time.time()
        _FILTER = self.only
        try:
            self._run()
        except CUnsupported as e:
            return [R(self.oid, 'proof', 'undecided', detail='outside the C subset / contract no longer matches: %s' % e, func=self.fn,
                      seconds=time.time() - t0)]
        except KeyError as e:
            return [R(self.oid, 'proof', 'undecided', detail='contract no longer matches the source (missing %s)' % e, func=self.fn)]
        return [r for r in self.results if r['verdict'] != 'skipped' and (not self.only or any(s in r['id'] for s in self.only))]

    def _run(self):
        contracts = dict(CS.CONTRACTS)
        self.snaps = {}
        contracts['compute_delj'] = self.snap_contract('compute_delj', ['dx', 'MInt', 'VInt', None, 'delj', None], ['delj'], {'N': 3, 'use_delj_trick': 5})
        contracts['compute_abc_nobc'] = self.snap_contract('compute_abc_nobc', ['dx', 'dfactor', 'delj', 'MInt', 'V', None, None, 'a', 'b', 'c'], ['a', 'b', 'c'],
                                                           {'dt': 5, 'N': 6})
        ex = CExec([CS.SHARED, CS.TRIDIAG, self.relpath], contracts=contracts, loop_handler=self.loop_handler)
        self.ex = ex
        fd = ex.funcs[self.fname][1]
        params = func_params(fd)
        names = [n for n, _ in params]
        K = self.K
        ext = [z3.Int(e) for e in EXT[:K]]
        st = State()
        hyps = []
        for n, ty in params:
            if n == 'phi' or (self.precalc and re.match(r'[abc][xyz]$', n)):
                st.env[n] = st.new_arr(n, shape=tuple(ext) if K > 1 else None, length=ext[0] if K == 1 else None)
            elif '*' in ty:
                if n not in GRID[:K]:
                    raise CUnsupported('unexpected pointer parameter %s' % n)
                st.env[n] = st.new_arr(n, length=ext[GRID.index(n)])
            elif ty == 'double':
                st.env[n] = z3.Real(n)
            else:
                st.env[n] = z3.Int(n)
        self.ext = ext
        hyps += [e >= 2 for e in ext]
        for a, b, e in (('Mstart', 'Mend', 1), ('Lstart', 'Lend', 0)):
            if a in names:
                hyps += [st.env[a] >= 0, st.env[a] <= st.env[b], st.env[b] <= ext[e]]
        if 'dt' in names:
            hyps.append(st.env['dt'] != 0)
        self.hyps = hyps
        self.st0 = st
        self.phi_id = st.env['phi'].aid
        st.pc = list(hyps)
        self.line_ctx = []
        body = func_body(fd)
        self.has_line_loops = any(c.get('kind') == 'ForStmt' and _contains_call(c, 'tridiag_premalloc') for c in body['inner'])
        pre = st.fork()
        outs = ex.exec_block(body['inner'], [st])
        if len(outs) != 1:
            raise CUnsupported('kernel body forks into %d paths' % len(outs))
        if not self.has_line_loops:
            self.line_obligations(pre, outs[0], [])
        # bounds / callee preconditions collected along the way
        seen = set()
        n = 0
        for ob in ex.obligs:
            key = (ob.kind, str(ob.goal), str(ob.hyps))
            if key in seen:
                continue
            seen.add(key)
            n += 1
            r = prove('%s/%s.%d' % (self.oid, ob.kind, n), list(ob.hyps), ob.goal, func=self.fn, timeout_ms=10000)
            r['detail'] = ob.where + ': ' + r['detail']
            self.results.append(r)
        self.results.append(R(self.oid + '/cover', 'proof', 'proved' if smt.sat(hyps) else 'vacuous', backend='z3', detail='requires satisfiable',
                              func=self.fn, cover=True))
        ok = len(self.lines) == 1
        self.results.append(R(self.oid + '/structure', 'struct', 'proved' if ok else 'refuted', backend='ast',
                              detail='exactly one tridiagonal solve per line; line loops over %s' % (self.ranges,), func=self.fn))

    def snap_contract(self, name, argnames, outs, scalars):
        """Wrap a callee contract: snapshot the input arrays at the call, apply the contract, then *name* the output
        arrays (fresh function symbols on [0,N)) so later obligations do not unfold them."""
        real = CS.CONTRACTS[name]

        def wrapped(ex, st, args):
            rec = dict(scalars={k: args[i] for k, i in scalars.items()})
            rec['in'] = {nm: CS.rd(st, args[i]) for i, nm in enumerate(argnames) if nm is not None and nm not in outs}
            r = real(ex, st, args)
            rec['out'] = {}
            N = rec['scalars']['N']
            for i, nm in enumerate(argnames):
                if nm in outs:
                    p = args[i]
                    f = z3.Function('%s_%s!%d' % (name, nm, len(self.snaps) + 1), IntS, RealS)
                    lim = N if name == 'compute_abc_nobc' else N - 1
                    CS.wr(st, p, lambda kk, old, _f=f, _lim=lim: ite(z3.And(kk >= 0, kk < _lim), _f(kk), old(kk)), note='named')
                    rec['out'][nm] = lambda kk, _f=f: _f(kk)
            self.snaps[name] = rec
            return r
        return wrapped

    # ---- line loops
    def loop_handler(self, ex, st, node, ordinal):
        if not _contains_call(node, 'tridiag_premalloc'):
            return NotImplemented
        var, lo, hi, step, body = ex.loop_header(node, st)
        if step != 1:
            raise CUnsupported('descending line loop')
        v = z3.FreshConst(IntS, var)
        it = st.fork()
        it.env[var] = v
        it.pc += [v >= lo, v < hi]
        self.ranges.append((var, str(lo), str(hi)))
        # havoc everything the body assigns (per-iteration temporaries); phi: every other line unknown
        names = set()
        _assigned(body, names)
        names.discard(var)
        for nm in names:
            val = it.env.get(nm)
            if isinstance(val, Ptr):
                if val.aid == self.phi_id:
                    continue
                a = it.arrs[val.aid]
                fresh = Arr(a.name + '_havoc', a.length, a.shape)
                a.fn = fresh.fn
            elif isinstance(val, z3.ExprRef):
                it.env[nm] = z3.FreshConst(val.sort(), nm + '_havoc')
        self.line_ctx.append((var, v))
        direct = any(_contains_call(c, 'tridiag_premalloc') and c.get('kind') != 'ForStmt' for c in (body.get('inner', []) if body.get('kind') == 'CompoundStmt' else [body]))
        if direct:
            # innermost line body: phi on entry = arbitrary array (other iterations may have changed other lines)
            phi = it.arrs[self.phi_id]
            fresh = Arr('phi_in', phi.length, phi.shape)
            phi.fn = fresh.fn
            phi.writes = []
            pre = it.fork()
            outs = ex.exec_stmt(body, it)
            if len(outs) != 1:
                raise CUnsupported('line body forks')
            self.line_obligations(pre, outs[0], list(self.line_ctx))
        else:
            outs = ex.exec_stmt(body, it)
        self.line_ctx.pop()
        # after the loop: phi and the temporaries are unknown (nothing after the loops reads them)
        for nm in names:
            val = st.env.get(nm)
            if isinstance(val, Ptr):
                a = st.arrs[val.aid]
                a.fn = Arr(a.name + '_after', a.length, a.shape).fn
            elif isinstance(val, z3.ExprRef):
                st.env[nm] = z3.FreshConst(val.sort(), nm + '_after')
        st.env[var] = ite(hi > lo, hi, lo)
        return [st]

    # ---- per-line obligations
    def line_obligations(self, pre, post, ctx):
        ex, K, p = self.ex, self.K, self.p
        calls = [c for c in ex.trace if c[0] == 'call' and c[1] in ('tridiag_premalloc', 'tridiag')]
        T = ex.thomas[-1] if getattr(ex, 'thomas', None) else None
        if T is None:
            raise CUnsupported('no tridiagonal solve on the line')
        tag = 'line%d' % len(self.lines)
        self.lines.append(tag)
        oid, fn = self.oid + '/' + tag, self.fn
        pc = list(post.pc)
        ext = self.ext
        n = ext[p]
        k = z3.Int('k!row')
        rng = [k >= 0, k < n]
        phi_pre, phi_post = pre.arrs[self.phi_id], post.arrs[self.phi_id]
        # the line's other digits = the loop variables, identified through the written digits of phi
        w = [x for x in phi_post.writes if isinstance(x[0], tuple) and x[0] and not isinstance(x[0][0], str)]
        if K == 1:
            line = lambda kk: kk
            other = []
        else:
            if not w:
                raise CUnsupported('phi is not written on the line')
            wd = w[-1][0]
            if isinstance(wd[-1], str) and wd[-1] == 'slice':
                other = list(wd[:-1])
                if p != K - 1:
                    raise CUnsupported('in-place slice solve on a non-last axis')
            else:
                other = [d for i, d in enumerate(wd) if i != p]
            # written digit pattern comes from a probe iteration; replace the probe's loop variable by nothing: digits other than p
            def line(kk, _o=other):
                ds = list(_o)
                ds.insert(p, kk)
                return tuple(ds)
            self.other = other
        # (a) frame: entries off the line are unchanged by the body
        if K > 1:
            ts = tuple(z3.Int('t%d!fr' % i) for i in range(K))
            off = z3.Or(*[ts[i] != line(z3.IntVal(0))[i] for i in range(K) if i != p])
            self.results.append(prove(oid + '/frame', pc + [off], phi_post.fn(ts) == phi_pre.fn(ts), func=fn, timeout_ms=20000))
            # the other digits must be loop variables of the enclosing line loops (each line visited once)
            lv = [v for _, v in ctx]
            okv = len(other) == len(lv) and all(any(o.eq(v) for v in lv) for o in other)
            self.results.append(R(oid + '/line-digits', 'struct', 'proved' if okv else 'refuted', backend='ast',
                                  detail='digits of the written line %s are exactly the line-loop variables %s' % (other, lv), func=fn))
        # (b) the line after the call is the solution of the system
        self.results.append(prove(oid + '/solution', pc + rng, phi_post.fn(line(k)) == T.U(k), func=fn, timeout_ms=20000))
        self.results.append(prove(oid + '/size', pc, T.n == n, func=fn))
        # (c) the assembled system is the documented one
        phi_in = lambda kk: phi_pre.fn(line(kk))
        dt = toreal(self.st0.env['dt'])
        self.results.append(prove_eq(oid + '/rhs', pc + rng, T.R(k), phi_in(k) / dt, func=fn, timeout_ms=20000))
        if self.precalc:
            ax = [nm for nm, _ in func_params(ex.funcs[self.fname][1]) if re.match(r'[abc][xyz]$', nm)]
            A0, B0, C0 = (pre.arrs[self.st0.env[nm].aid].fn for nm in ax)
            self.results.append(prove_eq(oid + '/coef.a', pc + rng, T.A(k), A0(line(k)), func=fn))
            self.results.append(prove_eq(oid + '/coef.b', pc + rng, T.B(k), B0(line(k)) + 1 / dt, func=fn))
            self.results.append(prove_eq(oid + '/coef.c', pc + rng, T.C(k), C0(line(k)), func=fn))
            return
        S = self.spec(pre, other, n)
        snaps = self.snaps
        if 'compute_abc_nobc' not in snaps or 'compute_delj' not in snaps:
            raise CUnsupported('kernel does not call compute_delj / compute_abc_nobc on the line')
        ab, dj = snaps['compute_abc_nobc'], snaps['compute_delj']
        j = z3.Int('j!arr')
        X = S['X']
        grid_inc = [z3.Implies(z3.And(q >= 0, q <= n - 2), X(q + 1) - X(q) > 0) for q in (j, j - 1, z3.IntVal(0), n - 2)]
        base = pc + S['requires'] + grid_inc
        # (c1)-(c3): the arrays handed to compute_abc_nobc are the documented ones
        checks = [
            ('abc.dx', ab['in']['dx'](j), S['dx'](j), [j >= 0, j <= n - 2]),
            ('abc.Delta', ab['in']['dfactor'](j), S['Delta'](j), [j >= 0, j <= n - 1]),
            ('abc.M', ab['in']['MInt'](j), S['M'](j), [j >= 0, j <= n - 2]),
            ('abc.V', ab['in']['V'](j), S['V'](j), [j >= 0, j <= n - 1]),
            ('abc.delj', ab['in']['delj'](j), dj['out']['delj'](j), [j >= 0, j <= n - 2]),       # delj untouched since compute_delj
            ('delj.dx', dj['in']['dx'](j), S['dx'](j), [j >= 0, j <= n - 2]),
            ('delj.M', dj['in']['MInt'](j), S['M'](j), [j >= 0, j <= n - 2]),
            ('delj.VInt', dj['in']['VInt'](j), S['VInt'](j), [j >= 0, j <= n - 2]),
        ]
        for nm_, lhs, rhs, cond in checks:
            h = base + cond
            self.results.append(prove_eq('%s/wiring.%s' % (oid, nm_), h, _resolve(lhs, h), _resolve(rhs, h), func=fn, timeout_ms=30000))
        self.results.append(prove(oid + '/wiring.abc.dt-N', pc, z3.And(toreal(ab['scalars']['dt']) == dt, ab['scalars']['N'] == n, dj['scalars']['N'] == n,
                                                                     dj['scalars']['use_delj_trick'] == self.st0.env['use_delj_trick']), func=fn))
        # (c5): the solver gets compute_abc_nobc's a, c unchanged and b plus the absorbing terms on the documented corner lines only
        oa, ob_, oc = ab['out']['a'], ab['out']['b'], ab['out']['c']
        h = base + rng
        self.results.append(prove(oid + '/system.a', h, T.A(k) == oa(k), func=fn, timeout_ms=20000))
        self.results.append(prove(oid + '/system.c', h, T.C(k) == oc(k), func=fn, timeout_ms=20000))
        for case, cond in (('first', [k == 0]), ('interior', [k >= 1, k <= n - 2]), ('last', [k == n - 1])):
            hh = base + cond
            want = ob_(k) + ite(k == 0, S['abs0'], z3.RealVal(0)) + ite(k == n - 1, S['absn'], z3.RealVal(0))
            lhs, rhs = _resolve(T.B(k), hh), _resolve(want, hh)
            self.results.extend(self.prove_cases('%s/system.b.%s' % (oid, case), hh, lhs, rhs))
        # canary: absorbing term on every line (not only the corner lines) must be refuted (neutral, no migration: easy model)
        if K > 1:
            env = self.st0.env
            easy = [toreal(env[nm_]) == 0 for nm_ in env if re.match(r'(m\d\d|gamma\d)$', nm_)] + [toreal(env['nu%d' % (p + 1)]) == 1]
            hh = base + [k == 0] + easy
            bad = ob_(k) + ite(S['Mfirst'] <= 0, S['abs0_raw'], z3.RealVal(0))
            self.results.append(prove(oid + '/system.b.canary', hh, _resolve(T.B(k), hh) == _resolve(bad, hh), func=fn, canary=True, timeout_ms=20000))

    def prove_cases(self, oid, hyps, lhs, rhs):
        """lhs == rhs where both contain ite's over the same few conditions: split on every condition."""
        conds = []

        def collect(e):
            if z3.is_app(e):
                if e.decl().kind() == z3.Z3_OP_ITE:
                    c = e.arg(0)
                    if not any(c.eq(x) for x in conds):
                        conds.append(c)
                for ch in e.children():
                    collect(ch)
        collect(lhs)
        collect(rhs)
        if len(conds) > 6:
            return [prove(oid, hyps, lhs == rhs, func=self.fn, timeout_ms=30000)]
        out = []
        import itertools
        for bits in itertools.product([True, False], repeat=len(conds)):
            hh = list(hyps) + [c if b else z3.Not(c) for c, b in zip(conds, bits)]
            if smt.sat(hh, timeout_ms=3000) is False:
                continue
            tag = ''.join('T' if b else 'F' for b in bits)
            out.append(prove_eq('%s.%s' % (oid, tag) if conds else oid, hh, _resolve(lhs, hh), _resolve(rhs, hh), func=self.fn, timeout_ms=30000))
        return out

    # ---- the specification, written from the property
    def spec(self, pre, other, n):
        K, p = self.K, self.p
        env = self.st0.env
        X = CS.rd(pre, env[GRID[p]])
        nm = '' if K == 1 else str(p + 1)
        nu, gamma, h = (toreal(env[s + nm]) for s in ('nu', 'gamma', 'h'))
        req = [nu > 0]
        if K == 1:
            beta = toreal(env['beta'])
            req.append(beta > 0)
            V = lambda x: 1 / nu * x * (1 - x) * ((beta + 1) * (beta + 1)) / (4 * beta)
        else:
            V = lambda x: 1 / nu * x * (1 - x)
        others = [q for q in range(K) if q != p]
        coords = {}
        for q, d in zip(others, other):
            coords[q] = CS.rd(pre, env[GRID[q]])(d)

        def Mf(x):
            t = None
            for q in others:
                term = toreal(env['m%d%d' % (p + 1, q + 1)]) * (coords[q] - x)
                t = term if t is None else t + term
            sel = gamma * 2 * (h + (1 - 2 * h) * x) * x * (1 - x)
            return sel if t is None else t + sel
        dx = lambda j: X(j + 1) - X(j)
        xi = lambda j: CS.HALF * (X(j + 1) + X(j))
        Delta = lambda j: ite(j == n - 1, 2 / dx(n - 2), ite(j == 0, 2 / dx(0), 2 / (dx(j) + dx(j - 1))))
        Mfirst, Mlast = Mf(X(0)), Mf(X(n - 1))
        all0 = z3.And(*[coords[q] == 0 for q in others]) if others else z3.BoolVal(True)
        all1 = z3.And(*[coords[q] == 1 for q in others]) if others else z3.BoolVal(True)
        abs0_raw = (CS.HALF / nu - Mfirst) * 2 / dx(0)
        absn_raw = -(-CS.HALF / nu - Mlast) * 2 / dx(n - 2)
        return dict(X=X, dx=dx, Delta=Delta, M=lambda j: Mf(xi(j)), V=lambda j: V(X(j)), VInt=lambda j: V(xi(j)), requires=req,
                    Mfirst=Mfirst, Mlast=Mlast, abs0_raw=abs0_raw,
                    abs0=ite(z3.And(all0, Mfirst <= 0), abs0_raw, z3.RealVal(0)),
                    absn=ite(z3.And(all1, Mlast >= 0), absn_raw, z3.RealVal(0)))


def verify_kernel(relpath, fname, pid='C02', only=None):
    return KernelCheck(relpath, fname, pid, only).run()
