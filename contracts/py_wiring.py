"""Small E2 / AST wiring contracts on the real Python sources, one function per contract; each returns result records.

Every contract is written from the property statement (what must reach where), the code is only consulted for names."""
import ast, re, itertools
import z3
from fractions import Fraction
from vf.core import R
from vf.helpers import prove, prove_eq, discharge, struct, guarded, reals
from vf.pyvc import (Executor, Tm, VList, VDict, VObj, PyFn, PyRaise, FuncRef, ClassRef, Closure, ModInfo, vrepr, term_eq, Unsupported,
                     to_real, is_scalar, exact, uf)


# ---------------------------------------------------------------- linear forms over opaque atoms
def linear_form(t, out=None, coef=1):
    """term built from + - * (scalar x term) / scalar over opaque atoms -> {atom repr: (atom, z3 coefficient)}"""
    out = {} if out is None else out
    if isinstance(t, Tm) and t.op in ('op:Add', 'op:Sub'):
        linear_form(t.args[0], out, coef)
        linear_form(t.args[1], out, coef if t.op == 'op:Add' else -coef)
        return out
    if isinstance(t, Tm) and t.op == 'neg':
        return linear_form(t.args[0], out, -coef)
    if isinstance(t, Tm) and t.op == 'op:Mult':
        a, b = t.args
        if is_scalar(exact(a)):
            return linear_form(b, out, coef * to_real(exact(a)))
        if is_scalar(exact(b)):
            return linear_form(a, out, coef * to_real(exact(b)))
    if isinstance(t, Tm) and t.op == 'op:Div' and is_scalar(exact(t.args[1])):
        return linear_form(t.args[0], out, coef / to_real(exact(t.args[1])))
    if is_scalar(exact(t)):
        k = '<const>'
        prev = out.get(k, (None, z3.RealVal(0)))[1]
        out[k] = (None, prev + coef * to_real(exact(t)))
        return out
    k = vrepr(t)
    prev = out.get(k, (t, z3.RealVal(0)))[1]
    out[k] = (t, prev + coef)
    return out


def linear_equal(got, want, pc, oid, fn, what):
    """both: dict atom-key -> z3 coefficient.  One obligation per atom."""
    res = []
    keys = sorted(set(got) | set(want))
    for k in keys:
        g = got.get(k, z3.RealVal(0))
        w = want.get(k, z3.RealVal(0))
        res.append(prove_eq('%s.coef[%s]' % (oid, k[:60]), pc, g, w, func=fn, timeout_ms=20000))
    if not keys:
        res.append(struct(oid, False, 'empty linear form for %s' % what, fn))
    return res


# ---------------------------------------------------------------- C09: folding guard of the operators
def c09_check_other_folding():
    oid = 'C09/Spectrum_mod.py:Spectrum._check_other_folding'
    fn = 'dadi/Spectrum_mod.py::Spectrum._check_other_folding'

    @guarded(oid, fn)
    def go():
        ex = Executor()
        f = ex.func('dadi/Spectrum_mod.py', 'Spectrum._check_other_folding')
        a, b = z3.Bool('self_folded'), z3.Bool('other_folded')
        me, other = Tm('self'), Tm('other')
        me.attrs.update(folded=a, __class__=Tm('Spectrum'))
        other.attrs.update(folded=b)
        paths = ex.run(f, [me, other])
        isinst = z3.Bool('isinstance(other, Spectrum)')
        out = []
        for k, p in enumerate(paths):
            pc = [z3.substitute(c, *[(x, isinst) for x in _bools(c) if 'isinstance' in str(x)]) for c in p.pc]
            if p.outcome == 'raise':
                out.append(struct('%s.path%d.kind' % (oid, k), p.exc.kind == 'ValueError', 'raises %s' % p.exc.kind, fn))
                out.append(prove('%s.path%d.raises-only-if-folding-differs' % (oid, k), pc, z3.And(isinst, a != b), func=fn))
            else:
                out.append(prove('%s.path%d.accepts-only-if-same-folding' % (oid, k), pc, z3.Not(z3.And(isinst, a != b)), func=fn))
        out.append(struct(oid + '.paths', len(paths) >= 2 and any(p.outcome == 'raise' for p in paths), '%d paths' % len(paths), fn))
        return out
    return go()


def _exec_templates(relpath, clsname):
    """mechanical extraction of the methods a class body generates with  for method in [...]: exec(TEMPLATE % {'method': method}):
    returns [(method names, template text)] in source order.  Dropped: nothing (the template text is instantiated exactly as exec would see it)."""
    mod = ModInfo.load(relpath)
    cls = [n for n in mod.tree.body if isinstance(n, ast.ClassDef) and n.name == clsname][0]
    gens = []
    for n in cls.body:
        if isinstance(n, ast.For) and isinstance(n.iter, (ast.List, ast.Tuple)) and isinstance(n.target, ast.Name) and \
                all(isinstance(e, ast.Constant) and isinstance(e.value, str) for e in n.iter.elts):
            for st in n.body:
                if isinstance(st, ast.Expr) and isinstance(st.value, ast.Call) and getattr(st.value.func, 'id', None) == 'exec' and st.value.args:
                    a = st.value.args[0]
                    if isinstance(a, ast.BinOp) and isinstance(a.op, ast.Mod) and isinstance(a.left, ast.Constant) and isinstance(a.right, ast.Dict) and \
                            len(a.right.keys) == 1 and isinstance(a.right.values[0], ast.Name) and a.right.values[0].id == n.target.id:
                        gens.append(([e.value for e in n.iter.elts], a.left.value, a.right.keys[0].value))
    return mod, gens


def c09_operators():
    """The arithmetic operators of Spectrum are generated in the class body by exec over two templates (binary / in-place).  The templates are
    extracted mechanically from the class body and instantiated exactly as exec does, then executed symbolically per generated method:
      * table: each Python 3 arithmetic operator +, -, *, /, //, ** has its forward, reflected and in-place method generated (so that no operand
        order falls back to numpy.ma's own operators, which know nothing about folding);
      * every method first calls self._check_other_folding(other) (its contract: raises iff the two are Spectra of different folding);
      * binary: with a masked-array operand the result is built from self.data.<same method>(other.data) and mask_or(self.mask, other.mask); with any
        other operand from self.data.<same method>(other) and self.mask; constructor flags mask_corners=False, check_folding=False,
        data_folded=self.folded; labels: self's, or the other's when self has none; extrap_x kept when equal and dropped (None) otherwise;
      * in-place: self.data.<same method>(...) is applied, the mask becomes mask_or(self.mask, other.mask) for a masked-array operand (untouched
        otherwise), extrap_x is dropped when different, and self itself is returned."""
    oid = 'C09/Spectrum_mod.py:Spectrum/operators'
    fn = 'dadi/Spectrum_mod.py::Spectrum'

    @guarded(oid, fn)
    def go():
        from vf.pyvc import FuncRef
        mod, gens = _exec_templates('dadi/Spectrum_mod.py', 'Spectrum')
        out = []
        binary = [g for g in gens if 'return outfs' in g[1] or '__new__' in g[1]]
        inplace = [g for g in gens if g not in binary]
        bnames = [m for g in binary for m in g[0]]
        inames = [m for g in inplace for m in g[0]]
        ops = ('add', 'sub', 'mul', 'truediv', 'floordiv', 'pow')
        missing = ['__%s__' % o for o in ops if '__%s__' % o not in bnames] + ['__r%s__' % o for o in ops if '__r%s__' % o not in bnames] + \
                  ['__i%s__' % o for o in ops if '__i%s__' % o not in inames]
        out.append(struct(oid + '.table', not missing and len(binary) >= 1 and len(inplace) >= 1,
                          'forward, reflected and in-place methods generated for + - * / // ** (missing: %s)' % (missing or 'none'), fn,
                          finding_key='C09/operators/table'))

        def operands(self_ids=True, other_ids=True):
            me, other = Tm('self'), Tm('other')
            me.attrs.update(data=Tm('self.data'), mask=Tm('self.mask'), folded=z3.Bool('self_folded'), pop_ids=Tm('self.pop_ids') if self_ids else None,
                            extrap_x=Tm('self.extrap_x'), __class__=Tm('Spectrum'))
            other.attrs.update(data=Tm('other.data'), mask=Tm('other.mask'), folded=z3.Bool('other_folded'), pop_ids=Tm('other.pop_ids') if other_ids else None,
                               extrap_x=Tm('other.extrap_x'))
            return me, other

        def run(tmpl, key, m, me, other):
            src = tmpl % {key: m}
            node = ast.parse(src).body[0]
            ex = Executor(policy=lambda fr: 'abstract')
            paths = ex.run(FuncRef(mod, node, 'Spectrum.' + m), [me, other])
            return ex, paths
        for names, tmpl, key in binary:
            for m in names:
                o = '%s.%s' % (oid, m)
                fk = 'C09/operators/' + m
                for si, oi, tag in ((True, True, 'labels-both'), (False, True, 'labels-other-only'), (True, False, 'labels-self-only')):
                    me, other = operands(si, oi)
                    ex, paths = run(tmpl, key, m, me, other)
                    bad = []
                    if not paths or any(p.outcome != 'return' for p in paths):
                        bad.append('a path does not return: %r' % [(p.outcome) for p in paths])
                    for p in paths:
                        if p.outcome != 'return':
                            continue
                        calls = [e for e in p.log if e[0] == 'call']
                        if not calls or '_check_other_folding(self)' not in str(calls[0][1]) or len(calls[0][2].args) != 1 or calls[0][2].args[0] is not other:
                            bad.append('first call is not self._check_other_folding(other)')
                        masked = any('isinstance(other' in str(c) and not str(c).startswith('Not(') for c in p.pc)
                        same_x = any(str(c).replace(' ', '') in ('Not(Not(cmp:Eq(other.extrap_x,self.extrap_x)))', 'cmp:Eq(other.extrap_x,self.extrap_x)',
                                                                'Not(Not(cmp:Eq(self.extrap_x,other.extrap_x)))', 'cmp:Eq(self.extrap_x,other.extrap_x)',
                                                                'Not(cmp:NotEq(self.extrap_x,other.extrap_x))', 'Not(cmp:NotEq(other.extrap_x,self.extrap_x))') for c in p.pc)
                        v = p.value
                        if not (isinstance(v, Tm) and '__new__' in v.op):
                            bad.append('result is not built by the class constructor: %s' % vrepr(v)[:80])
                            continue
                        pos = [x for x in v.args if not (isinstance(x, tuple) and x and x[0] == 'kw')]
                        kws = {x[1]: x[2] for x in v.args if isinstance(x, tuple) and x and x[0] == 'kw'}
                        want_data = 'call:attr:%s(self.data)(%s)' % (m, 'other.data' if masked else 'other')
                        want_mask = 'call:lib:numpy.ma.mask_or(self.mask, other.mask)' if masked else 'self.mask'
                        if len(pos) != 3 or vrepr(pos[1]) != want_data:
                            bad.append('data is %s, expected %s' % (vrepr(pos[1])[:80] if len(pos) > 1 else '?', want_data))
                        elif vrepr(pos[2]) not in (want_mask, want_mask.replace('(self.mask, other.mask)', '(other.mask, self.mask)')):
                            bad.append('mask is %s, expected %s' % (vrepr(pos[2])[:80], want_mask))
                        if kws.get('mask_corners') is not False or kws.get('check_folding') is not False:
                            bad.append('mask_corners / check_folding not False')
                        df = kws.get('data_folded')
                        if not (isinstance(df, z3.ExprRef) and df.eq(z3.Bool('self_folded'))):
                            bad.append('data_folded is not self.folded')
                        want_ids = me.attrs['pop_ids'] if si else other.attrs['pop_ids']
                        if kws.get('pop_ids') is not want_ids:
                            bad.append('pop_ids is %s' % vrepr(kws.get('pop_ids'))[:40])
                        wx = me.attrs['extrap_x'] if same_x else None
                        if kws.get('extrap_x') is not wx:
                            bad.append('extrap_x is %s on a path where the two %s' % (vrepr(kws.get('extrap_x'))[:40], 'agree' if same_x else 'differ'))
                    out.append(struct('%s.%s' % (o, tag), not bad, '; '.join(sorted(set(bad)))[:400] or
                                      '%d paths: folding check first, data by the same method, masks or-ed, flags, labels, extrap_x' % len(paths), fn, finding_key=fk))
        for names, tmpl, key in inplace:
            for m in names:
                o = '%s.%s' % (oid, m)
                fk = 'C09/operators/' + m
                node = ast.parse(tmpl % {key: m}).body[0]
                ex = Executor(policy=lambda fr: 'abstract')
                fref = FuncRef(mod, node, 'Spectrum.' + m)

                def thunk(e, fref=fref):
                    me, other = operands()           # fresh operands on every path: the method assigns attributes of self
                    r = e.apply(fref.node, None, fref.mod, [me, other], {}, fref.qualname)
                    return (r, me, other, dict(me.attrs))
                paths = ex.explore(thunk)
                bad = []
                if not paths or any(p.outcome != 'return' for p in paths):
                    bad.append('a path does not return')
                for p in paths:
                    if p.outcome != 'return':
                        continue
                    r, me, other, fin = p.value
                    calls = [e for e in p.log if e[0] == 'call']
                    if not calls or '_check_other_folding(self)' not in str(calls[0][1]) or len(calls[0][2].args) != 1 or calls[0][2].args[0] is not other:
                        bad.append('first call is not self._check_other_folding(other)')
                    masked = any('isinstance(other' in str(c) and not str(c).startswith('Not(') for c in p.pc)
                    same_x = any(str(c).replace(' ', '') in ('Not(Not(cmp:Eq(other.extrap_x,self.extrap_x)))', 'cmp:Eq(other.extrap_x,self.extrap_x)',
                                                            'Not(Not(cmp:Eq(self.extrap_x,other.extrap_x)))', 'cmp:Eq(self.extrap_x,other.extrap_x)',
                                                            'Not(cmp:NotEq(self.extrap_x,other.extrap_x))', 'Not(cmp:NotEq(other.extrap_x,self.extrap_x))') for c in p.pc)
                    want_call = 'call:attr:%s(self.data)(%s)' % (m, 'other.data' if masked else 'other')
                    if not any(vrepr(e[2]) == want_call for e in calls):
                        bad.append('%s not applied' % want_call)
                    if r is not me:
                        bad.append('does not return self')
                    wantm = 'call:lib:numpy.ma.mask_or(self.mask, other.mask)' if masked else 'self.mask'
                    if vrepr(fin.get('mask')) not in (wantm, wantm.replace('(self.mask, other.mask)', '(other.mask, self.mask)')):
                        bad.append('mask becomes %s, expected %s' % (vrepr(fin.get('mask'))[:80], wantm))
                    gx = fin.get('extrap_x')
                    if (same_x and vrepr(gx) != 'self.extrap_x') or (not same_x and gx is not None):
                        bad.append('extrap_x becomes %s on a path where the two %s' % (vrepr(gx)[:40], 'agree' if same_x else 'differ'))
                    if vrepr(fin.get('folded')) != 'self_folded' or vrepr(fin.get('pop_ids')) != 'self.pop_ids':
                        bad.append('folded / pop_ids of self changed')
                out.append(struct(o, not bad, '; '.join(sorted(set(bad)))[:400] or
                                  '%d paths: folding check first, data updated by the same method, mask or-ed, extrap_x rule, returns self' % len(paths),
                                  fn, finding_key=fk))
        return out
    return go()


def _bools(e):
    out = []

    def rec(t):
        if z3.is_const(t) and z3.is_bool(t) and t.decl().kind() == z3.Z3_OP_UNINTERPRETED:
            out.append(t)
        for c in t.children():
            rec(c)
    rec(e)
    return out


def c09_misid():
    """apply_anc_state_misid(fs, p) = (1-p) fs + p reverse(fs);  make_anc_state_misid_func strips the last parameter"""
    oid = 'C09/Numerics.py:apply_anc_state_misid'
    fn = 'dadi/Numerics.py::apply_anc_state_misid'

    @guarded(oid, fn)
    def go():
        ex = Executor()
        f = ex.func('dadi/Numerics.py', 'apply_anc_state_misid')
        fs, p = Tm('fs'), z3.Real('p')
        paths = ex.run(f, [fs, p])
        out = []
        for k, pth in enumerate(paths):
            if pth.outcome != 'return':
                out.append(struct('%s.path%d' % (oid, k), False, 'raises %s' % pth.exc, fn))
                continue
            lf = linear_form(pth.value)
            got = {key: c for key, (a, c) in lf.items()}
            rev = [key for key, (a, c) in lf.items() if isinstance(a, Tm) and 'reverse_array' in a.op and a.args and a.args[0] is fs]
            want = {'fs': 1 - p}
            if len(rev) == 1:
                want[rev[0]] = p
            out += linear_equal(got, want, pth.pc, '%s.path%d' % (oid, k), fn, 'misid mix')
            out.append(struct('%s.path%d.mirror' % (oid, k), len(rev) == 1, 'the second term is reverse_array(fs): %s' % sorted(lf), fn))
        # wrapper
        f2 = ex.func('dadi/Numerics.py', 'make_anc_state_misid_func')
        calls = []

        def model(params, *a, **kw):
            calls.append((params, a, kw))
            return Tm('model_fs')
        ps = reals('q', 3)
        ns, pts = Tm('ns'), Tm('pts')
        ex2 = Executor(policy=lambda fr: 'inline' if fr.qualname in ('make_anc_state_misid_func',) else 'abstract')
        paths = ex2.explore(lambda e: e.call(e.apply(f2.node, None, f2.mod, [PyFn(model, 'model')], {}, 'make_anc_state_misid_func'), [tuple(ps), ns, pts], {}))
        ok = len(paths) == 1 and paths[0].outcome == 'return' and len(calls) >= 1
        detail = 'paths=%r' % paths
        if ok:
            params, a, kw = calls[-1]
            items = list(params.items if isinstance(params, VList) else params)
            ok = len(items) == 2 and items[0] is ps[0] and items[1] is ps[1] and a[0] is ns and (a[1] is pts if len(a) > 1 else kw.get('pts') is pts)
            v = paths[0].value
            ok = ok and isinstance(v, Tm) and v.op == 'call:dadi.Numerics.apply_anc_state_misid' and isinstance(v.args[0], Tm) and v.args[0].op == 'model_fs' and v.args[1] is ps[2]
            detail = 'model gets params[:-1], result = apply_anc_state_misid(model(...), params[-1]): %s' % vrepr(v)
        out.append(struct('C09/Numerics.py:make_anc_state_misid_func/wiring', bool(ok), detail, 'dadi/Numerics.py::make_anc_state_misid_func'))
        return out
    return go()


# ---------------------------------------------------------------- C10: reorder_pops labels follow the axes
def c10_reorder_pops():
    oid = 'C10/Spectrum_mod.py:Spectrum.reorder_pops'
    fn = 'dadi/Spectrum_mod.py::Spectrum.reorder_pops'

    @guarded(oid, fn)
    def go():
        out = []
        ex = Executor()
        f = ex.func('dadi/Spectrum_mod.py', 'Spectrum.reorder_pops')
        for n in (2, 3, 4):
            for perm in itertools.permutations(range(1, n + 1)):
                me = Tm('self')
                labels = [Tm('label%d' % i) for i in range(n)]
                me.attrs.update(ndim=n, pop_ids=VList(labels))
                paths = ex.run(f, [me, VList(list(perm))])
                tag = ''.join(map(str, perm))
                if len(paths) != 1 or paths[0].outcome != 'return':
                    out.append(struct('%s.%s' % (oid, tag), False, 'valid order rejected / forks: %r' % paths, fn))
                    continue
                fs = paths[0].value
                axes = [p - 1 for p in perm]
                ok = isinstance(fs, Tm) and 'transpose' in fs.op and fs.args and [int(x) for x in (fs.args[0].items if isinstance(fs.args[0], VList) else fs.args[0])] == axes
                ids = fs.attrs.get('pop_ids') if isinstance(fs, Tm) else None
                okl = isinstance(ids, VList) and len(ids.items) == n and all(ids.items[i] is labels[axes[i]] for i in range(n))
                out.append(struct('%s.%s' % (oid, tag), bool(ok and okl), 'axes transposed by neworder-1 (%s) and label of new axis i is the label of old axis neworder[i]-1 (%s)' % (ok, okl), fn,
                                  finding_key='C10/reorder_pops/labels'))
        # invalid orders are refused
        for bad in ([1, 1, 2], [0, 1, 2], [1, 2], [2, 3, 4]):
            me = Tm('self')
            me.attrs.update(ndim=3, pop_ids=None)
            paths = ex.run(f, [me, VList(list(bad))])
            out.append(struct('%s.invalid.%s' % (oid, ''.join(map(str, bad))), all(p.outcome == 'raise' and p.exc.kind == 'ValueError' for p in paths) and len(paths) >= 1,
                              'order %s raises ValueError' % bad, fn))
        return out
    return go()


# ---------------------------------------------------------------- C14: pickle support
def c14_pickle_wiring():
    oid = 'C14/Spectrum_mod.py:Spectrum_pickler'
    fn = 'dadi/Spectrum_mod.py::Spectrum_pickler'

    @guarded(oid, fn)
    def go():
        ex = Executor(policy=lambda fr: 'inline' if fr.qualname in ('Spectrum_pickler', 'Spectrum_unpickler') else 'abstract')
        pk = ex.func('dadi/Spectrum_mod.py', 'Spectrum_pickler')
        fs = Tm('fs')
        for a in ('data', 'mask', 'folded', 'pop_ids', 'extrap_x'):
            fs.attrs[a] = Tm('fs.' + a)
        paths = ex.run(pk, [fs])
        out = []
        if len(paths) != 1 or paths[0].outcome != 'return' or not isinstance(paths[0].value, tuple) or len(paths[0].value) != 2:
            return [struct(oid, False, 'pickler must return (callable, args): %r' % paths, fn)]
        func, args = paths[0].value
        paths2 = ex.explore(lambda e: e.call(func, list(args), {}))
        ok = len(paths2) == 1 and paths2[0].outcome == 'return' and isinstance(paths2[0].value, Tm) and 'Spectrum' in paths2[0].value.op
        detail = vrepr(paths2[0].value) if paths2 and paths2[0].outcome == 'return' else repr(paths2)
        if ok:
            t = paths2[0].value
            pos = [a for a in t.args if not (isinstance(a, tuple) and a and a[0] == 'kw')]
            kw = {a[1]: a[2] for a in t.args if isinstance(a, tuple) and a and a[0] == 'kw'}
            sig = ['data', 'mask', 'mask_corners', 'data_folded', 'check_folding', 'pop_ids', 'extrap_x']
            bound = dict(zip(sig, pos))
            bound.update(kw)
            want = dict(data=fs.attrs['data'], mask=fs.attrs['mask'], data_folded=fs.attrs['folded'], pop_ids=fs.attrs['pop_ids'], extrap_x=fs.attrs['extrap_x'])
            probs = [k for k, v in want.items() if bound.get(k) is not v]
            if bound.get('mask_corners') is not False:
                probs.append('mask_corners must be False (the stored mask is authoritative)')
            if bound.get('check_folding') is not False:
                probs.append('check_folding must be False')
            ok = not probs
            detail = 'unpickler rebuilds Spectrum(data, mask, mask_corners=False, data_folded=folded, check_folding=False, pop_ids, extrap_x); problems: %s' % probs
        out.append(struct(oid + '/round-trip-wiring', bool(ok), detail, fn, finding_key='C14/pickle/wiring'))
        return out
    return go()


# ---------------------------------------------------------------- C16: sizes at the ends of an integration interval
def c16_sizes_at_time():
    oid = 'C16/Demes.py:_sizes_at_time'
    fn = 'dadi/Demes/Demes.py::_sizes_at_time'

    @guarded(oid, fn)
    def go():
        out = []
        for sf in ('constant', 'linear', 'exponential'):
            ex = Executor()
            f = ex.func('dadi/Demes/Demes.py', '_sizes_at_time')
            t0, t1, s0, s1, I0, I1 = z3.Reals('t_start t_end s_start s_end I0 I1')
            ep = VObj('epoch', start_time=t0, end_time=t1, start_size=s0, end_size=(s0 if sf == 'constant' else s1), size_function=sf, time_span=t0 - t1)
            deme = VObj('deme', epochs=VList([ep]))
            g = VDict({'A': deme})
            hy = [t0 > t1, t0 >= I0, I0 > I1, I1 >= t1, s0 > 0, s1 > 0]
            paths = ex.run(f, [g, 'A', (I0, I1)], base_pc=hy)
            span = t0 - t1
            for k, p in enumerate(paths):
                if p.outcome != 'return':
                    out.append(struct('%s.%s.path%d' % (oid, sf, k), False, 'raises %s' % p.exc, fn))
                    continue
                a, b, fnc = p.value
                if sf == 'constant':
                    wa, wb = s0, s0
                elif sf == 'linear':
                    wa = s0 + (t0 - I0) / span * (s1 - s0)
                    wb = s0 + (t0 - I1) / span * (s1 - s0)
                else:
                    wa = s0 * uf('exp')(uf('log')(s1 / s0) * (t0 - I0) / span)
                    wb = s0 * uf('exp')(uf('log')(s1 / s0) * (t0 - I1) / span)
                    # at the epoch's own ends the code returns the stored sizes: exp(0)=1, exp(log(r))=r
                ax = [uf('exp')(z3.RealVal(0)) == 1, uf('exp')(uf('log')(s1 / s0)) == s1 / s0]
                for nm, got, want, edge in (('start', a, wa, I0 == t0), ('end', b, wb, I1 == t1)):
                    hyp = p.pc + ax
                    # on the edge the exponent is 0 resp. log(r): help the solver with the instantiated argument equality
                    if sf == 'exponential':
                        hyp = hyp + [z3.Implies(I0 == t0, uf('log')(s1 / s0) * (t0 - I0) / span == 0), z3.Implies(I1 == t1, uf('log')(s1 / s0) * (t0 - I1) / span == uf('log')(s1 / s0))]
                    out.append(prove_eq('%s.%s.path%d.%s' % (oid, sf, k, nm), hyp, got, want, func=fn, timeout_ms=20000, finding_key='C16/_sizes_at_time/%s-%s' % (sf, nm)))
                out.append(struct('%s.%s.path%d.func' % (oid, sf, k), fnc == sf, 'size function forwarded: %r' % (fnc,), fn))
            out.append(struct('%s.%s.paths' % (oid, sf), len(paths) >= 1, '%d paths' % len(paths), fn))
        return out
    return go()


def c16_integrate_phi():
    """Demes._integrate_phi: k_pops(phi, xx, T, nu_i=nu[i-1], m_ij=M[i-1,j-1], gamma_i, h_i, theta0, frozen_i=frozen[i-1])"""
    oid = 'C16/Demes.py:_integrate_phi'
    fn = 'dadi/Demes/Demes.py::_integrate_phi'

    @guarded(oid, fn)
    def go():
        out = []
        names = {1: 'one_pop', 2: 'two_pops', 3: 'three_pops', 4: 'four_pops', 5: 'five_pops'}
        for K in range(1, 6):
            ex = Executor()
            f = ex.func('dadi/Demes/Demes.py', '_integrate_phi')
            nu = VList([z3.Real('nu%d' % i) for i in range(1, K + 1)])
            M = Tm('M')
            gam = VList([z3.Real('gamma%d' % i) for i in range(1, K + 1)])
            hh = VList([z3.Real('h%d' % i) for i in range(1, K + 1)])
            frozen = VList([z3.Bool('frozen%d' % i) for i in range(1, K + 1)])
            T, theta = z3.Real('T'), z3.Real('theta')
            phi, xx = Tm('phi'), Tm('xx')
            pop_ids = VList(['d%d' % i for i in range(K)])
            paths = ex.run(f, [phi, xx, VList([nu, T, M, gam, hh, theta, frozen]), pop_ids])
            rets = [p for p in paths if p.outcome == 'return']
            if len(rets) != 1:
                out.append(struct('%s.%dD' % (oid, K), False, 'expected one returning path: %r' % paths, fn, undecided=True))
                continue
            t = rets[0].value
            if not (isinstance(t, Tm) and t.op == 'call:dadi.Integration.' + names[K]):
                out.append(struct('%s.%dD' % (oid, K), False, 'result is not Integration.%s(...): %s' % (names[K], vrepr(t)[:120]), fn))
                continue
            d = dict(zip(t.attrs['__argnames__'], t.args))
            probs = []
            if d['phi'] is not phi or d['xx'] is not xx or not (is_scalar(d['T']) and d['T'] is T):
                probs.append('phi/xx/T')
            sfx = lambda i: '' if K == 1 else str(i)
            for i in range(1, K + 1):
                if d['nu' + sfx(i)] is not nu.items[i - 1]:
                    probs.append('nu%d <- %s' % (i, vrepr(d['nu' + sfx(i)])))
                if d['gamma' + sfx(i)] is not gam.items[i - 1]:
                    probs.append('gamma%d' % i)
                if d['h' + sfx(i)] is not hh.items[i - 1]:
                    probs.append('h%d' % i)
                fz = d['frozen' + sfx(i)]
                if fz is not frozen.items[i - 1]:
                    probs.append('frozen%d <- %s' % (i, vrepr(fz)))
                for j in range(1, K + 1):
                    if i != j:
                        mij = d['m%d%d' % (i, j)]
                        if vrepr(mij) != 'getitem(M, (%d, %d))' % (i - 1, j - 1):
                            probs.append('m%d%d <- %s' % (i, j, vrepr(mij)))
            if not (is_scalar(d['theta0']) and d['theta0'] is theta):
                probs.append('theta0')
            out.append(struct('%s.%dD' % (oid, K), not probs, 'arguments of %s: %s' % (names[K], '; '.join(probs) or 'nu_i, m_ij=M[i-1,j-1], gamma_i, h_i, theta0, frozen_i each from its own slot'), fn,
                              finding_key='C16/_integrate_phi/%dD' % K))
        return out
    return go()


# ---------------------------------------------------------------- C17: point masses of positive selection
def c17_point_pos(Npos):
    oid = 'C17/Cache1D_mod.py:Cache1D.integrate_point_pos/Npos%d' % Npos
    fn = 'dadi/DFE/Cache1D_mod.py::Cache1D.integrate_point_pos'

    @guarded(oid, fn)
    def go():
        ex = Executor()
        f = ex.func('dadi/DFE/Cache1D_mod.py', 'Cache1D.integrate_point_pos')
        pp = reals('ppos', Npos)
        gp = reals('gpos', Npos)
        theta = z3.Real('theta')
        pdfp = reals('pdfparam', 2)
        params = tuple(pdfp) + tuple(x for pair in zip(pp, gp) for x in pair)
        me = Tm('self')
        spectra = VList([Tm('S(gpos%d)' % i) for i in range(Npos)], 'ndarray')
        me.attrs.update(gammas=VList(list(gp), 'ndarray'), spectra=spectra, params=(), ns=Tm('ns'), pts=Tm('pts'))
        integ = []

        def integrate(*a, **kw):
            integ.append((a, kw))
            return Tm('pdf_fs')
        me.attrs['integrate'] = PyFn(integrate, 'self.integrate')
        sel = Tm('sel_dist')
        paths = ex.run(f, [me, params, None, sel, theta], dict(Npos=Npos), base_pc=[gp[i] != gp[j] for i in range(Npos) for j in range(i + 1, Npos)])
        out = []
        rets = [p for p in paths if p.outcome == 'return']
        if not rets:
            return [struct(oid, False, 'no returning path: %r' % paths, fn, undecided=True)]
        for k, p in enumerate(rets):
            lf = linear_form(p.value)
            got = {}
            for key, (a, c) in lf.items():
                got[key] = c
            want = {'pdf_fs': 1 - sum(pp)}
            for i in range(Npos):
                want['call:class:dadi.Spectrum_mod.Spectrum(S(gpos%d))' % i] = pp[i] * theta
            out += linear_equal(got, want, p.pc, '%s.path%d' % (oid, k), fn, 'point-mass mixture')
            a, kw = integ[-1] if integ else ((), {})
            ok = len(a) >= 4 and tuple(a[0]) == tuple(pdfp) and a[2] is sel and a[3] is theta
            out.append(struct('%s.path%d.continuous-part' % (oid, k), bool(ok), 'self.integrate(pdf_params, None, sel_dist, theta, ...) gets the continuous parameters and theta', fn))
        return out
    return go()


def c17_point_pos_uncached():
    """Cache1D.integrate_point_pos with a positive gamma that is not in the cache and demo_sel_func given: the spectrum is computed by
    demo_sel_func(params + (gammapos,), ns, pts), the cache grows by exactly that gamma and that spectrum *as computed (theta = 1)*, and the result is
    (1 - ppos) * continuous part + theta * ppos * that spectrum - so that a later call with another theta finds a theta-free entry."""
    oid = 'C17/Cache1D_mod.py:Cache1D.integrate_point_pos/uncached'
    fn = 'dadi/DFE/Cache1D_mod.py::Cache1D.integrate_point_pos'

    @guarded(oid, fn)
    def go():
        def ah(ex_, fref, a, kw, ctx):
            nm = vrepr(fref)
            if isinstance(fref, FuncRef) and fref.qualname == 'make_extrap_func':
                return a[0]          # by contract (C07): with a single grid setting the wrapped function returns func(args, pts) itself
            if nm.endswith('Spectrum)') or 'Spectrum_mod.Spectrum' in nm or (isinstance(fref, ClassRef) and fref.node.name == 'Spectrum'):
                return a[0]
            return NotImplemented
        ex = Executor()
        ex.abstract_hook = ah
        f = ex.func('dadi/DFE/Cache1D_mod.py', 'Cache1D.integrate_point_pos')
        pp, gnew, theta = z3.Reals('ppos gnew theta')
        gc = reals('gcached', 2)
        pdfp = reals('pdfparam', 2)
        sc = [[z3.Real('S%d_%d' % (i, j)) for j in range(2)] for i in range(2)]
        snew = reals('Snew', 2)
        cont = reals('pdf_fs', 2)
        me = Tm('self')
        me.attrs.update(gammas=VList(list(gc), 'ndarray'), spectra=VList([VList(list(r), 'ndarray') for r in sc], 'ndarray'),
                        params=(z3.Real('demo_param'),), ns=Tm('ns'), pts=Tm('pts'))
        me.attrs['integrate'] = PyFn(lambda *a, **kw: VList(list(cont), 'ndarray'), 'self.integrate')
        dcalls = []

        def demo(params, ns, pts):
            dcalls.append((params, ns, pts))
            return VList(list(snew), 'ndarray')          # a spectrum, by value (its .data are these entries)
        hy = [gnew != g for g in gc] + [gc[0] != gc[1]]
        paths = ex.run(f, [me, tuple(pdfp) + (pp, gnew), None, Tm('sel_dist'), theta], dict(Npos=1, demo_sel_func=PyFn(demo, 'demo_sel_func')), base_pc=hy)
        out = []
        if len(paths) != 1 or paths[0].outcome != 'return':
            return [struct(oid, False, 'expected one returning path: %r' % paths[:2], fn, undecided=True)]
        p = paths[0]
        ok = len(dcalls) == 1 and [vrepr(x) for x in ex.iterate(dcalls[0][0])] == ['demo_param', 'gnew'] and dcalls[0][1] is me.attrs['ns'] and dcalls[0][2] is me.attrs['pts']
        out.append(struct(oid + '.computed-once', bool(ok), 'demo_sel_func(self.params + (gammapos,), self.ns, self.pts) exactly once: %s' % vrepr(dcalls)[:160], fn))
        gl = [vrepr(x) for x in ex.iterate(me.attrs['gammas'])]
        out.append(struct(oid + '.cache-gammas', gl == ['gcached0', 'gcached1', 'gnew'], 'the cache now lists the new gamma after the cached ones: %s' % gl, fn))
        rows = ex.iterate(me.attrs['spectra']) if isinstance(me.attrs['spectra'], VList) else []
        if len(rows) != 3 or not all(isinstance(r_, VList) and len(r_.items) == 2 for r_ in rows):
            out.append(struct(oid + '.cache-spectra', False, 'the cached spectra are not 3 rows of 2 entries: %s' % vrepr(me.attrs['spectra'])[:200], fn, undecided=True))
        else:
            for i_ in range(3):
                for j_ in range(2):
                    want = sc[i_][j_] if i_ < 2 else snew[j_]
                    out.append(prove_eq('%s.cache-spectra[%d,%d]' % (oid, i_, j_), hy + list(p.pc), rows[i_].items[j_], want, fn))
        res = ex.iterate(p.value) if isinstance(exact(p.value), VList) else None
        if res is None or len(res) != 2:
            out.append(struct(oid + '.value', False, 'result is not a 2-entry spectrum: %s' % vrepr(p.value)[:200], fn, undecided=True))
        else:
            for j_ in range(2):
                out.append(prove_eq('%s.value[%d]' % (oid, j_), hy + list(p.pc), res[j_], (1 - pp) * cont[j_] + theta * pp * snew[j_], fn))
        return out
    return go()


def c05_betabinom_convolution(i, n, ploidy):
    """Numerics.BetaBinomConvolution(i, n, alpha, beta, ploidy): P(sum of n iid beta-binomial(ploidy, alpha, beta) variables = i)
         = sum over the multisets {c_0..c_ploidy} of n individual counts with sum_p p c_p = i of  multinomial(c) * prod_p BB(p)^c_p
         = sum_k exp( multinomln(c_k) + sum_{p=0..ploidy} c_k[p] * BetaBinomln(p, ploidy, alpha, beta) )     -- every p from 0 to ploidy inclusive.
    BetaBinomln, multinomln (log-weights, uninterpreted) and the partition table of cached_part_precalc(i, n, maxval=ploidy) by contract (the table is
    the exhaustive one for these i, n, ploidy; C18 / memo-key obligations cover it); exp uninterpreted."""
    oid = 'C05/Numerics.py:BetaBinomConvolution/i%d_n%d_ploidy%d' % (i, n, ploidy)
    fn = 'dadi/Numerics.py::BetaBinomConvolution'

    @guarded(oid, fn)
    def go():
        al, be = z3.Reals('alpha beta')
        L = uf('BetaBinomln', 4)
        parts = [c for c in itertools.combinations_with_replacement(range(ploidy + 1), n) if sum(c) == i]
        counts = [[c.count(v) for v in range(ploidy + 1)] for c in parts]
        multi = [z3.Real('multinomln_%d' % k) for k in range(len(parts))]
        seen = []

        def pol(fr):
            if fr.qualname == 'cached_part_precalc':
                def stub(ex_, f_, a, kw):
                    seen.append((list(a), dict(kw)))
                    return (VList([VList(list(c)) for c in counts]), VList(list(multi)))
                return stub
            if fr.qualname == 'BetaBinomln':
                return lambda ex_, f_, a, kw: L(*[to_real(exact(x)) for x in a])
            return 'inline' if fr.qualname == 'BetaBinomConvolution' else 'abstract'
        ex = Executor(policy=pol)
        f = ex.func('dadi/Numerics.py', 'BetaBinomConvolution')
        paths = ex.run(f, [i, n, al, be], dict(ploidy=ploidy))
        if len(paths) != 1 or paths[0].outcome != 'return':
            return [struct(oid, False, 'expected one returning path: %r' % paths[:2], fn, undecided=True)]
        out = []
        a, kw = seen[0] if seen else ([], {})
        bound = dict(zip(['x', 'n', 'minval', 'maxval'], a)); bound.update(kw)
        ok = len(seen) == 1 and bound.get('x') == i and bound.get('n') == n and bound.get('minval', 0) == 0 and bound.get('maxval', 2) == ploidy
        out.append(struct(oid + '.partition-table', bool(ok), 'cached_part_precalc(i, n, minval 0, maxval = ploidy) once: %s' % (bound,), fn))
        E = uf('exp')
        want = z3.RealVal(0)
        for c, m in zip(counts, multi):
            want = want + E(sum((c[p] * L(z3.RealVal(p), z3.RealVal(ploidy), al, be) for p in range(ploidy + 1)), z3.RealVal(0)) + m)
        out.append(prove_eq(oid + '.value', list(paths[0].pc), paths[0].value, want, fn))
        return out
    return go()


def c18_partitions_and_probabilities(nseq):
    """LowPass.partitions_and_probabilities(nseq, ...) for nseq haplotypes (nseq/2 diploid individuals); Numerics.cached_part by contract (for these small
    sizes the table handed back IS the exhaustive list of genotype multisets {0,1,2}^(nseq/2) with the requested allele count - all and only the
    configurations), multinomln uninterpreted (log of the multinomial coefficient), exp uninterpreted and positive:
      'genotype', F = 0:  for every allele count a = 0..nseq, in order: partitions[a] = cached_part(a, nseq/2) and
                          probability of configuration c = W_c / sum_{c' with the same a} W_c',  W_c = exp(multinomln[c_0, c_1, c_2]) * 2^(number of heterozygotes)
                          -> each list sums to one (lemma over the closed form);
      'genotype', F != 0: probabilities[a] = part_inbreeding_probability(partitions[a], F)   (its own contract: C18 part_inbreeding);
      'allele_frequency': the same for the one requested allele count; an odd nseq and an unknown partition type are refused (ValueError)."""
    oid = 'C18/LowPass.py:partitions_and_probabilities/nseq%d' % nseq
    fn = 'dadi/LowPass/LowPass.py::partitions_and_probabilities'

    @guarded(oid, fn)
    def go():
        nind = nseq // 2
        table = {af: [list(c) for c in itertools.combinations_with_replacement((0, 1, 2), nind) if sum(c) == af] for af in range(nseq + 1)}
        M = uf('multinomln', 3)
        E = uf('exp')
        posE = [E(M(z3.RealVal(c.count(0)), z3.RealVal(c.count(1)), z3.RealVal(c.count(2)))) > 0 for af in table for c in table[af]]
        W = lambda c: E(M(z3.RealVal(c.count(0)), z3.RealVal(c.count(1)), z3.RealVal(c.count(2)))) * (2 ** c.count(1))
        out = []

        def mk():
            calls, pip = [], []

            def pol(fr):
                if fr.qualname == 'cached_part':
                    def stub(ex_, f_, a, kw):
                        calls.append(list(a))
                        x = exact(a[0])
                        x = int(x) if isinstance(x, (int, Fraction)) else x
                        return VList([VList(list(c)) for c in table[x]])
                    return stub
                if fr.qualname == 'multinomln':
                    return lambda ex_, f_, a, kw: M(*[to_real(exact(v)) for v in ex_.iterate(a[0])])
                if fr.qualname == 'part_inbreeding_probability':
                    def stub2(ex_, f_, a, kw):
                        pip.append(list(a))
                        return Tm('part_inbreeding_probability', *a)
                    return stub2
                return 'inline' if fr.qualname == 'partitions_and_probabilities' else 'abstract'
            ex = Executor(policy=pol)
            return ex, ex.func('dadi/LowPass/LowPass.py', 'partitions_and_probabilities'), calls, pip
        # --- genotype, F = 0
        ex, f, calls, pip = mk()
        paths = ex.run(f, [nseq, 'genotype'], {}, base_pc=posE)
        if len(paths) != 1 or paths[0].outcome != 'return':
            return [struct(oid + '.genotype', False, 'expected one returning path: %r' % paths[:2], fn, undecided=True)]
        parts, probs = ex.iterate(paths[0].value)
        okc = sorted([float(exact(v)) for v in c] for c in calls) == [[float(af), nseq / 2.0] for af in range(nseq + 1)]
        out.append(struct(oid + '.genotype.enumeration', bool(okc) and [[list(ex.iterate(c)) for c in ex.iterate(ps)] for ps in ex.iterate(parts)] == [table[af] for af in range(nseq + 1)],
                          'partitions[a] = cached_part(a, nseq/2) for a = 0..nseq (the list in the order of a): %s' % calls[:4], fn))
        pl = ex.iterate(probs)
        for af in range(nseq + 1):
            row = ex.iterate(pl[af]) if af < len(pl) else []
            if len(row) != len(table[af]):
                out.append(struct('%s.genotype.prob[%d]' % (oid, af), False, '%d probabilities for %d configurations' % (len(row), len(table[af])), fn))
                continue
            tot = sum((W(c) for c in table[af]), z3.RealVal(0))
            for k, c in enumerate(table[af]):
                out.append(prove_eq('%s.genotype.prob[%d][%d]' % (oid, af, k), posE + list(paths[0].pc), row[k], W(c) / tot, fn))
            out.append(prove_eq('%s.genotype.sum-to-one[%d]' % (oid, af), posE + list(paths[0].pc), sum((to_real(exact(x)) for x in row), z3.RealVal(0)), z3.RealVal(1), fn))
        # --- genotype, F != 0: delegated per allele count
        ex, f, calls, pip = mk()
        Fx = z3.Real('Fx')
        paths = ex.run(f, [nseq, 'genotype', Fx], {}, base_pc=posE + [Fx > 0, Fx < 1])
        ok = len(paths) == 1 and paths[0].outcome == 'return'
        if ok:
            pr = ex.iterate(ex.iterate(paths[0].value)[1])          # judged on the list handed back, not on the order in which it was computed
            ok = len(pr) == nseq + 1 and all(isinstance(t, Tm) and t.op == 'part_inbreeding_probability' and len(t.args) == 2 and t.args[1] is Fx
                                             and [list(ex.iterate(c)) for c in ex.iterate(t.args[0])] == table[af] for af, t in enumerate(pr))
        out.append(struct(oid + '.genotype.inbreeding-delegated', bool(ok), 'probabilities[a] = part_inbreeding_probability(partitions[a], Fx) for a = 0..nseq: %d calls' % len(pip), fn))
        # --- allele_frequency
        for af in (1, nseq // 2, nseq - 1):
            ex, f, calls, pip = mk()
            paths = ex.run(f, [nseq, 'allele_frequency'], dict(allele_frequency=af), base_pc=posE)
            tag = '%s.allele_frequency%d' % (oid, af)
            if len(paths) != 1 or paths[0].outcome != 'return':
                out.append(struct(tag, False, 'expected one returning path: %r' % paths[:2], fn, undecided=True))
                continue
            parts, probs = ex.iterate(paths[0].value)
            row = ex.iterate(probs)
            okp = [list(ex.iterate(c)) for c in ex.iterate(parts)] == table[af] and len(row) == len(table[af])
            out.append(struct(tag + '.enumeration', bool(okp), 'partitions = cached_part(allele_frequency, nseq/2): %s' % calls[:2], fn))
            if okp:
                tot = sum((W(c) for c in table[af]), z3.RealVal(0))
                for k, c in enumerate(table[af]):
                    out.append(prove_eq('%s.prob[%d]' % (tag, k), posE + list(paths[0].pc), row[k], W(c) / tot, fn))
        # --- refusals
        ex, f, calls, pip = mk()
        paths = ex.run(f, [nseq + 1, 'allele_frequency'], dict(allele_frequency=1))
        out.append(struct(oid + '.odd-refused', len(paths) == 1 and paths[0].outcome == 'raise' and paths[0].exc.kind == 'ValueError', 'an odd number of haplotypes is refused: %r' % paths[:1], fn))
        ex, f, calls, pip = mk()
        paths = ex.run(f, [nseq, 'genotypes'], {})
        out.append(struct(oid + '.unknown-type-refused', len(paths) == 1 and paths[0].outcome == 'raise' and paths[0].exc.kind == 'ValueError', 'an unknown partition type is refused: %r' % paths[:1], fn))
        return out
    return go()


def c18_precalc_roles(P):
    """LowPass.low_cov_precalc_GATK_multisample_GATK_multisample for P populations, every helper by contract (opaque results), analytic regime (no entry selected
    for simulation): population i's own coverage distribution, sequenced size, subsample size and inbreeding coefficient reach each helper -
      no-call factor i = probability_of_no_call_1D_GATK_multisample(cov_i, nseq_i, Fx_i), combined by outer products in population order;
      prob_enough = product over i of probability_enough_individuals_covered(cov_i, nseq_i, nsub_i);
      proj_mats[i] = prob_enough * projection_matrix(nseq_i, nsub_i, Fx_i);   heterr_mats[i] = calling_error_matrix(cov_i, nsub_i, Fx_i);
      the simulation switch compares that no-call probability with sim_threshold (simulate where it is larger; strictness at equality is not part of the contract)."""
    oid = 'C18/LowPass.py:low_cov_precalc_GATK_multisample_GATK_multisample/roles.%dpop' % P
    fn = 'dadi/LowPass/LowPass.py::low_cov_precalc_GATK_multisample_GATK_multisample'

    @guarded(oid, fn)
    def go():
        cov = VDict()
        for i in range(P):
            cov.d['pop%d' % i] = Tm('cov%d' % i)
        nseq = VList([z3.Int('nseq%d' % i) for i in range(P)])
        nsub = VList([z3.Int('nsub%d' % i) for i in range(P)])
        Fx = VList([z3.Real('Fx%d' % i) for i in range(P)])
        thr = z3.Real('sim_threshold')
        seen = {}

        def ah(ex_, fref, a, kw, ctx):
            nm = vrepr(fref)
            if isinstance(fref, FuncRef) and fref.qualname in ('probability_of_no_call_1D_GATK_multisample', 'probability_enough_individuals_covered', 'projection_matrix', 'calling_error_matrix'):
                t = Tm(fref.qualname, *a)
                seen.setdefault(fref.qualname, []).append(list(a))
                return t
            if 'multiply' in nm and 'outer' in nm:
                return Tm('outer', *a)
            if 'argwhere' in nm:
                seen['argwhere'] = list(a)
                return VList([], 'ndarray')
            if nm.endswith('numpy.prod') or 'numpy.prod' in nm:
                return Tm('prod', *a)
            return NotImplemented
        def gh(ex_, obj, name, ctx):
            if name == 'outer':          # numpy.multiply.outer (documented: all pairwise products, shape = a.shape + b.shape), kept opaque
                return PyFn(lambda a, b: Tm('outer', a, b), 'numpy.multiply.outer')
            return NotImplemented
        ex = Executor(getattr_hook=gh)
        ex.abstract_hook = ah
        f = ex.func('dadi/LowPass/LowPass.py', 'low_cov_precalc_GATK_multisample_GATK_multisample')
        paths = ex.run(f, [nsub, nseq, cov, thr, Fx], {})
        if len(paths) != 1 or paths[0].outcome != 'return':
            return [struct(oid, False, 'expected one returning path: %r' % paths[:2], fn, undecided=True)]
        pn, use_sim, proj, het, sims = ex.iterate(paths[0].value)
        out = []
        same = lambda a, b: vrepr(a) == vrepr(b)
        nc = seen.get('probability_of_no_call_1D_GATK_multisample', [])
        ok = len(nc) == P and all(same(a[0], cov.d['pop%d' % i]) and same(a[1], nseq.items[i]) and same(a[2], Fx.items[i]) for i, a in enumerate(nc))
        want = 1
        for i in range(P):
            want = Tm('outer', want, Tm('probability_of_no_call_1D_GATK_multisample', Tm('cov%d' % i), nseq.items[i], Fx.items[i]))
        out.append(struct(oid + '.no-call', bool(ok) and vrepr(pn) == vrepr(want), 'no-call array = outer product over populations, in order, of no_call(cov_i, nseq_i, Fx_i): %s' % vrepr(pn)[:200], fn))
        out.append(struct(oid + '.switch', vrepr(use_sim) in ('cmp:Gt(%s, sim_threshold)' % vrepr(want), 'cmp:GtE(%s, sim_threshold)' % vrepr(want), 'cmp:Lt(sim_threshold, %s)' % vrepr(want), 'cmp:LtE(sim_threshold, %s)' % vrepr(want)) and 'argwhere' in seen and seen['argwhere'][0] is use_sim,
                          'entries are simulated where the no-call probability exceeds (or reaches) sim_threshold: %s' % vrepr(use_sim)[:160], fn))
        en = seen.get('probability_enough_individuals_covered', [])
        ok = len(en) == P and all(same(a[0], cov.d['pop%d' % i]) and same(a[1], nseq.items[i]) and same(a[2], nsub.items[i]) for i, a in enumerate(en))
        out.append(struct(oid + '.enough-covered', bool(ok), 'enough_covered(cov_i, nseq_i, nsub_i) per population: %s' % vrepr(en)[:200], fn))
        def factors(t):
            if isinstance(t, Tm) and t.op == 'op:Mult':
                return [f_ for a_ in t.args for f_ in factors(a_)]
            if isinstance(t, Tm) and t.op == 'prod' and len(t.args) == 1 and isinstance(t.args[0], (VList, list, tuple)):
                return [f_ for a_ in ex.iterate(t.args[0]) for f_ in factors(a_)]
            return [] if (not isinstance(t, (Tm, VList)) and exact(t) == 1) else [vrepr(t)]
        pl = ex.iterate(proj)
        en_terms = ['probability_enough_individuals_covered(cov%d, nseq%d, nsub%d)' % (i, i, i) for i in range(P)]
        ok = len(pl) == P and all(sorted(factors(t)) == sorted(en_terms + ['projection_matrix(nseq%d, nsub%d, Fx%d)' % (i, i, i)]) for i, t in enumerate(pl))
        out.append(struct(oid + '.projection', bool(ok), 'proj_mats[i] = (product over populations of enough_covered) * projection_matrix(nseq_i, nsub_i, Fx_i): %s' % [sorted(factors(t)) for t in pl][:2], fn))
        hl = ex.iterate(het)
        ok = len(hl) == P and all(vrepr(t) == 'calling_error_matrix(cov%d, nsub%d, Fx%d)' % (i, i, i) for i, t in enumerate(hl))
        out.append(struct(oid + '.miscall', bool(ok), 'heterr_mats[i] = calling_error_matrix(cov_i, nsub_i, Fx_i): %s' % vrepr(hl)[:200], fn))
        return out
    return go()


def c18_lowpass_wrapper():
    """LowPass.make_low_pass_func_GATK_multisample(func, cov_dist, pop_ids, nseq, nsub, ...): refusal of Fx = 1; the wrapped function evaluates the model
    with the *sequenced* sample sizes in place of its second argument (other arguments and keywords passed through), refuses a folded model, takes
    the transformation matrices from the precalculation with (nsub, nseq, cov_dist, sim_threshold, Fx, nsim) in their roles, and - one population, every
    entry symbolic, precalculated matrices by contract - returns
        output[k] = sum_j ( sum_i model[i] (1 - use_sim[i]) (1 - nocall[i]) proj[i][j] ) heterr[j][k]  +  sum_{af simulated} model[af] sim[af][k]
    with the model's folded flag and extrap_x."""
    oid = 'C18/LowPass.py:make_low_pass_func_GATK_multisample'
    fn = 'dadi/LowPass/LowPass.py::make_low_pass_func_GATK_multisample'

    @guarded(oid, fn)
    def go():
        out = []
        nseq_n, nsub_n = 3, 2          # entries of the model spectrum: nseq+1 = 4; of the output: nsub+1 = 3
        m = reals('model', nseq_n + 1)
        nocall = reals('nocall', nseq_n + 1)
        proj = [[z3.Real('proj%d_%d' % (i, j)) for j in range(nsub_n + 1)] for i in range(nseq_n + 1)]
        het = [[z3.Real('het%d_%d' % (j, k)) for k in range(nsub_n + 1)] for j in range(nsub_n + 1)]
        sim1 = reals('sim_af1', nsub_n + 1)
        use_sim = [False, True, False, False]
        pre_calls, model_calls = [], []
        extrap = Tm('extrap_x')

        def pol(fr):
            if fr.qualname == 'low_cov_precalc_GATK_multisample_GATK_multisample':
                def stub(ex_, f_, a, kw):
                    pre_calls.append((list(a), dict(kw)))
                    sims = VDict()
                    sims.d[(1,)] = VList(list(sim1), 'ndarray')
                    return (VList(list(nocall), 'ndarray'), VList(list(use_sim), 'ndarray'), VList([VList([VList(list(r), 'ndarray') for r in proj], 'ndarray')]),
                            VList([VList([VList(list(r), 'ndarray') for r in het], 'ndarray')]), sims)
                return stub
            return 'inline' if fr.qualname in ('make_low_pass_func_GATK_multisample',) else 'abstract'
        nseq, nsub = VList([nseq_n]), VList([nsub_n])
        cov, thr, Fx, nsim = Tm('cov_dist'), z3.Real('sim_threshold'), VList([z3.Real('Fx0')]), z3.Int('nsim')
        folded = [False]

        def model_func(params, ns, pts, **kw):
            model_calls.append(([params, ns, pts], dict(kw)))
            v = VList(list(m), 'ndarray')
            v.attrs = dict(folded=folded[0], extrap_x=extrap)
            return v
        func = PyFn(model_func, 'func')
        func.attrs = dict(__name__='model', __doc__='doc') if hasattr(func, 'attrs') else None
        ex = Executor(policy=pol)
        mk = ex.func('dadi/LowPass/LowPass.py', 'make_low_pass_func_GATK_multisample')
        params, pts = Tm('params'), Tm('pts')

        def thunk(e):
            lf = e.call(mk, [func, cov, VList(['A']), nseq, nsub], dict(sim_threshold=thr, Fx=Fx, nsim=nsim))
            r1 = e.call(lf, [params, VList([7]), pts], dict(extra=5))
            r2 = e.call(lf, [params, VList([7]), pts], {})
            return r1, r2
        paths = ex.explore(thunk, base_pc=[Fx.items[0] != 1])
        rets = [p for p in paths if p.outcome == 'return']
        if len(rets) != 1 or len(paths) != 1:
            return [struct(oid, False, 'expected one returning path: %r' % paths[:3], fn, undecided=True)]
        r1, r2 = rets[0].value
        a0, k0 = model_calls[0] if model_calls else ([None] * 3, {})
        ok = len(model_calls) == 2 and a0[0] is params and a0[1] is nseq and a0[2] is pts and k0 == dict(extra=5)
        out.append(struct(oid + '.model-call', bool(ok), 'func(params, nseq, pts, **kwargs): the sequenced sample sizes replace the second argument: %s' % vrepr(model_calls[:1])[:200], fn))
        sig = ['nsub', 'nseq', 'cov_dist', 'sim_threshold', 'Fx', 'nsim']
        ok = len(pre_calls) >= 1
        for pa, pk in pre_calls:
            b = dict(zip(sig, pa)); b.update(pk)
            ok = ok and b.get('nsub') is nsub and b.get('nseq') is nseq and b.get('cov_dist') is cov and b.get('sim_threshold') is thr and b.get('Fx') is Fx and b.get('nsim') is nsim
        out.append(struct(oid + '.precalc-roles', bool(ok), 'the matrices come from low_cov_precalc(nsub, nseq, cov_dist, sim_threshold, Fx, nsim=nsim), every argument in its role (%d call(s) for two evaluations; caching is not part of the contract)' % len(pre_calls), fn))
        res = ex.iterate(r1)
        if len(res) != nsub_n + 1:
            out.append(struct(oid + '.value', False, 'result has %d entries' % len(res), fn, undecided=True))
        else:
            for k in range(nsub_n + 1):
                want = sum((sum((m[i] * (0 if use_sim[i] else 1) * (1 - nocall[i]) * proj[i][j] for i in range(nseq_n + 1)), z3.RealVal(0)) * het[j][k] for j in range(nsub_n + 1)), z3.RealVal(0)) + m[1] * sim1[k]
                out.append(prove_eq('%s.value[%d]' % (oid, k), list(rets[0].pc), res[k], want, fn))
        at = getattr(r1, 'attrs', {}) or {}
        out.append(struct(oid + '.flags', at.get('folded') is False and at.get('extrap_x') is extrap, 'folded flag and extrap_x of the model carried: %s' % {k_: vrepr(v) for k_, v in at.items()}, fn))
        # refusals
        folded[0] = True
        paths = ex.explore(lambda e: e.call(e.call(mk, [func, cov, VList(['A']), nseq, nsub], dict(Fx=Fx)), [params, VList([7]), pts], {}), base_pc=[Fx.items[0] != 1])
        out.append(struct(oid + '.folded-refused', len(paths) == 1 and paths[0].outcome == 'raise' and paths[0].exc.kind == 'ValueError', 'a folded model spectrum is refused: %r' % paths[:1], fn))
        folded[0] = False
        paths = ex.explore(lambda e: e.call(mk, [func, cov, VList(['A']), nseq, nsub], dict(Fx=VList([1]))))
        out.append(struct(oid + '.F1-refused', len(paths) == 1 and paths[0].outcome == 'raise' and paths[0].exc.kind == 'ValueError', 'Fx = 1 is refused: %r' % paths[:1], fn))
        return out
    return go()


def c18_lowpass_wrapper_2pop():
    """The wrapped function of make_low_pass_func_GATK_multisample on two populations (model 2 x 3, output 2 x 2, every entry symbolic; the precalculated
    arrays by contract; one entry simulated): each axis is transformed by *its own* projection and miscall matrices,
        output[a,b] = sum_{i,j} model[i,j] (1 - use_sim[i,j]) (1 - nocall[i,j]) (P1 H1)[i,a] (P2 H2)[j,b]  +  sum_{(i,j) simulated} model[i,j] sim_(i,j)[a,b]."""
    oid = 'C18/LowPass.py:make_low_pass_func_GATK_multisample/2pop'
    fn = 'dadi/LowPass/LowPass.py::make_low_pass_func_GATK_multisample'

    @guarded(oid, fn)
    def go():
        shp_in, shp_out = (2, 3), (2, 2)
        m = [[z3.Real('model%d_%d' % (i, j)) for j in range(3)] for i in range(2)]
        nc = [[z3.Real('nocall%d_%d' % (i, j)) for j in range(3)] for i in range(2)]
        us = [[False, False, False], [False, False, True]]
        P = [[[z3.Real('proj%d_%d_%d' % (k, i, a)) for a in range(shp_out[k])] for i in range(shp_in[k])] for k in range(2)]
        H = [[[z3.Real('het%d_%d_%d' % (k, a, b)) for b in range(shp_out[k])] for a in range(shp_out[k])] for k in range(2)]
        sim = [[z3.Real('sim%d_%d' % (a, b)) for b in range(2)] for a in range(2)]
        arr2 = lambda rows: VList([VList(list(r), 'ndarray') for r in rows], 'ndarray')

        def pol(fr):
            if fr.qualname == 'low_cov_precalc_GATK_multisample_GATK_multisample':
                def stub(ex_, f_, a, kw):
                    sims = VDict()
                    sims.d[(1, 2)] = arr2(sim)
                    return (arr2(nc), arr2(us), VList([arr2(P[0]), arr2(P[1])]), VList([arr2(H[0]), arr2(H[1])]), sims)
                return stub
            return 'inline' if fr.qualname == 'make_low_pass_func_GATK_multisample' else 'abstract'

        def model_func(params, ns, pts):
            v = arr2(m)
            v.attrs = dict(folded=False, extrap_x=None)
            return v
        ex = Executor(policy=pol)
        mk = ex.func('dadi/LowPass/LowPass.py', 'make_low_pass_func_GATK_multisample')
        paths = ex.explore(lambda e: e.call(e.call(mk, [PyFn(model_func, 'func'), Tm('cov'), VList(['A', 'B']), VList([1, 2]), VList([1, 1])], {}), [Tm('params'), VList([5, 5]), Tm('pts')], {}))
        if len(paths) == 1 and paths[0].outcome == 'raise':
            return [struct(oid + '.returns', False, 'raises on a valid request: %r' % paths[0], fn)]
        if len(paths) != 1 or paths[0].outcome != 'return':
            return [struct(oid, False, 'expected one returning path: %r' % paths[:2], fn, undecided=True)]
        res = paths[0].value
        out = []
        PH = [[[sum((P[k][i][c] * H[k][c][a] for c in range(shp_out[k])), z3.RealVal(0)) for a in range(shp_out[k])] for i in range(shp_in[k])] for k in range(2)]
        for a in range(2):
            for b in range(2):
                want = sum((m[i][j] * (0 if us[i][j] else 1) * (1 - nc[i][j]) * PH[0][i][a] * PH[1][j][b] for i in range(2) for j in range(3)), z3.RealVal(0)) + m[1][2] * sim[a][b]
                try:
                    got = exact(exact(res.items[a]).items[b])
                except Exception:
                    out.append(struct('%s.value[%d,%d]' % (oid, a, b), False, 'result is not 2 x 2: %s' % vrepr(res)[:200], fn, undecided=True))
                    continue
                out.append(prove_eq('%s.value[%d,%d]' % (oid, a, b), list(paths[0].pc), got, want, fn))
        return out
    return go()


# ---------------------------------------------------------------- C20: frame of the integrators (syntactic dataflow)
def c20_integrator_frame():
    oid = 'C20/Integration.py'
    out = []
    mod = ModInfo.load('dadi/Integration.py')
    for name in ('one_pop', 'two_pops', 'three_pops', 'four_pops', 'five_pops'):
        fn = 'dadi/Integration.py::' + name
        node = mod.funcs[name]
        body = [s for s in node.body if not (isinstance(s, ast.Expr) and isinstance(s.value, ast.Constant))]
        first_use = None
        copied = False
        for st in body:
            is_copy = (isinstance(st, ast.Assign) and len(st.targets) == 1 and isinstance(st.targets[0], ast.Name) and st.targets[0].id == 'phi'
                       and isinstance(st.value, ast.Call) and isinstance(st.value.func, ast.Attribute) and st.value.func.attr == 'copy'
                       and isinstance(st.value.func.value, ast.Name) and st.value.func.value.id == 'phi' and not st.value.args)
            if is_copy:
                copied = True
                break
            if any(isinstance(n, ast.Name) and n.id == 'phi' for n in ast.walk(st)):
                first_use = st.lineno
                break
        out.append(struct('%s:%s/fresh-copy-before-any-use' % (oid, name), copied and first_use is None,
                          'the parameter phi is rebound to phi.copy() (C-contiguous, fresh) before any other use%s' % ('' if first_use is None else '; first use at line %d' % first_use), fn,
                          finding_key='C20/%s/works-on-callers-array' % name))
        # every return value is the local phi (the copy) or a call result, never another parameter
        bad = []
        for st in ast.walk(node):
            if isinstance(st, ast.Return) and st.value is not None:
                if isinstance(st.value, ast.Name) and st.value.id != 'phi':
                    bad.append(st.lineno)
        out.append(struct('%s:%s/returns-local' % (oid, name), not bad, 'returns only the local density: %s' % bad, fn))
        # the grid handed to the kernels is made contiguous
        xx_ok = any(isinstance(st, ast.Assign) and isinstance(st.targets[0], ast.Name) and st.targets[0].id == 'xx' and isinstance(st.value, ast.Call)
                    and getattr(st.value.func, 'attr', '') == 'ascontiguousarray' for st in body[:6])
        out.append(struct('%s:%s/contiguous-grid' % (oid, name), xx_ok, 'xx is made C-contiguous before it can reach a compiled kernel', fn,
                          finding_key='C20/%s/noncontiguous-grid' % name))
    return out


def c20_frame_small():
    """perturb_params / _project_params_*: argument lists are not mutated (E2 frame, all paths)."""
    out = []
    ex = Executor()
    f = ex.func('dadi/Misc.py', 'perturb_params')
    n = 2

    def thunk(e):
        p = VList(reals('p', n), 'ndarray'); p.owner = 'params'
        lb = VList([z3.Real('lb0'), None]); lb.owner = 'lower_bound'
        ub = VList([None, z3.Real('ub1')]); ub.owner = 'upper_bound'
        e.apply(f.node, None, f.mod, [p], dict(lower_bound=lb, upper_bound=ub), 'perturb_params')
        return [x for x in e.ctx.log if x[0] == 'mutate' and x[3] in ('params', 'lower_bound', 'upper_bound')], list(lb.items), list(ub.items)
    try:
        paths = ex.explore(thunk)
        for k, p in enumerate(paths):
            if p.outcome == 'return':
                bad, lbi, ubi = p.value
                ok = not bad and lbi[1] is None and ubi[0] is None
                out.append(struct('C20/Misc.py:perturb_params/frame.path%d' % k, ok, "caller's lists (with None entries) unchanged: %r" % (bad,), 'dadi/Misc.py::perturb_params',
                                  finding_key='C20/perturb_params/frame'))
        if not paths:
            out.append(struct('C20/Misc.py:perturb_params/frame', False, 'no path', 'dadi/Misc.py::perturb_params', undecided=True))
    except Unsupported as e:
        out.append(R('C20/Misc.py:perturb_params/frame', 'proof', 'undecided', detail=str(e), func='dadi/Misc.py::perturb_params'))
    return out


# ---------------------------------------------------------------- C05: every population's sampling factor uses its own quantities
def c05_inbreeding_1d(n=2, G=4):
    """Spectrum._from_phi_1D_direct_inbreeding(n, xx, phi, F, ploidy 2) on a G-point grid, BetaBinomConvolution uninterpreted:
         data[d] = trapz_k( BBC(d, n/2, alpha_k, beta_k) * phi_k )   for EVERY d = 0..n (the two end entries included: they are part of the total),
       alpha_k = x_k (1-F)/F, beta_k = (1-x_k)(1-F)/F, with the two end grid points moved in by 1e-20 as the code documents;
       an n not divisible by the ploidy is refused."""
    oid = 'C05/Spectrum_mod.py:Spectrum._from_phi_1D_direct_inbreeding/n%d_G%d' % (n, G)
    fn = 'dadi/Spectrum_mod.py::Spectrum._from_phi_1D_direct_inbreeding'

    @guarded(oid, fn)
    def go():
        xs = reals('x', G)
        ph = reals('phi', G)
        F = z3.Real('F')
        hy = [xs[i] < xs[i + 1] for i in range(G - 1)] + [F > 0, F < 1]
        BB = uf('BetaBinomConvolution', 4)

        def pol(fr):
            if fr.qualname == 'BetaBinomConvolution':
                return lambda ex_, f_, a, kw: BB(to_real(exact(a[0])), to_real(exact(a[1])), to_real(exact(a[2])), to_real(exact(a[3])))
            return 'inline' if fr.qualname in ('Spectrum._from_phi_1D_direct_inbreeding', 'trapz') else 'abstract'
        made = []

        def ah(ex_, fref, a, kw, ctx):
            if (isinstance(fref, ClassRef) and fref.node.name == 'Spectrum') or (isinstance(fref, Tm) and 'Spectrum' in fref.op):
                made.append(dict(kw))
                return a[0]
            return NotImplemented
        ex = Executor(policy=pol)
        ex.abstract_hook = ah
        f = ex.func('dadi/Spectrum_mod.py', 'Spectrum._from_phi_1D_direct_inbreeding')
        mc = z3.Bool('mask_corners')
        paths = ex.run(f, [n, VList(list(xs), 'ndarray'), VList(list(ph), 'ndarray'), F], dict(mask_corners=mc), base_pc=hy)
        if len(paths) != 1 or paths[0].outcome != 'return' or len(made) != 1:
            return [struct(oid, False, 'expected one returning path constructing one Spectrum: %r' % paths[:2], fn, undecided=True)]
        res = paths[0].value
        pc = hy + list(paths[0].pc)
        out = [struct(oid + '.shape', isinstance(res, VList) and len(res.items) == n + 1, 'n + 1 entries', fn, finding_key='C05/inbreeding-1d')]
        if not (isinstance(res, VList) and len(res.items) == n + 1):
            return out
        c = (1 - F) / F
        tiny = z3.RealVal('1/100000000000000000000')
        al = [xs[k] * c for k in range(G)]
        be = [(1 - xs[k]) * c for k in range(G)]
        al[0], al[G - 1] = tiny * c, (1 - tiny) * c
        be[0], be[G - 1] = (1 - tiny) * c, tiny * c
        w = _trapz_weights(xs)
        for d in range(n + 1):
            want = sum((w[k] * BB(z3.RealVal(d), z3.RealVal(n) / 2, al[k], be[k]) * ph[k] for k in range(G)), z3.RealVal(0))
            out.append(prove_eq('%s.entry%d' % (oid, d), pc, res.items[d], want, fn, finding_key='C05/inbreeding-1d'))
        okm = made[0].get('mask_corners') is mc or (isinstance(made[0].get('mask_corners'), z3.ExprRef) and made[0]['mask_corners'].eq(mc))
        out.append(struct(oid + '.mask_corners-forwarded', bool(okm), 'the caller\'s mask_corners reaches the constructor', fn, finding_key='C05/inbreeding-1d'))
        paths2 = ex.run(f, [3, VList(list(xs), 'ndarray'), VList(list(ph), 'ndarray'), F], {}, base_pc=hy)
        out.append(struct(oid + '.odd-n-refused', len(paths2) == 1 and paths2[0].outcome == 'raise', 'n not divisible by the ploidy raises', fn))
        return out
    return go()


def c05_inbreeding_roles():
    oid = 'C05/Spectrum_mod.py'
    out = []
    mod = ModInfo.load('dadi/Spectrum_mod.py')
    for q, node in mod.funcs.items():
        if not re.search(r'_from_phi_\dD_direct_inbreeding$', q):
            continue
        fn = 'dadi/Spectrum_mod.py::' + q
        probs, n = [], 0
        for c in ast.walk(node):
            if isinstance(c, ast.Call) and getattr(c.func, 'id', getattr(c.func, 'attr', '')) == 'BetaBinomConvolution':
                n += 1
                names = []
                for a in list(c.args[1:]) + [k.value for k in c.keywords]:
                    for nm in ast.walk(a):
                        if isinstance(nm, ast.Name) and re.match(r'(nInd|alpha|beta|ploidy)[xyz]$', nm.id):
                            names.append(nm.id)
                sfx = {x[-1] for x in names}
                if len(sfx) != 1 or len(names) < 3:
                    probs.append('line %d mixes populations: %s' % (c.lineno, names))
        out.append(struct('%s:%s/per-population-roles' % (oid, q), n >= 1 and not probs,
                          '; '.join(probs) or '%d BetaBinomConvolution calls, each built from one population\'s own nInd/alpha/beta/ploidy' % n, fn,
                          finding_key='C05/inbreeding/roles/%s' % q))
    if not out:
        out.append(struct(oid + '/per-population-roles', False, 'no _from_phi_*D_direct_inbreeding functions found', 'dadi/Spectrum_mod.py', undecided=True))
    return out


# ---------------------------------------------------------------- C06: pulses use the destination population's own grid and axis
GRIDS = ['xx', 'yy', 'zz', 'aa', 'bb']


def c06_pulse_roles():
    oid = 'C06/PhiManip.py'
    out = []
    mod = ModInfo.load('dadi/PhiManip.py')
    for q, node in mod.funcs.items():
        m = re.match(r'phi_(\d)D_admix_.*into_(\d)$', q)
        if not m:
            continue
        K, dest = int(m.group(1)), int(m.group(2))
        fn = 'dadi/PhiManip.py::' + q
        dgrid = GRIDS[dest - 1]
        probs = []
        helper_calls = trapz_calls = stores = 0
        for c in ast.walk(node):
            if isinstance(c, ast.Call):
                nm = getattr(c.func, 'id', getattr(c.func, 'attr', ''))
                if nm.endswith('_admixture_intermediates'):
                    helper_calls += 1
                    last = c.args[-1]
                    grids = [a.id for a in c.args if isinstance(a, ast.Name) and a.id in GRIDS]
                    if not (isinstance(last, ast.Name) and last.id == dgrid):
                        probs.append('line %d: destination grid handed to the helper is %s (expected %s)' % (c.lineno, ast.unparse(last), dgrid))
                    if grids[:K] != GRIDS[:K]:
                        probs.append('line %d: source grids not in population order: %s' % (c.lineno, grids))
                if nm == 'trapz':
                    trapz_calls += 1
                    g = c.args[1] if len(c.args) > 1 else None
                    if not (isinstance(g, ast.Name) and g.id == dgrid):
                        probs.append('line %d: integrates over %s (expected the destination grid %s)' % (c.lineno, ast.unparse(g) if g is not None else None, dgrid))
            if isinstance(c, ast.Assign) and isinstance(c.targets[0], ast.Subscript) and isinstance(c.targets[0].value, ast.Name) and c.targets[0].value.id == 'phi':
                sl = c.targets[0].slice
                elts = sl.elts if isinstance(sl, ast.Tuple) else [sl]
                if any(isinstance(e, ast.Slice) for e in elts):
                    stores += 1
                    full = [i for i, e in enumerate(elts) if isinstance(e, ast.Slice)]
                    if K > 2 or len(elts) > 1:
                        if full != [dest - 1]:
                            probs.append('line %d: result written along axis %s (expected destination axis %d)' % (c.lineno, full, dest - 1))
        ok = helper_calls == 1 and trapz_calls >= 1 and not probs
        out.append(struct('%s:%s/destination-roles' % (oid, q), ok, '; '.join(probs) or 'helper gets grids in population order and the destination grid %s; integrates over %s; writes along axis %d' % (dgrid, dgrid, dest - 1), fn,
                          finding_key='C06/pulse-roles/%s' % q))
    if not out:
        out.append(struct(oid + '/destination-roles', False, 'no pulse functions found', 'dadi/PhiManip.py', undecided=True))
    return out


# ---------------------------------------------------------------- C01: closed forms of the equilibrium density (grid of 5 points, symbolic values)
def c01_phi_1D_snm():
    oid = 'C01/PhiManip.py:phi_1D_snm'
    fn = 'dadi/PhiManip.py::phi_1D_snm'

    @guarded(oid, fn)
    def go():
        ex = Executor()
        f = ex.func('dadi/PhiManip.py', 'phi_1D_snm')
        n = 5
        xs = reals('x', n)
        nu, th, beta = z3.Reals('nu theta0 beta')
        hy = [xs[i] < xs[i + 1] for i in range(n - 1)] + [xs[0] >= 0, xs[-1] <= 1, nu > 0, th > 0, beta > 0]
        paths = ex.run(f, [VList(xs, 'ndarray')], dict(nu=nu, theta0=th, beta=beta), base_pc=hy)
        out = []
        fac = nu * th * 4 * beta / ((beta + 1) * (beta + 1))
        for k, p in enumerate(paths):
            if p.outcome != 'return':
                out.append(struct('%s.path%d' % (oid, k), False, 'raises %s' % p.exc, fn))
                continue
            v = p.value
            if not (isinstance(v, VList) and len(v.items) == n):
                out.append(struct('%s.path%d' % (oid, k), False, 'result %s' % vrepr(v)[:100], fn, undecided=True))
                continue
            for j in range(1, n):
                out.append(prove_eq('%s.path%d.x*phi[%d]' % (oid, k, j), p.pc, xs[j] * to_real(v.items[j]), fac, func=fn, timeout_ms=20000))
            from vf import smt
            zero_first = smt.check(p.pc, xs[0] == 0, timeout_ms=3000, use_cli=False)['status'] == 'proved'
            if zero_first:
                out.append(prove_eq('%s.path%d.phi[0]=phi[1]' % (oid, k), p.pc, v.items[0], v.items[1], func=fn))
            else:
                out.append(prove_eq('%s.path%d.x*phi[0]' % (oid, k), p.pc, xs[0] * to_real(v.items[0]), fac, func=fn, timeout_ms=20000))
        out.append(struct(oid + '.paths', len(paths) == 2, '%d paths (grid starting at 0 / not)' % len(paths), fn, undecided=len(paths) != 2))
        return out
    return go()


def c01_phi_1D_dispatch():
    """phi_1D: h == 0.5 -> phi_1D_genic(xx, nu, theta0, gamma, beta);  genic gamma == 0 -> phi_1D_snm(xx, nu, theta0, beta);
    deprecated theta rejected."""
    oid = 'C01/PhiManip.py:phi_1D/dispatch'
    fn = 'dadi/PhiManip.py::phi_1D'

    @guarded(oid, fn)
    def go():
        out = []
        ex = Executor()
        f = ex.func('dadi/PhiManip.py', 'phi_1D')
        xx = Tm('xx')
        nu, th, g, beta = z3.Reals('nu theta0 gamma beta')
        paths = ex.run(f, [xx], dict(nu=nu, theta0=th, gamma=g, h=Fraction(1, 2), beta=beta))
        ok = len(paths) == 1 and paths[0].outcome == 'return' and isinstance(paths[0].value, Tm) and paths[0].value.op == 'call:dadi.PhiManip.phi_1D_genic'
        if ok:
            d = dict(zip(paths[0].value.attrs['__argnames__'], paths[0].value.args))
            ok = d['xx'] is xx and d['nu'] is nu and d['theta0'] is th and d['gamma'] is g and d['beta'] is beta
        out.append(struct(oid + '.h-half', bool(ok), 'h == 0.5 delegates to phi_1D_genic(xx, nu, theta0, gamma, beta=beta): %r' % paths, fn))
        f2 = ex.func('dadi/PhiManip.py', 'phi_1D_genic')
        paths = ex.run(f2, [xx], dict(nu=nu, theta0=th, gamma=0, beta=beta))
        ok = len(paths) == 1 and paths[0].outcome == 'return' and isinstance(paths[0].value, Tm) and paths[0].value.op == 'call:dadi.PhiManip.phi_1D_snm'
        if ok:
            d = dict(zip(paths[0].value.attrs['__argnames__'], paths[0].value.args))
            ok = d['xx'] is xx and d['nu'] is nu and d['theta0'] is th and d['beta'] is beta
        out.append(struct('C01/PhiManip.py:phi_1D_genic/neutral-limit', bool(ok), 'gamma == 0 delegates to phi_1D_snm(xx, nu, theta0, beta=beta): %r' % paths, 'dadi/PhiManip.py::phi_1D_genic',
                          finding_key='C01/phi_1D_genic/neutral-limit'))
        for fq in ('phi_1D', 'phi_1D_genic', 'phi_1D_snm'):
            ff = ex.func('dadi/PhiManip.py', fq)
            paths = ex.run(ff, [xx], dict(theta=z3.Real('theta')))
            out.append(struct('C01/PhiManip.py:%s/deprecated-theta' % fq, len(paths) >= 1 and all(p.outcome == 'raise' and p.exc.kind == 'ValueError' for p in paths),
                              'passing the deprecated theta raises ValueError', 'dadi/PhiManip.py::' + fq))
        return out
    return go()


def c01_phi_1D_genic():
    """interior closed form on a 5-point grid, for gamma > -300 (and the large-negative asymptote): the exponent carries gamma*nu*4beta/(beta+1)^2
    and the prefactor nu*theta0*4beta/(beta+1)^2"""
    oid = 'C01/PhiManip.py:phi_1D_genic/closed-form'
    fn = 'dadi/PhiManip.py::phi_1D_genic'

    @guarded(oid, fn)
    def go():
        ex = Executor(max_paths=64)
        f = ex.func('dadi/PhiManip.py', 'phi_1D_genic')
        n = 5
        xs = [z3.RealVal(0)] + reals('x', n - 2) + [z3.RealVal(1)]
        nu, th, g, beta = z3.Reals('nu theta0 gamma beta')
        hy = [xs[i] < xs[i + 1] for i in range(n - 1)] + [nu > 0, th > 0, beta > 0, g != 0]
        paths = ex.run(f, [VList(xs, 'ndarray')], dict(nu=nu, theta0=th, gamma=g, beta=beta), base_pc=hy)
        out = []
        E = uf('exp')
        G = g * nu * 4 * beta / ((beta + 1) * (beta + 1))
        fac = nu * th * 4 * beta / ((beta + 1) * (beta + 1))
        from vf import smt
        for k, p in enumerate(paths):
            if p.outcome != 'return':
                out.append(struct('%s.path%d' % (oid, k), False, 'raises %s' % p.exc, fn))
                continue
            v = p.value
            regular = smt.check(p.pc, G > -300, timeout_ms=3000, use_cli=False)['status'] == 'proved'
            for j in range(1, n - 1):
                x = xs[j]
                want = fac / (x * (1 - x)) * ((1 - E(-2 * G * (1 - x))) / (1 - E(-2 * G)) if regular else E(2 * G * x))
                out.append(prove_eq('%s.path%d.%s.phi[%d]' % (oid, k, 'regular' if regular else 'asymptote', j), p.pc + [E(-2 * G) != 1], v.items[j], want, func=fn, timeout_ms=30000))
            out.append(prove_eq('%s.path%d.phi[0]=phi[1]' % (oid, k), p.pc, v.items[0], v.items[1], func=fn))
            # the x = 1 end carries the analytic limit, scaled like every other entry: prefactor * 2G e^{2G}/(e^{2G} - 1)  (2G beyond the overflow guard)
            small = smt.check(p.pc, G < 300, timeout_ms=3000, use_cli=False)['status'] == 'proved'
            large = smt.check(p.pc, G >= 300, timeout_ms=3000, use_cli=False)['status'] == 'proved'
            if small or large:
                lim = 2 * G * E(2 * G) / (E(2 * G) - 1) if small else 2 * G
                out.append(prove_eq('%s.path%d.phi[-1]' % (oid, k), p.pc + [E(2 * G) != 1], v.items[n - 1], fac * lim, func=fn, timeout_ms=30000,
                                    finding_key='C01/phi_1D_genic/boundary'))
            else:
                out.append(struct('%s.path%d.phi[-1]' % (oid, k), False, 'the path does not decide which form of the x = 1 limit applies', fn, undecided=True))
        out.append(struct(oid + '.paths', len(paths) >= 2, '%d paths' % len(paths), fn, undecided=len(paths) < 2))
        return out
    return go()


def c01_phi_1D_general_h():
    """PhiManip.phi_1D for h != 1/2 on a 4-point [0,1] grid, all of nu, theta0, gamma, beta, h symbolic; scipy.integrate.quad by its axiom (it returns
    the integral of the function it is given over the limits it is given; every call checked for integrand and limits by applying the integrand
    object to a fresh symbol).  With G = gamma nu 4beta/(beta+1)^2, Q(x) = 4 G h x + 2 G (1-2h) x^2, F = nu theta0 4beta/(beta+1)^2:
      * the overflow guard tests exp(-2G) of the SAME rescaled G the integrands use: Qadjust = -2G iff G < 0 and exp(-2G) overflows, else 0
        (whether exp overflows is an uninterpreted predicate of its argument);
      * G < 0:  I0 = int_0^1 exp(-Q - Qadjust),  I(x) = int_x^1 exp(-Q - Qadjust);   interior phi = F exp(Q(x)) I(x) / I0 / (x(1-x))
      * G >= 0: I0 as above with Qadjust = 0,  I(x) = int_x^1 exp(-(Q(xi) - Q(x))) dxi;  interior phi = F I(x) / I0 / (x(1-x))
      * phi[0] = phi[1];  phi[-1] = F / I0 when Qadjust = 0, F min(raw phi[-1], phi[-2]) otherwise."""
    oid = 'C01/PhiManip.py:phi_1D/general-h'
    fn = 'dadi/PhiManip.py::phi_1D'

    @guarded(oid, fn)
    def go():
        n = 4
        xs = [z3.RealVal(0)] + reals('x', n - 2) + [z3.RealVal(1)]
        nu, th, g, beta, h = z3.Reals('nu theta0 gamma beta h')
        hy = [xs[i] < xs[i + 1] for i in range(n - 1)] + [nu > 0, th > 0, beta > 0, g != 0, h != z3.RealVal(1) / 2]
        E = uf('exp')
        OVF = z3.Function('exp_overflows', E.domain(0), z3.BoolSort())
        G = g * nu * 4 * beta / ((beta + 1) * (beta + 1))
        F = nu * th * 4 * beta / ((beta + 1) * (beta + 1))
        Q = lambda x: 4 * G * h * x + 2 * G * (1 - 2 * h) * x * x
        quads = []

        def ah(ex_, fref, a, kw, ctx):
            if 'quad' in vrepr(fref):
                I = z3.Real('I%d' % (len(quads) + 1))
                quads.append(dict(f=a[0], lo=a[1], hi=a[2], args=kw.get('args', a[3] if len(a) > 3 else ()), I=I))
                t = Tm('quadres')
                t.attrs['__items__'] = [I, Tm('err')]
                t.attrs['__len__'] = 2
                return t
            return NotImplemented
        ex = Executor(max_paths=64)
        ex.model_exp_overflow = True
        ex.abstract_hook = ah
        f = ex.func('dadi/PhiManip.py', 'phi_1D')

        def thunk(e):
            del quads[:]
            r = e.apply(f.node, None, f.mod, [VList(list(xs), 'ndarray')], dict(nu=nu, theta0=th, gamma=g, beta=beta, h=h), 'phi_1D')
            # apply every integrand object to a fresh symbol while the path is still live
            xi = z3.Real('xi')
            for q in quads:
                extra = list(e.iterate(q['args'])) if q['args'] not in ((), None) else []
                q['at_xi'] = exact(e.call(q['f'], [xi] + extra, {}))
            return r, [dict(q) for q in quads]
        paths = ex.explore(thunk, base_pc=hy)
        out = []
        rets = [p for p in paths if p.outcome == 'return']
        out.append(struct(oid + '.paths', len(rets) == 3 and len(paths) == 3, '%d paths (G >= 0; G < 0 with / without the overflow guard)' % len(paths), fn,
                          undecided=len(rets) != 3, finding_key='C01/phi_1D/general-h'))
        from vf import smt
        xi = z3.Real('xi')
        for k, p in enumerate(rets):
            v, qs = p.value
            pc = list(p.pc)
            o = '%s.path%d' % (oid, k)
            neg = smt.check(pc, G < 0, timeout_ms=3000, use_cli=False)['status'] == 'proved'
            pos = smt.check(pc, G >= 0, timeout_ms=3000, use_cli=False)['status'] == 'proved'
            if not (neg or pos) or not isinstance(v, VList) or len(v.items) != n or len(qs) != n + 1:
                out.append(struct(o, False, 'path does not decide the sign of the rescaled gamma, or unexpected shape / %d quad calls' % len(qs), fn, undecided=True))
                continue
            guarded_ = neg and smt.check(pc, OVF(-2 * G), timeout_ms=3000, use_cli=False)['status'] == 'proved'
            unguarded = pos or smt.check(pc, z3.Not(OVF(-2 * G)), timeout_ms=3000, use_cli=False)['status'] == 'proved'
            tag = 'G>=0' if pos else ('G<0.guarded' if guarded_ else 'G<0')
            out.append(struct('%s.%s.guard' % (o, tag), guarded_ or unguarded,
                              'the overflow guard is decided by exp(-2G) of the rescaled G' if (guarded_ or unguarded) else
                              'on this path the guard tested something other than exp(-2G) with G = gamma nu 4beta/(beta+1)^2: %s' % [str(c)[:90] for c in pc if 'exp_overflows' in str(c)],
                              fn, finding_key='C01/phi_1D/overflow-guard'))
            if not (guarded_ or unguarded):
                continue
            Qadj = -2 * G if guarded_ else z3.RealVal(0)
            goals = [(to_real(exact(qs[0]['lo'])) == 0, 'I0 lower limit'), (to_real(exact(qs[0]['hi'])) == 1, 'I0 upper limit'),
                     (to_real(qs[0]['at_xi']) == E(-Q(xi) - Qadj) if True else None, 'I0 integrand')]
            for j in range(n):
                q = qs[1 + j]
                goals.append((to_real(exact(q['lo'])) == xs[j], 'I(x%d) lower limit' % j))
                goals.append((to_real(exact(q['hi'])) == 1, 'I(x%d) upper limit' % j))
                want_f = E(-Q(xi) - Qadj) if neg else E(-(Q(xi) - Q(xs[j])))
                goals.append((to_real(q['at_xi']) == want_f, 'I(x%d) integrand' % j))
            mm = discharge(goals, pc)
            out.append(struct('%s.%s.integrals' % (o, tag), mm is None, mm or 'I0 and I(x_j): integrands and limits as specified', fn, finding_key='C01/phi_1D/general-h'))
            I0 = qs[0]['I']
            raw = lambda j: (E(Q(xs[j])) * qs[1 + j]['I'] / I0) if neg else qs[1 + j]['I'] / I0
            hyp = pc + [I0 != 0]
            for j in range(1, n - 1):
                out.append(prove_eq('%s.%s.phi[%d]' % (o, tag, j), hyp, v.items[j], F * raw(j) / (xs[j] * (1 - xs[j])), func=fn, timeout_ms=30000, finding_key='C01/phi_1D/general-h'))
            out.append(prove_eq('%s.%s.phi[0]=phi[1]' % (o, tag), hyp, v.items[0], v.items[1], func=fn, finding_key='C01/phi_1D/general-h'))
            if guarded_:
                a_, b_ = raw(n - 1), raw(n - 2) / (xs[n - 2] * (1 - xs[n - 2]))
                out.append(prove_eq('%s.%s.phi[-1]' % (o, tag), hyp, v.items[n - 1], F * z3.If(a_ <= b_, a_, b_), func=fn, timeout_ms=30000, finding_key='C01/phi_1D/general-h'))
            else:
                out.append(prove_eq('%s.%s.phi[-1]' % (o, tag), hyp, v.items[n - 1], F / I0, func=fn, timeout_ms=30000, finding_key='C01/phi_1D/general-h'))
        return out
    return go()


# ---------------------------------------------------------------- C03 / C04: mutation influx
def c04_inject(K):
    """_inject_mutations_KD: for every flag pattern, phi changes exactly at the unit vectors e_k of the populations that are neither
    frozen nor nomut, and  w(e_k) * x_k[1] * (phi_new - phi_old)[e_k] = dt*theta0/2  (w = K-dimensional trapezoid weight, grids start at 0):
    the influx is theta0/2 per unit time per mutating population, whatever the grid; nothing else is touched."""
    oid = 'C04/Integration.py:_inject_mutations_%dD' % K
    fn = 'dadi/Integration.py::_inject_mutations_%dD' % K

    @guarded(oid, fn)
    def go():
        ex = Executor()
        f = ex.func('dadi/Integration.py', '_inject_mutations_%dD' % K)
        params = [a.arg for a in f.node.args.args]
        grids = [VList([z3.RealVal(0)] + reals('%s_' % g, 2), 'ndarray') for g in GRIDS[:K]]
        dt, th = z3.Reals('dt theta0')
        hy = []
        for g in grids:
            hy += [g.items[1] > 0, g.items[2] > g.items[1]]
        out = []
        flagnames = [p for p in params if p.startswith('frozen') or p.startswith('nomut')]
        for combo in itertools.product([False, True], repeat=len(flagnames)):
            flags = dict(zip(flagnames, combo))
            phi = Tm('phi')
            args = []
            gi = iter(grids)
            for p in params:
                if p == 'phi':
                    args.append(phi)
                elif p == 'dt':
                    args.append(dt)
                elif p == 'theta0':
                    args.append(th)
                elif p in GRIDS:
                    args.append(grids[GRIDS.index(p)])
                else:
                    args.append(flags[p])
            paths = ex.run(f, args, base_pc=hy)
            tag = ''.join('1' if c else '0' for c in combo) or 'noflags'
            if len(paths) != 1 or paths[0].outcome != 'return':
                out.append(struct('%s.%s' % (oid, tag), False, 'expected one returning path: %r' % paths, fn))
                continue
            p = paths[0]
            sets = [(e[2], e[3]) for e in p.log if e[0] == 'setitem' and e[1] is phi]
            active = [k for k in range(K) if not flags.get('frozen%d' % (k + 1), False) and not flags.get('nomut%d' % (k + 1), False)]
            want_keys = [tuple(1 if i == k else 0 for i in range(K)) if K > 1 else 1 for k in active]
            got_keys = [k for k, v in sets]
            out.append(struct('%s.%s.support' % (oid, tag), got_keys == want_keys and p.value is phi,
                              'writes exactly at %s (got %s) and returns phi' % (want_keys, got_keys), fn, finding_key='C04/inject/%dD/support' % K))
            for (key, val), k in zip(sets, active):
                if got_keys != want_keys:
                    break
                ok = isinstance(val, Tm) and val.op == 'op:Add' and isinstance(val.args[0], Tm) and val.args[0].op == 'getitem' and val.args[0].args[0] is phi and val.args[0].args[1] == key
                if not ok:
                    out.append(struct('%s.%s.increment%d' % (oid, tag, k + 1), False, 'not an increment of the old value: %s' % vrepr(val)[:120], fn))
                    continue
                inc = val.args[1]
                w = (grids[k].items[2] - grids[k].items[0]) / 2
                for l in range(K):
                    if l != k:
                        w = w * (grids[l].items[1] / 2)
                out.append(prove_eq('%s.%s.increment%d' % (oid, tag, k + 1), p.pc, w * grids[k].items[1] * to_real(inc), dt * th / 2, func=fn, timeout_ms=20000,
                                    finding_key='C04/inject/%dD/amount' % K))
        return out
    return go()


def c03_compute_dt():
    """_compute_dt(dx, c nu, ms/c, gamma/c, h) == c * _compute_dt(dx, nu, ms, gamma, h)  on every pair of paths (new time-step rule)"""
    oid = 'C03/Integration.py:_compute_dt/rescale'
    fn = 'dadi/Integration.py::_compute_dt'

    @guarded(oid, fn)
    def go():
        from vf import smt
        out = []
        for nm in (1, 2):
            ex = Executor(max_paths=600)
            f = ex.func('dadi/Integration.py', '_compute_dt')
            nu, g, h, c = z3.Reals('nu gamma h c')
            ms = reals('m', nm)
            dx = Tm('dx')
            hy = [nu > 0, c > 0] + [m >= 0 for m in ms]
            ex.module_overrides[('dadi.Integration', 'use_old_timestep')] = False
            tsf = z3.Real('timescale_factor')
            ex.module_overrides[('dadi.Integration', 'timescale_factor')] = tsf
            hy.append(tsf > 0)
            p0 = ex.run(f, [dx, nu, VList(ms), g, h], base_pc=hy)
            p1 = ex.run(f, [dx, c * nu, VList([m / c for m in ms]), g / c, h], base_pc=hy)
            n = 0
            for i, a in enumerate(p0):
                for j, b in enumerate(p1):
                    pc = a.pc + b.pc[len(hy):]
                    if smt.sat(pc, timeout_ms=3000) is False:
                        continue
                    n += 1
                    o = '%s.m%d.pair%d_%d' % (oid, nm, i, j)
                    if a.outcome != b.outcome:
                        out.append(struct(o, False, 'one run %s, the rescaled one %s' % (a.outcome, b.outcome), fn))
                    elif a.outcome == 'raise':
                        out.append(struct(o, a.exc.kind == b.exc.kind, 'both raise %s' % a.exc.kind, fn))
                    elif isinstance(a.value, Tm) or isinstance(b.value, Tm):
                        out.append(struct(o, vrepr(a.value) == vrepr(b.value), 'both return %s' % vrepr(a.value), fn))
                    else:
                        out.append(prove_eq(o, pc, b.value, c * to_real(a.value), func=fn, timeout_ms=20000))
            out.append(struct('%s.m%d.pairs' % (oid, nm), n >= 1, '%d jointly feasible path pairs' % n, fn))
        return out
    return go()


# ---------------------------------------------------------------- C04: frozen populations with migration are rejected
def pure_bool(ex, e, env, mod):
    """z3 Bool of a side-effect-free boolean expression (no path forking): and/or/not/compare over scalars"""
    if isinstance(e, ast.BoolOp):
        parts = [pure_bool(ex, v, env, mod) for v in e.values]
        return z3.And(*parts) if isinstance(e.op, ast.And) else z3.Or(*parts)
    if isinstance(e, ast.UnaryOp) and isinstance(e.op, ast.Not):
        return z3.Not(pure_bool(ex, e.operand, env, mod))
    v = ex.eval(e, env, mod)
    if isinstance(v, bool):
        return z3.BoolVal(v)
    if isinstance(v, z3.ExprRef):
        return v if z3.is_bool(v) else v != 0
    raise Unsupported('non-scalar in a guard: %s' % vrepr(v))


def c04_frozen_migration(name, K):
    """Integration.<name>: raises ValueError exactly when some population is frozen and has a non-zero migration rate to or from it, and does so before
    any influx / kernel / constant-driver call (every flag and rate symbolic; the function is executed, so it does not matter how the test is written
    or into which helper it is factored)."""
    oid = 'C04/Integration.py:%s/frozen-with-migration-rejected' % name
    fn = 'dadi/Integration.py::' + name

    @guarded(oid, fn)
    def go():
        fr = {i: z3.Bool('frozen%d' % i) for i in range(1, K + 1)}
        ms = {(i, j): z3.Real('m%d%d' % (i, j)) for i in range(1, K + 1) for j in range(1, K + 1) if i != j}
        T, t0 = z3.Reals('T t0')
        kw = dict(initial_t=t0)
        for i, b in fr.items():
            kw['frozen%d' % i] = b
        for (i, j), m in ms.items():
            kw['m%d%d' % (i, j)] = m
        work = []

        def policy(frf):
            q = frf.qualname
            if q == 'ensure_1arg_func':
                return lambda ex_, f_, a, k_: a[0] if not is_scalar(exact(a[0])) else PyFn(lambda t, _c=a[0]: _c, 'const')
            if q.startswith('_inject_mutations_') or q.endswith('_const_params') or q == '_compute_dt':
                def h(ex_, f_, a, k_, _q=q):
                    work.append(_q)
                    if _q == '_compute_dt':
                        d = ex_.ctx.fresh('dt')
                        ex_.ctx.pc += [d > T - t0, d > 0]
                        return d
                    return a[0] if _q.startswith('_inject') else Tm('result')
                return h
            return 'abstract'

        def ah(ex_, fref, a, kw_, ctx):
            if 'implicit_' in vrepr(fref):
                work.append('kernel')
                return Tm('swept')
            return NotImplemented
        ex = Executor(policy=policy, max_paths=600)
        ex.abstract_hook = ah
        ex.module_overrides[('dadi.Integration', 'cuda_enabled')] = False
        f = ex.func('dadi/Integration.py', name)
        phi = Tm('phi')
        phi.attrs['copy'] = PyFn(lambda *a, **k: Tm('phi_copy'), 'copy')

        def thunk(e):
            del work[:]
            try:
                v = e.apply(f.node, None, f.mod, [phi, Tm('xx'), T], dict(kw), name)
                return ('return', list(work))
            except PyRaise as pe:
                return ('raise:%s:%s' % (pe.kind if hasattr(pe, 'kind') else '', str(pe)), list(work))
        paths = ex.explore(thunk, base_pc=[T > t0, t0 >= 0])
        spec = z3.Or(*[z3.And(fr[k], z3.Or(*[ms[(i, j)] != 0 for (i, j) in ms if k in (i, j)])) for k in fr])
        out = []
        n_raise = n_ok = 0
        bad = []
        for p in paths:
            if p.outcome != 'return':
                bad.append('unexpected outcome %r' % (p,))
                continue
            what, wk = p.value
            s_ = z3.Solver()
            s_.set('timeout', 5000)
            s_.add(T > t0, t0 >= 0, *p.pc)
            if what.startswith('raise') and 'frozen' in what.lower():
                n_raise += 1
                s_.add(z3.Not(spec))
                if s_.check() != z3.unsat:
                    bad.append('refused although no frozen population has migration: %s' % (s_.model() if s_.check() == z3.sat else 'undecided'))
                if wk:
                    bad.append('work done before the refusal: %s' % wk[:3])
            elif what.startswith('raise'):
                continue          # another parameter-domain refusal (negative size / rate ...): not this contract's business
            else:
                n_ok += 1
                s_.add(spec)
                if s_.check() != z3.unsat:
                    bad.append('integrates although a frozen population has migration: %s' % (s_.model() if s_.check() == z3.sat else 'undecided'))
        out.append(struct(oid + '.iff', not bad and n_raise > 0 and n_ok > 0, 'ValueError exactly when a frozen population has a non-zero migration rate, before any work (%d refusing / %d integrating paths)' % (n_raise, n_ok)
                          if not bad else '; '.join(str(b)[:200] for b in bad[:3]), fn, finding_key='C04/frozen-migration/%s' % name))
        # rates given as functions of time: a function is not the constant 0, so a frozen population with such a rate is refused as well
        # (one frozen population and one function-valued rate touching it at a time, everything else 0 / not frozen)
        bad2, ncase = [], 0
        for k in range(1, K + 1):
            for (i, j) in ms:
                if k not in (i, j):
                    continue
                ncase += 1
                kw2 = dict(initial_t=t0)
                for q in range(1, K + 1):
                    kw2['frozen%d' % q] = (q == k)
                mf = uf('m%d%d_of_t' % (i, j))
                kw2['m%d%d' % (i, j)] = PyFn(lambda t, _f=mf: _f(to_real(t)), 'm%d%d_f' % (i, j))

                def thunk2(e, kw2=kw2):
                    del work[:]
                    try:
                        e.apply(f.node, None, f.mod, [phi, Tm('xx'), T], dict(kw2), name)
                        return ('return', list(work))
                    except PyRaise as pe:
                        return ('raise:%s:%s' % (pe.kind if hasattr(pe, 'kind') else '', str(pe)), list(work))
                for p in ex.explore(thunk2, base_pc=[T > t0, t0 >= 0]):
                    if p.outcome != 'return':
                        bad2.append('frozen%d, m%d%d(t): unexpected outcome %r' % (k, i, j, p))
                        continue
                    what, wk = p.value
                    if not (what.startswith('raise') and 'frozen' in what.lower()):
                        bad2.append('frozen%d with m%d%d a function of time: %s' % (k, i, j, 'integrates' if what == 'return' else what[:60]))
                    elif wk:
                        bad2.append('frozen%d, m%d%d(t): work done before the refusal: %s' % (k, i, j, wk[:3]))
        out.append(struct(oid + '.function-valued-rate', not bad2 and ncase > 0, 'a frozen population with a rate given as a function of time is refused before any work (%d cases)' % ncase
                          if not bad2 else '; '.join(bad2[:3])[:400], fn, finding_key='C04/frozen-migration/%s' % name))
        return out
    return go()


# ---------------------------------------------------------------- C06: linear deposition onto the two bracketing grid points
def c06_admixture_intermediates(n):
    """_admixture_intermediates(phi, ad_z, zz), scalarised (one entry of phi / ad_z; zz a strictly increasing grid of n symbolic points;
    numpy.searchsorted by its documented axiom).  Postconditions, on every path:
       lower == upper - 1,  1 <= upper <= n-1
       frac_lower + frac_upper == 1;   frac_lower*zz[lower] + frac_upper*zz[upper] == ad_z     (the deposit carries the mixture frequency)
       w[lower]*frac_lower*norm + w[upper]*frac_upper*norm == phi   whenever the normalisation is defined, which it is for zz[0] <= ad_z <= zz[-1]
                                                                     (trapezoid mass of the deposit = the density; w = trapezoid weights)
       zz[lower] <= ad_z <= zz[upper]  ==>  0 <= frac_lower, frac_upper <= 1"""
    oid = 'C06/PhiManip.py:_admixture_intermediates/n%d' % n
    fn = 'dadi/PhiManip.py::_admixture_intermediates'

    @guarded(oid, fn)
    def go():
        ex = Executor(max_paths=200)
        f = ex.func('dadi/PhiManip.py', '_admixture_intermediates')
        zs = reals('z', n)
        phi, ad = z3.Reals('phi ad_z')
        hy = [zs[i] < zs[i + 1] for i in range(n - 1)]
        paths = ex.run(f, [phi, ad, VList(zs, 'ndarray')], base_pc=hy)
        out = []
        w = [(zs[1] - zs[0]) / 2] + [(zs[j + 1] - zs[j - 1]) / 2 for j in range(1, n - 1)] + [(zs[n - 1] - zs[n - 2]) / 2]
        for k, p in enumerate(paths):
            if p.outcome != 'return':
                out.append(struct('%s.path%d' % (oid, k), False, 'raises %s' % p.exc, fn))
                continue
            lo, up, fl, fu, norm = p.value
            ok = isinstance(lo, int) and isinstance(up, int) and lo == up - 1 and 1 <= up <= n - 1
            out.append(struct('%s.path%d.indices' % (oid, k), ok, 'lower=%r upper=%r' % (lo, up), fn))
            if not ok:
                continue
            o = '%s.path%d' % (oid, k)
            out.append(prove_eq(o + '.fractions-sum-to-one', p.pc, to_real(fl) + to_real(fu), z3.RealVal(1), func=fn))
            out.append(prove_eq(o + '.mixture-frequency', p.pc, to_real(fl) * zs[lo] + to_real(fu) * zs[up], ad, func=fn))
            den = w[lo] * to_real(fl) + w[up] * to_real(fu)       # half the normalisation denominator
            out.append(prove(o + '.normalisation-defined-inside-grid', p.pc + [ad >= zs[0], ad <= zs[n - 1]], den > 0, func=fn, timeout_ms=30000))
            out.append(prove_eq(o + '.mass', p.pc + [den != 0], w[lo] * to_real(fl) * to_real(norm) + w[up] * to_real(fu) * to_real(norm), phi, func=fn, timeout_ms=30000,
                                finding_key='C06/_admixture_intermediates/mass'))
            out.append(prove(o + '.fractions-in-unit-interval', p.pc + [zs[lo] <= ad, ad <= zs[up]], z3.And(to_real(fl) >= 0, to_real(fl) <= 1, to_real(fu) >= 0, to_real(fu) <= 1), func=fn))
            # bracketing: inside the grid the two nodes bracket the mixture frequency
            out.append(prove(o + '.bracket', p.pc + [ad >= zs[0], ad <= zs[n - 1]], z3.And(zs[lo] <= ad, ad <= zs[up]), func=fn))
        out.append(struct(oid + '.paths', len(paths) == n + 1, '%d paths (one per searchsorted outcome)' % len(paths), fn, undecided=len(paths) != n + 1))
        return out
    return go()


# ---------------------------------------------------------------- C08: projection window and weights
def c08_window():
    """_project_one_axis: [least, most] is exactly the support of the hypergeometric weight,
         least <= k <= most  <=>  0 <= k <= n  and  k <= hits  and  n-k <= proj_from-hits,
    and both the target slice and the weight slice are slice(least, most+1)."""
    oid = 'C08/Spectrum_mod.py:Spectrum._project_one_axis/window'
    fn = 'dadi/Spectrum_mod.py::Spectrum._project_one_axis'

    @guarded(oid, fn)
    def go():
        from vf.pyvc import Env, PathCtx
        mod = ModInfo.load('dadi/Spectrum_mod.py')
        node = mod.funcs['Spectrum._project_one_axis']
        # the statements of the per-hits loop that define the window, in whatever form they are written (one tuple assignment or two)
        loop = None
        for st in ast.walk(node):
            if isinstance(st, ast.For) and isinstance(st.target, ast.Name) and st.target.id == 'hits':
                loop = st
                break
        stmts = []
        if loop is not None:
            for st in loop.body:
                if isinstance(st, ast.Assign):
                    tg = st.targets[0]
                    names = [getattr(e, 'id', None) for e in tg.elts] if isinstance(tg, ast.Tuple) else [getattr(tg, 'id', None)]
                    if set(names) & {'least', 'most'}:
                        stmts.append(st)
        ex = Executor()
        ex.ctx = PathCtx([], [], ex)
        env = Env(None, mod)
        n, fr, hits, k = z3.Ints('n proj_from hits k')
        env.vars.update(n=n, proj_from=fr, hits=hits)
        # loop-invariant temporaries hoisted out of the loop (e.g. dropped = proj_from - n): evaluate what can be evaluated from (n, proj_from)
        for st in node.body:
            if st is loop:
                break
            if isinstance(st, ast.Assign) and isinstance(st.targets[0], ast.Name) and st.targets[0].id not in ('n', 'proj_from', 'hits'):
                try:
                    ex.assign(st.targets[0], ex.eval(st.value, env, mod), env, mod)
                except Exception:
                    pass
        try:
            for st in stmts:
                ex.assign(st.targets[0], ex.eval(st.value, env, mod), env, mod)
        except Exception:
            env.vars.pop('least', None)
        if 'least' not in env.vars or 'most' not in env.vars:
            # written in a form this all-sizes lemma cannot be read off from: nothing is claimed here; the window is still checked entry by entry
            # on concrete sizes by c08_project_one_axis and exhaustively for n <= 40 by the bounded driver
            return []
        least, most = env.vars['least'], env.vars['most']
        from vf.pyvc import to_z3
        lz, mz = to_z3(least), to_z3(most)
        if not z3.is_int(lz):
            lz, mz = z3.ToInt(lz), z3.ToInt(mz)
        hy = [hits >= 0, hits <= fr, n >= 0, n <= fr]
        # minmax() builds Real-valued If's: relate through reals
        support = z3.And(k >= 0, k <= n, k <= hits, n - k <= fr - hits)
        out = [prove(oid + '.iff', hy, z3.And(to_real(least) <= z3.ToReal(k), z3.ToReal(k) <= to_real(most)) == support, func=fn, timeout_ms=20000,
                     finding_key='C08/_project_one_axis/window'),
               prove(oid + '.nonempty', hy, to_real(least) <= to_real(most), func=fn, timeout_ms=20000)]
        # (which slices the window is applied to is checked semantically, entry by entry, by c08_project_one_axis)
        return out
    return go()


def c08_weights():
    """_cached_projection(proj_to, proj_from, hits)[k] = exp(lnC(to,k) + lnC(from-to, hits-k) - lnC(from,hits)),  lnC(N,k) := gammaln(N+1)-gammaln(k+1)-gammaln(N-k+1)
    i.e. C(to,k) C(from-to,hits-k)/C(from,hits) under the gammaln axiom; from < to short-circuits to zeros(to+1)."""
    oid = 'C08/Numerics.py:_cached_projection/weights'
    fn = 'dadi/Numerics.py::_cached_projection'

    @guarded(oid, fn)
    def go():
        ex = Executor(policy=lambda fr_: 'inline' if fr_.qualname == '_lncomb' else 'abstract')
        f = ex.func('dadi/Numerics.py', '_cached_projection')
        to, fr, hits, k = z3.Ints('proj_to proj_from hits k')
        ex.module_overrides[('dadi.Numerics', '_projection_cache')] = VDict()
        ex.module_overrides[('numpy', 'arange')] = PyFn(lambda n_: k, 'numpy.arange[k]')     # scalarisation: an arbitrary entry k of arange(proj_to+1)
        def thunk(e):
            e.module_overrides[('dadi.Numerics', '_projection_cache')] = VDict()      # an empty cache on every path (memo miss)
            return e.apply(f.node, None, f.mod, [to, fr, hits], {}, '_cached_projection')
        paths = ex.explore(thunk, base_pc=[to >= 0, fr >= 0, hits >= 0, hits <= fr, k >= 0, k <= to])
        out = []
        G = uf('gammaln')
        lnC = lambda N, kk: G(to_real(N) + 1) - G(to_real(kk) + 1) - G(to_real(N) - to_real(kk) + 1)
        saw = set()
        for i, p in enumerate(paths):
            if p.outcome != 'return':
                out.append(struct('%s.path%d' % (oid, i), False, 'raises %s' % p.exc, fn))
                continue
            v = p.value
            from vf import smt
            short = smt.check(p.pc, fr < to, timeout_ms=3000, use_cli=False)['status'] == 'proved'
            if short:
                saw.add('short')
                ok = isinstance(v, Tm) and 'zeros' in v.op or isinstance(v, VList)
                out.append(struct('%s.path%d.upward-is-zero' % (oid, i), bool(ok), 'proj_from < proj_to returns zeros(proj_to+1): %s' % vrepr(v)[:80], fn))
            else:
                saw.add('weights')
                want = uf('exp')(lnC(to, k) + lnC(fr - to, hits - k) - lnC(fr, hits))
                out.append(prove_eq('%s.path%d.value' % (oid, i), p.pc, v, want, func=fn, timeout_ms=20000, finding_key='C08/_cached_projection/value'))
        out.append(struct(oid + '.paths', saw == {'short', 'weights'}, 'paths seen: %s' % sorted(saw), fn, undecided=saw != {'short', 'weights'}))
        return out
    return go()


def c08_project_guards():
    """Spectrum.project: wrong length / any upward size raise ValueError; folded spectra are unfolded, projected, folded; labels and extrap_x copied."""
    oid = 'C08/Spectrum_mod.py:Spectrum.project'
    fn = 'dadi/Spectrum_mod.py::Spectrum.project'

    @guarded(oid, fn)
    def go():
        out = []
        ex = Executor()
        f = ex.func('dadi/Spectrum_mod.py', 'Spectrum.project')

        def mk(folded):
            me = Tm('self')
            ss = VList([z3.Int('N0'), z3.Int('N1')], 'ndarray')
            me.attrs.update(Npop=2, sample_sizes=ss, folded=folded, pop_ids=Tm('ids'), extrap_x=Tm('ex'))
            return me, ss
        me, ss = mk(False)
        paths = ex.run(f, [me, VList([z3.Int('n0')])])
        out.append(struct(oid + '.wrong-length', len(paths) >= 1 and all(p.outcome == 'raise' and p.exc.kind == 'ValueError' for p in paths), 'ns of another length raises ValueError', fn))
        for folded in (False, True):
            me, ss = mk(folded)
            ns = VList([z3.Int('n0'), z3.Int('n1')])
            paths = ex.run(f, [me, ns], base_pc=[ss.items[0] >= 1, ss.items[1] >= 1, ns.items[0] >= 0, ns.items[1] >= 0])
            up = z3.Or(ns.items[0] > ss.items[0], ns.items[1] > ss.items[1])
            for i, p in enumerate(paths):
                o = '%s.%s.path%d' % (oid, 'folded' if folded else 'unfolded', i)
                if p.outcome == 'raise':
                    out.append(prove(o + '.raises-only-upward', p.pc, up, func=fn))
                    out.append(struct(o + '.kind', p.exc.kind == 'ValueError', p.exc.kind, fn))
                else:
                    out.append(prove(o + '.returns-only-downward', p.pc, z3.Not(up), func=fn, finding_key='C08/project/upward-accepted'))
                    v = p.value
                    s = vrepr(v)
                    okf = (s.startswith('call:attr:fold(') and 'attr:unfold(self)' in s) if folded else ('attr:copy(self)' in s and 'fold' not in s)
                    out.append(struct(o + '.fold-wrapping', bool(okf), ('fold(project(unfold(self)))' if folded else 'project(copy(self))') + ': ' + s[:120], fn))
            out.append(struct('%s.%s.paths' % (oid, 'folded' if folded else 'unfolded'), any(p.outcome == 'raise' for p in paths) and any(p.outcome == 'return' for p in paths), '%d paths' % len(paths), fn))
        return out
    return go()


# ---------------------------------------------------------------- C11: likelihood wiring
def _spectra(dfold, mfold):
    data, model = Tm('data'), Tm('model')
    for t, fl in ((data, dfold), (model, mfold)):
        t.attrs.update(folded=fl, folded_ancestral=False, folded_major=False)
    return data, model


def c11_ll_per_bin():
    """ll_per_bin(model, data) = -M.data + data.data * M.log() - gammaln(data + 1)  with  M = model.fold() iff data.folded and not model.folded, else model.
    The masked log is taken of the model *object* (so the model's own mask and non-positive entries are masked in the result) and gammaln of the data *object*
    (so the data's mask propagates): the result is masked exactly where model or data is masked or model <= 0 (numpy.ma semantics, assumed)."""
    oid = 'C11/Inference.py:ll_per_bin'
    fn = 'dadi/Inference.py::ll_per_bin'

    @guarded(oid, fn)
    def go():
        out = []
        for dfold, mfold in itertools.product([False, True], repeat=2):
            ex = Executor(max_paths=400)
            f = ex.func('dadi/Inference.py', 'll_per_bin')
            data, model = _spectra(dfold, mfold)
            paths = ex.run(f, [model, data])
            tag = 'data%s.model%s' % ('F' if dfold else 'U', 'F' if mfold else 'U')
            rets = [p for p in paths if p.outcome == 'return']
            if len(rets) != len(paths) or not rets:
                out.append(struct('%s.%s' % (oid, tag), False, 'a path raises: %r' % [p for p in paths if p.outcome != 'return'][:1], fn))
                continue
            M = 'call:attr:fold(model)' if (dfold and not mfold) else 'model'
            want = {'attr:data(%s)' % M: -1, 'op:Mult(attr:data(data), call:attr:log(%s))' % M: 1, None: -1}
            bad = None
            for p in rets:
                lf = linear_form(p.value)
                got = {k: z3.simplify(c) for k, (a, c) in lf.items()}
                gl = [k for k in got if 'gammaln' in k]
                ok = len(got) == 3 and len(gl) == 1 and 'op:Add(data, 1)' in gl[0] and all(str(got.get(k)) == str(z3.RealVal(v)) for k, v in want.items() if k) and str(got[gl[0]]) == '-1'
                if not ok:
                    bad = {k: str(v) for k, v in got.items()}
                    break
            out.append(struct('%s.%s' % (oid, tag), bad is None, ('%d paths return -M.data + data.data*M.log() - gammaln(data+1) with M=%s' % (len(rets), M)) if bad is None else 'result is %s' % bad, fn,
                              finding_key='C11/ll_per_bin/formula'))
        return out
    return go()


def c11_ll_wiring():
    """ll = ll_per_bin(model, data).sum();  ll_multinom = ll_per_bin(optimal_sfs_scaling(model, data)*model, data).sum();
    optimal_sfs_scaling = data'.sum()/model'.sum() over the intersected masks (model folded against folded data first)."""
    out = []
    ex = Executor(policy=lambda fr: 'inline' if fr.qualname in ('ll', 'll_multinom', 'll_multinom_per_bin') else 'abstract')
    data, model = _spectra(False, False)
    fn = 'dadi/Inference.py::ll'
    try:
        p = ex.run(ex.func('dadi/Inference.py', 'll'), [model, data])
        ok = len(p) == 1 and p[0].outcome == 'return' and vrepr(p[0].value).startswith('call:attr:sum(call:dadi.Inference.ll_per_bin(model, data')
        out.append(struct('C11/Inference.py:ll/wiring', ok, 'll = ll_per_bin(model, data).sum(): %s' % (vrepr(p[0].value)[:100] if p else p), fn))
        p = ex.run(ex.func('dadi/Inference.py', 'll_multinom'), [model, data])
        s = vrepr(p[0].value) if p and p[0].outcome == 'return' else repr(p)
        ok = s.startswith('call:attr:sum(call:dadi.Inference.ll_per_bin(op:Mult(call:dadi.Inference.optimal_sfs_scaling(model, data), model), data')
        out.append(struct('C11/Inference.py:ll_multinom/wiring', ok, 'll_multinom = ll_per_bin(theta_opt*model, data).sum(): %s' % s[:140], 'dadi/Inference.py::ll_multinom'))
        p = ex.run(ex.func('dadi/Inference.py', 'optimally_scaled_sfs'), [model, data])
        s = vrepr(p[0].value) if len(p) == 1 and p[0].outcome == 'return' else repr(p)
        ok = s in ('op:Mult(call:dadi.Inference.optimal_sfs_scaling(model, data), model)', 'op:Mult(model, call:dadi.Inference.optimal_sfs_scaling(model, data))')
        out.append(struct('C11/Inference.py:optimally_scaled_sfs/wiring', ok, 'optimally_scaled_sfs = optimal_sfs_scaling(model, data) * model (scaling of this model against this data, applied to the model): %s' % s[:140],
                          'dadi/Inference.py::optimally_scaled_sfs'))
        for dfold, mfold in itertools.product([False, True], repeat=2):
            data, model = _spectra(dfold, mfold)
            ex2 = Executor()
            captured = {}

            def hook(e, fref, a, kw, ctx):
                if isinstance(fref, FuncRef) and fref.qualname == 'intersect_masks':
                    captured['args'] = a
                    t = Tm('IM')
                    t.attrs['__items__'] = [Tm('model_i'), Tm('data_i')]
                    t.attrs['__len__'] = 2
                    return t
                return NotImplemented
            ex2.abstract_hook = hook
            p = ex2.run(ex2.func('dadi/Inference.py', 'optimal_sfs_scaling'), [model, data])
            tag = 'data%s.model%s' % ('F' if dfold else 'U', 'F' if mfold else 'U')
            M = 'call:attr:fold(model)' if (dfold and not mfold) else 'model'
            ok = len(p) == 1 and p[0].outcome == 'return' and vrepr(p[0].value) == 'op:Div(call:attr:sum(data_i), call:attr:sum(model_i))' \
                and 'args' in captured and vrepr(captured['args'][0]) == M and captured['args'][1] is data
            out.append(struct('C11/Inference.py:optimal_sfs_scaling/%s' % tag, bool(ok), 'sum(data\')/sum(model\') with (model\', data\') = intersect_masks(%s, data): %s' % (M, vrepr(p[0].value)[:100] if p else p),
                              'dadi/Inference.py::optimal_sfs_scaling', finding_key='C11/optimal_sfs_scaling/formula'))
    except Unsupported as e:
        out.append(R('C11/Inference.py:ll/wiring', 'proof', 'undecided', detail=str(e), func=fn))
    return out


def c11_residuals():
    """linear_Poisson_residual = (model - data)/sqrt(model) (positive where the model exceeds the data), masked where both <= mask"""
    oid = 'C11/Inference.py:linear_Poisson_residual'
    fn = 'dadi/Inference.py::linear_Poisson_residual'

    @guarded(oid, fn)
    def go():
        out = []
        ex = Executor()
        f = ex.func('dadi/Inference.py', 'linear_Poisson_residual')
        data, model = _spectra(False, False)
        p = ex.run(f, [model, data])
        s = vrepr(p[0].value) if len(p) == 1 and p[0].outcome == 'return' else repr(p)
        ok = s in ('op:Div(op:Sub(model, data), call:attr:sqrt(lib:numpy.ma)(model))', 'op:Div(op:Sub(model, data), call:numpy.sqrt(model))')
        out.append(struct(oid + '.formula', ok, '(model - data)/numpy.ma.sqrt(model): %s' % s[:120], fn, finding_key='C11/linear_residual/formula'))
        p = ex.run(f, [model, data], dict(mask=z3.Real('cut')))
        s = vrepr(p[0].value) if len(p) == 1 and p[0].outcome == 'return' else repr(p)
        s_ = s.replace('call:lib:numpy.', '').replace('call:attr:', '').replace('(lib:numpy)', '')
        # one path for every numeric cut-off (mask=0 included: "entries where both are <= 0" is still a mask request)
        ok = len(p) == 1 and p[0].outcome == 'return' and 'masked_where' in s and (
            'logical_and(cmp:LtE(model, cut), cmp:LtE(data, cut))' in s_ or 'masked_where(And(cmp:LtE(model, cut), cmp:LtE(data, cut))' in s_)
        out.append(struct(oid + '.mask', ok, 'for every cut-off (0 included) masked where model <= mask and data <= mask, on a single path: %s' % s[:200], fn,
                          finding_key='C11/linear_residual/mask'))
        for cut0 in (0, 0.0):
            p = ex.run(f, [model, data], dict(mask=cut0))
            s = vrepr(p[0].value) if len(p) == 1 and p[0].outcome == 'return' else repr(p)
            out.append(struct(oid + '.mask-zero.%s' % type(cut0).__name__, len(p) == 1 and 'masked_where' in s,
                              'mask=%r is applied, not treated as "no mask": %s' % (cut0, s[:160]), fn, finding_key='C11/linear_residual/mask'))
        data, model = _spectra(True, False)
        p = ex.run(f, [model, data])
        s = vrepr(p[0].value) if len(p) == 1 and p[0].outcome == 'return' else repr(p)
        out.append(struct(oid + '.autofold', s.startswith('op:Div(op:Sub(call:attr:fold(model), data)'), 'model folded against folded data: %s' % s[:100], fn))
        return out
    return go()


# ---------------------------------------------------------------- C02/C03/C04: one time step of the time-dependent drivers
def c02_driver_step(K, frozen=()):
    """Integration.{one..five}_pops with every parameter a function of time and T - initial_t <= dt (exactly one step):
       * _compute_dt is called once per population k with (grid differences of axis k, nu_k, [m_kj for j != k], gamma_k, h_k) at the *current* time;
       * this_dt == T - initial_t; parameters are re-evaluated at next_t == T;
       * _inject_mutations_KD(phi, this_dt, grids..., theta0(next_t), flags...) comes first;
       * then, for k = 1..K in order and only if not frozen_k, implicit_KD{axis k}(phi, grids..., nu_k, m_k., gamma_k, h_k [, beta], this_dt, use_delj_trick)
         with the rates of population k in the kernel's own argument order, each fed the previous kernel's result;
       * the last result is returned.  (wrapper-side contract of the C kernels verified in C02)"""
    name = {1: 'one_pop', 2: 'two_pops', 3: 'three_pops', 4: 'four_pops', 5: 'five_pops'}[K]
    tagf = ''.join(str(k) for k in frozen) or 'none'
    oid = 'C02/Integration.py:%s/one-step.frozen-%s' % (name, tagf)
    fn = 'dadi/Integration.py::' + name

    @guarded(oid, fn)
    def go():
        from vf import smt
        sfx = (lambda k: '') if K == 1 else (lambda k: str(k))
        T, t0 = z3.Reals('T t0')
        hy = [T > t0]
        pnames = []
        kw = {}
        fsym = {}

        def tf(nm):
            f_ = uf(nm + '_of_t')
            fsym[nm] = f_
            return PyFn(lambda t, _f=f_: _f(to_real(t)), nm + '_f')
        for k in range(1, K + 1):
            for base in ('nu', 'gamma', 'h'):
                kw[base + sfx(k)] = tf(base + sfx(k))
            for j in range(1, K + 1):
                if j != k:
                    nm = 'm%d%d' % (k, j)
                    kw[nm] = 0 if (k in frozen or j in frozen) else tf(nm)
            if K > 1:
                kw['frozen%d' % k] = k in frozen
            else:
                kw['frozen'] = False
        kw['theta0'] = tf('theta0')
        if K == 1:
            kw['beta'] = tf('beta')
        kw['initial_t'] = t0
        dts = []

        def policy(fr):
            if fr.qualname == 'ensure_1arg_func':
                # contract (C15 axiom obligation): ensure_1arg_func(f)(t) == f(t), ensure_1arg_func(c)(t) == c
                return lambda ex_, f_, a, k_: a[0] if not is_scalar(exact(a[0])) else PyFn(lambda t, _c=a[0]: _c, 'const')
            if fr.qualname == '_compute_dt':
                def cdt(ex_, f_, a, k_):
                    d = ex_.ctx.fresh('dt')
                    ex_.ctx.pc.append(d >= T - t0)        # the step is not longer than one time step
                    ex_.ctx.pc.append(d > 0)
                    dts.append(list(a))
                    return d
                return cdt
            return 'abstract'
        ex = Executor(policy=policy, max_paths=64)
        ex.module_overrides[('dadi.Integration', 'cuda_enabled')] = False
        ex.module_overrides[('dadi.Integration', 'use_delj_trick')] = z3.Bool('use_delj_trick')
        f = ex.func('dadi/Integration.py', name)
        phi, xx = Tm('phi'), Tm('xx')

        def thunk(e):
            del dts[:]
            return e.apply(f.node, None, f.mod, [phi, xx, T], dict(kw), name), list(dts)
        paths = ex.explore(thunk, base_pc=hy)
        rets = [p for p in paths if p.outcome == 'return']
        out = []
        if not rets:
            return [struct(oid, False, 'no returning path: %r' % paths[:2], fn, undecided=True)]
        axes = 'xyzab'
        for pi, p in enumerate(rets):
            o = '%s.path%d' % (oid, pi)
            res, dtcalls = p.value
            calls = [(nm, t) for (tag, nm, t) in [e for e in p.log if e[0] == 'call']]
            inj = [t for nm, t in calls if nm == 'dadi.Integration._inject_mutations_%dD' % K]
            kern = [(nm, t) for nm, t in calls if 'implicit_' in nm]
            want_k = [k for k in range(1, K + 1) if k not in frozen]
            names_ok = [nm.split('implicit_')[1].rstrip(')') for nm, t in kern] == ['%dD%s' % (K, axes[k - 1]) for k in want_k]
            out.append(struct(o + '.sweep-order', names_ok and len(inj) == 1, 'inject once, then sweeps %s (got %s)' % (['%dD%s' % (K, axes[k - 1]) for k in want_k], [nm for nm, t in kern]), fn,
                              finding_key='C02/driver/%s/sweeps' % name))
            if not (names_ok and len(inj) == 1):
                continue
            at = lambda nm, tt: fsym[nm](tt)
            # time step
            sizes_ok = len(dtcalls) == K
            out.append(struct(o + '.compute_dt-calls', sizes_ok, '%d _compute_dt calls (one per population)' % len(dtcalls), fn))
            goals = []
            if sizes_ok:
                for k, a in zip(range(1, K + 1), dtcalls):
                    # a = [d_axis, nu, ms, gamma, h]
                    goals.append((to_real(a[1]) == at('nu' + sfx(k), t0), '_compute_dt[%d].nu' % k))
                    goals.append((to_real(a[3]) == at('gamma' + sfx(k), t0), '_compute_dt[%d].gamma' % k))
                    goals.append((to_real(a[4]) == at('h' + sfx(k), t0), '_compute_dt[%d].h' % k))
                    ms = a[2].items if isinstance(a[2], VList) else list(a[2])
                    want_ms = [(at('m%d%d' % (k, j), t0) if not (k in frozen or j in frozen) else z3.RealVal(0)) for j in range(1, K + 1) if j != k] or [z3.RealVal(0)]
                    if len(ms) != len(want_ms):
                        goals.append((z3.BoolVal(False), '_compute_dt[%d] gets %d migration rates' % (k, len(ms))))
                    else:
                        for x, y in zip(ms, want_ms):
                            goals.append((to_real(exact(x)) == y, '_compute_dt[%d].ms' % k))
                    ok_axis = isinstance(a[0], Tm) and 'diff' in a[0].op
                    if not ok_axis:
                        goals.append((z3.BoolVal(False), '_compute_dt[%d] grid differences' % k))
            mm = discharge(goals, p.pc)
            out.append(struct(o + '.compute_dt-args', mm is None, mm or 'each _compute_dt(d_k, nu_k, [m_kj], gamma_k, h_k) at the current time', fn, finding_key='C03/driver/%s/compute_dt-args' % name))
            # inject
            d = dict(zip(inj[0].attrs['__argnames__'], inj[0].args))
            goals = [(to_real(d['dt']) == T - t0, 'this_dt == T - initial_t'), (to_real(d['theta0']) == at('theta0', T), 'theta0 at next_t')]
            okf = d['phi'] is not phi and all(d[g] is xx or vrepr(d[g]) == vrepr(d['xx']) for g in GRIDS[:K] if g in d)
            for k in range(1, K + 1):
                key = 'frozen%d' % k
                if key in d and d[key] is not (k in frozen):
                    okf = False
            mm = discharge(goals, p.pc)
            out.append(struct(o + '.inject', mm is None and okf, mm or 'inject(phi_copy, this_dt = T - initial_t, grids, theta0(next_t), flags)', fn, finding_key='C04/driver/%s/inject' % name))
            # kernels
            prev = d['phi']
            for (nm, t), k in zip(kern, want_k):
                a = list(t.args)
                pos = [x for x in a if not (isinstance(x, tuple) and x and x[0] == 'kw')]
                kws = {x[1]: x[2] for x in a if isinstance(x, tuple) and x and x[0] == 'kw'}
                goals = []
                ok = pos[0] is prev or vrepr(pos[0]) == vrepr(prev)
                body = pos[1 + K:]
                want = [at('nu' + sfx(k), T)] + [(at('m%d%d' % (k, j), T) if not (k in frozen or j in frozen) else z3.RealVal(0)) for j in range(1, K + 1) if j != k] + \
                       [at('gamma' + sfx(k), T), at('h' + sfx(k), T)] + ([at('beta', T)] if K == 1 else []) + [T - t0]
                if len(body) < len(want):
                    goals.append((z3.BoolVal(False), 'kernel %s gets %d scalar arguments' % (nm, len(body))))
                else:
                    for x, y, lab in zip(body, want, ['nu'] + ['m'] * (K - 1) + ['gamma', 'h'] + (['beta'] if K == 1 else []) + ['dt']):
                        goals.append((to_real(exact(x)) == y, 'kernel %dD%s %s' % (K, axes[k - 1], lab)))
                    delj = body[len(want)] if len(body) > len(want) else kws.get('use_delj_trick')
                    if not (isinstance(delj, z3.ExprRef) and delj.eq(z3.Bool('use_delj_trick'))):
                        goals.append((z3.BoolVal(False), 'use_delj_trick forwarded'))
                mm = discharge(goals, p.pc)
                out.append(struct('%s.kernel-%dD%s' % (o, K, axes[k - 1]), ok and mm is None, mm or ('fed the previous result; rates of population %d at next_t in the kernel\'s argument order' % k if ok else 'not fed the previous sweep\'s result'), fn,
                                  finding_key='C02/driver/%s/kernel-%s' % (name, axes[k - 1])))
                prev = t
            out.append(struct(o + '.returns-last', res is prev, 'returns the last sweep\'s result', fn))
        return out
    return go()


def c02_driver_two_steps(K):
    """Integration.{one..five}_pops with every parameter a function of time, in the situation where the integration takes exactly TWO time steps
    (the first _compute_dt answer d of population 1 satisfies 0 < d < T - initial_t <= 2d and is the smallest of the K answers; at the second step
    every answer is >= T - initial_t - d).  The loop re-evaluates everything at every step:
      * _compute_dt is called K times per step (2K in all); the calls of step s get the sizes, rates, selection and dominance of population k at the
        *current* time of that step (initial_t, then initial_t + d);
      * step 1: influx with this_dt = d and theta0(initial_t + d), then the sweeps with the parameters at initial_t + d and dt = d;
      * step 2: influx with this_dt = T - initial_t - d and theta0(T), then the sweeps with the parameters at T and that dt;
      * each operation is fed the previous one's result and the last sweep's result is returned.
    (c02_driver_step covers the single-step situation, frozen populations and the flags.)"""
    name = {1: 'one_pop', 2: 'two_pops', 3: 'three_pops', 4: 'four_pops', 5: 'five_pops'}[K]
    oid = 'C02/Integration.py:%s/two-steps' % name
    fn = 'dadi/Integration.py::' + name

    @guarded(oid, fn)
    def go():
        sfx = (lambda k: '') if K == 1 else (lambda k: str(k))
        T, t0, d1 = z3.Reals('T t0 d_first')
        hy = [T > t0, d1 > 0, d1 < T - t0, T - t0 <= 2 * d1]      # (the last clause only keeps a driver that re-uses a stale step within two steps too)
        t1 = t0 + d1
        kw = {}
        fsym = {}

        def tf(nm):
            f_ = uf(nm + '_of_t')
            fsym[nm] = f_
            return PyFn(lambda t, _f=f_: _f(to_real(t)), nm + '_f')
        for k in range(1, K + 1):
            for base in ('nu', 'gamma', 'h'):
                kw[base + sfx(k)] = tf(base + sfx(k))
            for j in range(1, K + 1):
                if j != k:
                    kw['m%d%d' % (k, j)] = tf('m%d%d' % (k, j))
        kw['theta0'] = tf('theta0')
        if K == 1:
            kw['beta'] = tf('beta')
        kw['initial_t'] = t0
        dts = []

        def policy(fr):
            if fr.qualname == 'ensure_1arg_func':
                return lambda ex_, f_, a, k_: a[0] if not is_scalar(exact(a[0])) else PyFn(lambda t, _c=a[0]: _c, 'const')
            if fr.qualname == '_compute_dt':
                def cdt(ex_, f_, a, k_):
                    i = len(dts)
                    dts.append(list(a))
                    if i == 0:
                        return d1
                    d = ex_.ctx.fresh('dt')
                    ex_.ctx.pc.append(d >= d1 if i < K else d >= T - t1)
                    return d
                return cdt
            return 'abstract'
        ex = Executor(policy=policy, max_paths=64)
        ex.module_overrides[('dadi.Integration', 'cuda_enabled')] = False
        ex.module_overrides[('dadi.Integration', 'use_delj_trick')] = z3.Bool('use_delj_trick')
        f = ex.func('dadi/Integration.py', name)
        phi, xx = Tm('phi'), Tm('xx')

        def thunk(e):
            del dts[:]
            return e.apply(f.node, None, f.mod, [phi, xx, T], dict(kw), name), list(dts)
        paths = ex.explore(thunk, base_pc=hy)
        rets = [p for p in paths if p.outcome == 'return']
        out = []
        if len(rets) != 1:          # (the other paths are the refusals of negative / zero sizes, rates or theta0)
            return [struct(oid, False, 'expected exactly one returning path: %r' % [(p.outcome, vrepr(p.value)[:80]) for p in paths[:4]], fn,
                           finding_key='C02/driver/%s/two-steps' % name)]
        p = rets[0]
        res, dtcalls = p.value
        at = lambda nm, tt: fsym[nm](tt)
        axes = 'xyzab'
        calls = [(nm, t) for (tag, nm, t) in [e for e in p.log if e[0] == 'call']]
        seq = [(nm, t) for nm, t in calls if nm == 'dadi.Integration._inject_mutations_%dD' % K or 'implicit_' in nm]
        shape = [('inject' if 'inject' in nm else nm.split('implicit_')[1].rstrip(')')) for nm, t in seq]
        want_shape = (['inject'] + ['%dD%s' % (K, axes[k]) for k in range(K)]) * 2
        out.append(struct(oid + '.operations', shape == want_shape and len(dtcalls) == 2 * K,
                          'two rounds of (influx, sweeps 1..K) and %d _compute_dt calls (got %s, %d calls)' % (2 * K, shape, len(dtcalls)), fn,
                          finding_key='C02/driver/%s/two-steps' % name))
        if not (shape == want_shape and len(dtcalls) == 2 * K):
            return out
        goals = []
        for s_, tcur in ((0, t0), (1, t1)):
            for k, a in zip(range(1, K + 1), dtcalls[s_ * K:(s_ + 1) * K]):
                lab = 'step %d _compute_dt[%d]' % (s_ + 1, k)
                goals.append((to_real(a[1]) == at('nu' + sfx(k), tcur), lab + '.nu at the current time'))
                goals.append((to_real(a[3]) == at('gamma' + sfx(k), tcur), lab + '.gamma at the current time'))
                goals.append((to_real(a[4]) == at('h' + sfx(k), tcur), lab + '.h at the current time'))
                ms = a[2].items if isinstance(a[2], VList) else list(a[2])
                want_ms = [at('m%d%d' % (k, j), tcur) for j in range(1, K + 1) if j != k] or [z3.RealVal(0)]
                if len(ms) != len(want_ms):
                    goals.append((z3.BoolVal(False), lab + ' gets %d migration rates' % len(ms)))
                else:
                    for x, y in zip(ms, want_ms):
                        goals.append((to_real(exact(x)) == y, lab + '.ms at the current time'))
        mm = discharge(goals, list(hy) + list(p.pc))
        out.append(struct(oid + '.compute_dt-args', mm is None, mm or 'every step recomputes the time step from the parameters at its own current time', fn,
                          finding_key='C02/driver/%s/two-steps' % name))
        prev = None
        for s_, (tnext, dt_want) in enumerate(((t1, d1), (T, T - t1))):
            inj = seq[s_ * (K + 1)][1]
            d = dict(zip(inj.attrs['__argnames__'], inj.args))
            goals = [(to_real(d['dt']) == dt_want, 'step %d: this_dt' % (s_ + 1)), (to_real(d['theta0']) == at('theta0', tnext), 'step %d: theta0 at next_t' % (s_ + 1))]
            okp = True if prev is None else (d['phi'] is prev or vrepr(d['phi']) == vrepr(prev))
            prev = d['phi']
            for k in range(1, K + 1):
                nm, t = seq[s_ * (K + 1) + k]
                pos = [x for x in t.args if not (isinstance(x, tuple) and x and x[0] == 'kw')]
                okp = okp and (pos[0] is prev or vrepr(pos[0]) == vrepr(prev))
                body = pos[1 + K:]
                want = [at('nu' + sfx(k), tnext)] + [at('m%d%d' % (k, j), tnext) for j in range(1, K + 1) if j != k] + \
                       [at('gamma' + sfx(k), tnext), at('h' + sfx(k), tnext)] + ([at('beta', tnext)] if K == 1 else []) + [dt_want]
                if len(body) < len(want):
                    goals.append((z3.BoolVal(False), 'step %d kernel %s gets %d scalar arguments' % (s_ + 1, nm, len(body))))
                else:
                    for x, y, lab in zip(body, want, ['nu'] + ['m'] * (K - 1) + ['gamma', 'h'] + (['beta'] if K == 1 else []) + ['dt']):
                        goals.append((to_real(exact(x)) == y, 'step %d kernel %dD%s %s' % (s_ + 1, K, axes[k - 1], lab)))
                prev = t
            mm = discharge(goals, list(hy) + list(p.pc))
            out.append(struct('%s.step%d' % (oid, s_ + 1), mm is None and okp, mm or ('influx then sweeps with the parameters at the end of the step and this step\'s dt, each fed the previous result'
                                                                                      if okp else 'an operation is not fed the previous one\'s result'), fn,
                              finding_key='C02/driver/%s/two-steps' % name))
        out.append(struct(oid + '.returns-last', res is prev, 'returns the last sweep\'s result', fn))
        return out
    return go()


# ---------------------------------------------------------------- C02: the constant-parameter 1-D driver assembles the same system as the C kernel contract
def c02_const_1d(n, late_start=False):
    """(late_start=True: the same with initial_t > 0 and a time step longer than T itself - the single step then has length T - initial_t whatever the
    driver takes for its clock's origin; obligations for the entries that depend on the step, b and r, under `.late-start`)
    _one_pop_const_params on a grid of n symbolic points, one step (T - initial_t <= dt); _compute_delj by its contract (entry k = delj(M, dx, V) at
    midpoint k, an uninterpreted function of those three values: with the Chang-Cooper switch off it is 1/2, see c02_compute_delj_py):
    tridiag.tridiag(a, b', c, r) receives entry by entry the a, b + abs + 1/dt, c of the contract of compute_abc_nobc (contracts/c_shared.abc_closed)
    for V = x(1-x)/nu (beta+1)^2/(4 beta), M = 2 gamma x(1-x)(h+(1-2h)x) at the midpoints, Delta the trapezoid factors, delj as above, and r = (phi + influx)/dt:
    the same linear system as implicit_1Dx (C02 kernel contract), so constant and time-function parameters take the same step."""
    oid = 'C02/Integration.py:_one_pop_const_params/system.n%d%s' % (n, '.late-start' if late_start else '')
    fn = 'dadi/Integration.py::_one_pop_const_params'

    @guarded(oid, fn)
    def go():
        from contracts import c_shared as CS
        T, t0 = z3.Reals('T t0')
        nu, g, h, th, beta = z3.Reals('nu gamma h theta0 beta')
        xs = [z3.RealVal(0)] + reals('x', n - 2) + [z3.RealVal(1)]      # dadi grids run from 0 to 1: M vanishes at both ends, one path
        ph = reals('phi', n)
        hy = [T > t0, nu > 0, beta > 0, th >= 0] + [xs[i] < xs[i + 1] for i in range(n - 1)] + ([t0 > 0] if late_start else [])
        delj = uf('delj', 3)

        def policy(fr):
            if fr.qualname == '_compute_dt':
                def cdt(ex_, f_, a, k_):
                    d = ex_.ctx.fresh('dt')
                    ex_.ctx.pc += [d > T - t0, d > 0] + ([d > T] if late_start else [])        # strictly longer than the epoch: min(dt, T - t) is then decided (at equality both are the same number)
                    return d
                return cdt
            if fr.qualname == '_compute_delj':
                # by contract (proved separately, c02_compute_delj_py): entry k = delj(M_k, dx_k, V_k), read along the swept axis
                def cdj(ex_, f_, a, k_):
                    dl, ml, vl = ex_.iterate(a[0]), ex_.iterate(a[1]), ex_.iterate(a[2])
                    return VList([delj(to_real(exact(ml[k])), to_real(exact(dl[k])), to_real(exact(vl[k]))) for k in range(len(ml))], 'ndarray')
                return cdj
            if fr.qualname in ('_Mfunc1D', '_Vfunc', '_compute_dfactor', '_inject_mutations_1D', '_one_pop_const_params'):
                return 'inline'
            return 'abstract'
        ex = Executor(policy=policy, max_paths=64)
        ex.module_overrides[('dadi.Integration', 'cuda_enabled')] = False
        f = ex.func('dadi/Integration.py', '_one_pop_const_params')
        paths = ex.explore(lambda e: e.apply(f.node, None, f.mod, [VList(ph, 'ndarray'), VList(xs, 'ndarray'), T], dict(nu=nu, gamma=g, h=h, theta0=th, initial_t=t0, beta=beta), 'f'), base_pc=hy)
        rets = [p for p in paths if p.outcome == 'return']
        out = []
        if not rets:
            return [struct(oid, False, 'no returning path: %r' % paths[:2], fn, undecided=True)]
        V = lambda x: x * (1 - x) / nu * ((beta + 1) * (beta + 1)) / (4 * beta)
        Mf = lambda x: 2 * g * x * (1 - x) * (h + (1 - 2 * h) * x)
        X = lambda k: xs[k]
        N = n
        dx = lambda k: xs[k + 1] - xs[k]
        xi = lambda k: (xs[k + 1] + xs[k]) / 2
        Delta = lambda k: 2 / dx(0) if k == 0 else (2 / dx(N - 2) if k == N - 1 else 2 / (dx(k) + dx(k - 1)))
        dj = lambda k: delj(Mf(xi(k)), dx(k), V(xi(k)))
        at = lambda k: Mf(xi(k)) * dj(k) + V(xs[k]) / (2 * dx(k))
        ct = lambda k: -Mf(xi(k)) * (1 - dj(k)) + V(xs[k + 1]) / (2 * dx(k))
        sa = lambda k: z3.RealVal(0) if k == 0 else -Delta(k) * at(k - 1)
        sc = lambda k: z3.RealVal(0) if k == N - 1 else -Delta(k) * ct(k)
        sb0 = lambda k: (Delta(k) * at(k) if k <= N - 2 else 0) + (Delta(k) * ct(k - 1) if k >= 1 else 0)
        for pi, p in enumerate(rets):
            o = '%s.path%d' % (oid, pi)
            calls = [t for (tag, nm, t) in [e for e in p.log if e[0] == 'call'] if 'tridiag' in nm]
            if len(calls) != 1:
                out.append(struct(o + '.one-solve', False, '%d tridiagonal solves in one step' % len(calls), fn, undecided=True))
                continue
            pos = [x for x in calls[0].args if not (isinstance(x, tuple) and x and x[0] == 'kw')]
            a, b, c, r = pos[:4]
            if not all(isinstance(v, VList) and len(v.items) == n for v in (a, b, c, r)):
                out.append(struct(o + '.shapes', False, 'tridiag arguments are not length-%d vectors' % n, fn, undecided=True))
                continue
            dt = T - t0
            M0, Mn = Mf(xs[0]), Mf(xs[n - 1])
            for k in range(n):
                absk = z3.RealVal(0)
                if k == 0:
                    absk = z3.If(M0 <= 0, (CS.HALF / nu - M0) * 2 / dx(0), z3.RealVal(0))
                if k == n - 1:
                    absk = absk + z3.If(Mn >= 0, (CS.HALF / nu + Mn) * 2 / dx(n - 2), z3.RealVal(0))
                from contracts.c_verify import _resolve
                hyp = p.pc
                if not late_start:
                    out.append(prove_eq('%s.a[%d]' % (o, k), hyp, a.items[k], sa(k), func=fn, timeout_ms=30000, finding_key='C02/const1d/a', z3_first_ms=250))
                    out.append(prove_eq('%s.c[%d]' % (o, k), hyp, c.items[k], sc(k), func=fn, timeout_ms=30000, finding_key='C02/const1d/c', z3_first_ms=250))
                out.append(prove_eq('%s.b[%d]' % (o, k), hyp, _resolve(to_real(b.items[k]), hyp), _resolve(1 / dt + sb0(k) + absk, hyp), func=fn, timeout_ms=30000, finding_key='C02/const1d/b', z3_first_ms=250))
                infl = dt * th / 2 / xs[1] * 2 / (xs[2] - xs[0]) if k == 1 else 0
                out.append(prove_eq('%s.r[%d]' % (o, k), hyp, _resolve(to_real(exact(r.items[k])), hyp), (ph[k] + infl) / dt, func=fn, timeout_ms=30000, finding_key='C02/const1d/r', z3_first_ms=250))
            out.append(struct(o + '.returns-solution', p.value is calls[0], 'returns the solver result', fn))
        out.append(struct(oid + '.paths', len(rets) >= 1, '%d returning paths (boundary-term branches)' % len(rets), fn))
        return out
    return go()


def c02_const_1d_two_steps(n):
    """_one_pop_const_params when the integration takes exactly two steps (the _compute_dt answer d satisfies d < T - initial_t < 2d): the matrix is built
    once, and
      * step 1 solves (a, b + 1/d, c) with right-hand side (phi + influx(d))/d,
      * step 2 solves the SAME a, c and b + 1/(T - initial_t - d) -- the diagonal of step 1 does not leak into step 2 -- with right-hand side
        (solution of step 1 + influx(T - initial_t - d))/(T - initial_t - d),
      * the second solution is returned.
    The solver result of step 1 is a vector of fresh symbols; a, b, c are compared with the first step's own arguments (whose closed form is the
    one-step contract c02_const_1d)."""
    oid = 'C02/Integration.py:_one_pop_const_params/two-steps.n%d' % n
    fn = 'dadi/Integration.py::_one_pop_const_params'

    @guarded(oid, fn)
    def go():
        T, t0, d = z3.Reals('T t0 d_step')
        nu, g, h, th, beta = z3.Reals('nu gamma h theta0 beta')
        xs = [z3.RealVal(0)] + reals('x', n - 2) + [z3.RealVal(1)]
        ph = reals('phi', n)
        hy = [T > t0, nu > 0, beta > 0, th >= 0, d > 0, d < T - t0, T - t0 < 2 * d] + [xs[i] < xs[i + 1] for i in range(n - 1)]
        delj = uf('delj', 3)
        solves = []

        def policy(fr):
            if fr.qualname == '_compute_dt':
                return lambda ex_, f_, a, k_: d
            if fr.qualname == '_compute_delj':
                def cdj(ex_, f_, a, k_):
                    dl, ml, vl = ex_.iterate(a[0]), ex_.iterate(a[1]), ex_.iterate(a[2])
                    return VList([delj(to_real(exact(ml[k])), to_real(exact(dl[k])), to_real(exact(vl[k]))) for k in range(len(ml))], 'ndarray')
                return cdj
            if fr.qualname in ('_Mfunc1D', '_Vfunc', '_compute_dfactor', '_inject_mutations_1D', '_one_pop_const_params'):
                return 'inline'
            return 'abstract'

        def ah(ex_, fref, a, kw, ctx):
            if 'tridiag' in vrepr(fref):
                # snapshot of the arguments at the time of the call (a later in-place update of b must not rewrite history)
                snap = [VList(list(v.items), 'ndarray') if isinstance(v, VList) else v for v in a[:4]]
                res = VList([z3.Real('psi%d_%d' % (len(solves) + 1, k)) for k in range(n)], 'ndarray')
                solves.append((snap, VList(list(res.items), 'ndarray')))       # (the driver goes on to update the solution in place: keep its entries)
                return res
            return NotImplemented
        ex = Executor(policy=policy, max_paths=64)
        ex.abstract_hook = ah
        ex.module_overrides[('dadi.Integration', 'cuda_enabled')] = False
        f = ex.func('dadi/Integration.py', '_one_pop_const_params')

        def thunk(e):
            del solves[:]
            r = e.apply(f.node, None, f.mod, [VList(list(ph), 'ndarray'), VList(xs, 'ndarray'), T], dict(nu=nu, gamma=g, h=h, theta0=th, initial_t=t0, beta=beta), 'f')
            return r, list(solves)
        paths = ex.explore(thunk, base_pc=hy)
        rets = [p for p in paths if p.outcome == 'return']
        if len(rets) != 1:
            return [struct(oid, False, 'expected one returning path: %r' % [(p.outcome, p.pc[-2:]) for p in paths[:3]], fn, undecided=True)]
        p = rets[0]
        res, sv = p.value
        out = [struct(oid + '.two-solves', len(sv) == 2, '%d tridiagonal solves' % len(sv), fn, finding_key='C02/const1d/two-steps')]
        if len(sv) != 2:
            return out
        (a1, b1, c1, r1), psi1 = sv[0]
        (a2, b2, c2, r2), psi2 = sv[1]
        if not all(isinstance(v, VList) and len(v.items) == n for v in (a1, b1, c1, r1, a2, b2, c2, r2)):
            return out + [struct(oid + '.shapes', False, 'tridiag arguments are not length-%d vectors' % n, fn, undecided=True)]
        from contracts.c_verify import _resolve
        hyp = list(p.pc)
        dt2 = T - t0 - d
        goals = []
        for k in range(n):
            goals.append((to_real(exact(a2.items[k])) == to_real(exact(a1.items[k])), 'a[%d] unchanged between the steps' % k))
            goals.append((to_real(exact(c2.items[k])) == to_real(exact(c1.items[k])), 'c[%d] unchanged between the steps' % k))
        mm = discharge(goals, hyp)
        out.append(struct(oid + '.off-diagonals', mm is None, mm or 'a and c of step 2 are those of step 1', fn, finding_key='C02/const1d/two-steps'))
        for k in range(n):
            out.append(prove_eq('%s.b[%d]' % (oid, k), hyp, _resolve(to_real(exact(b2.items[k])) - 1 / dt2, hyp), _resolve(to_real(exact(b1.items[k])) - 1 / d, hyp), func=fn,
                                timeout_ms=30000, finding_key='C02/const1d/two-steps', z3_first_ms=250))
            infl1 = d * th / 2 / xs[1] * 2 / (xs[2] - xs[0]) if k == 1 else 0
            infl2 = dt2 * th / 2 / xs[1] * 2 / (xs[2] - xs[0]) if k == 1 else 0
            out.append(prove_eq('%s.r1[%d]' % (oid, k), hyp, _resolve(to_real(exact(r1.items[k])), hyp), (ph[k] + infl1) / d, func=fn, timeout_ms=30000,
                                finding_key='C02/const1d/two-steps', z3_first_ms=250))
            out.append(prove_eq('%s.r2[%d]' % (oid, k), hyp, _resolve(to_real(exact(r2.items[k])), hyp), (psi1.items[k] + infl2) / dt2, func=fn, timeout_ms=30000,
                                finding_key='C02/const1d/two-steps', z3_first_ms=250))
        out.append(struct(oid + '.returns-solution', isinstance(res, VList) and len(res.items) == n and all(x is y for x, y in zip(res.items, psi2.items)),
                          'returns the second solve\'s result', fn, finding_key='C02/const1d/two-steps'))
        return out
    return go()


def c17_integrate_1d():
    """Cache1D.integrate = theta * ( trapz(pdf(-g_i) S_i over the cached negative gammas) + S_neutral * int_0^{|g_min|} pdf + S_0 * int_{|g_max|}^inf pdf ),
    index 0 = most deleterious; exterior_int=False drops the two tails."""
    oid = 'C17/Cache1D_mod.py:Cache1D.integrate'
    fn = 'dadi/DFE/Cache1D_mod.py::Cache1D.integrate'

    @guarded(oid, fn)
    def go():
        out = []
        for ext in (True, False):
            ex = Executor()
            f = ex.func('dadi/DFE/Cache1D_mod.py', 'Cache1D.integrate')
            n = 3
            gs = reals('g', n)
            S = [Tm('S%d' % i) for i in range(n)]
            me = Tm('self')
            me.attrs.update(neg_gammas=VList(gs, 'ndarray'), spectra=VList(S + [Tm('S_pos')], 'ndarray'), neu_spec=Tm('S_neu'))
            theta = z3.Real('theta')
            pdf = uf('pdf')
            params = Tm('params')
            sel = PyFn(lambda x, p: VList([pdf(to_real(v)) for v in x.items], 'ndarray') if isinstance(x, VList) else Tm('pdf_call', x, p), 'sel_dist')
            paths = ex.run(f, [me, params, None, sel, theta], dict(exterior_int=ext))
            tag = 'with-tails' if ext else 'interior-only'
            if len(paths) != 1 or paths[0].outcome != 'return':
                out.append(struct('%s.%s' % (oid, tag), False, 'expected one returning path: %r' % paths[:2], fn, undecided=True))
                continue
            v = paths[0].value
            ok = isinstance(v, Tm) and 'Spectrum' in v.op
            inner = v.args[0] if ok else None
            lf = linear_form(inner) if ok else {}
            keys = list(lf)
            tr = [k for k in keys if 'trapz' in k]
            probs = []
            if len(tr) != 1:
                probs.append('no single trapz term: %s' % keys)
            else:
                t = lf[tr[0]][0]
                w = t.args[0]
                xarg = t.args[1] if len(t.args) > 1 else None
                want_w = ['op:Mult(pdf(-1*g%d), S%d)' % (i, i) for i in range(n)]
                got_w = [vrepr(x).replace('-g', '-1*g') for x in (w.items if isinstance(w, VList) else [])]
                if got_w != want_w:
                    probs.append('trapz integrand %s (expected pdf(-g_i) S_i)' % got_w)
                if not (isinstance(xarg, VList) and all(a is b for a, b in zip(xarg.items, gs))):
                    probs.append('trapz abscissae are not the cached gammas')
                if str(z3.simplify(lf[tr[0]][1])) != 'theta':
                    probs.append('trapz term scaled by %s' % z3.simplify(lf[tr[0]][1]))
            tails = [k for k in keys if k not in tr]
            if ext:
                neu = [k for k in tails if k.startswith('op:Mult(S_neu, getitem(call:attr:quad(lib:scipy.integrate)(<pyfn sel_dist>, 0, -1*g2,')]
                dele = [k for k in tails if k.startswith('op:Mult(S0, getitem(call:attr:quad(lib:scipy.integrate)(<pyfn sel_dist>, -1*g0, float:inf,')]
                if len(neu) != 1 or len(dele) != 1 or len(tails) != 2:
                    probs.append('tail terms %s (expected S_neu*quad(pdf, 0, |g_min|) and S_0*quad(pdf, |g_max|, inf))' % tails)
                for k_ in tails:
                    if str(z3.simplify(lf[k_][1])) != 'theta':
                        probs.append('tail %s scaled by %s' % (k_[:30], z3.simplify(lf[k_][1])))
            else:
                if tails:
                    probs.append('exterior_int=False still adds %s' % tails)
            out.append(struct('%s.%s' % (oid, tag), not probs, '; '.join(probs) or 'theta*(trapz(pdf(-g_i) S_i, g) %s)' % ('+ S_neu*int_0^|g_min| + S_0*int_|g_max|^inf' if ext else ''), fn,
                              finding_key='C17/Cache1D.integrate/%s' % tag))
        return out
    return go()


# ---------------------------------------------------------------- C18: low-pass helpers
def c18_split_list():
    """split_list_by_lengths(xs, ls)[i] is xs[sum(ls[:i]) : sum(ls[:i+1])] -- consecutive, in order, nothing skipped or repeated."""
    oid = 'C18/LowPass.py:split_list_by_lengths'
    fn = 'dadi/LowPass/LowPass.py::split_list_by_lengths'

    @guarded(oid, fn)
    def go():
        out = []
        for ls in ((1,), (2, 1), (1, 2, 3), (3, 0, 2), (2, 2, 2, 1)):
            ex = Executor()
            f = ex.func('dadi/LowPass/LowPass.py', 'split_list_by_lengths')
            xs = [Tm('x%d' % i) for i in range(sum(ls) + 1)]
            paths = ex.run(f, [VList(list(xs)), VList(list(ls))], {})
            tag = '%s.lengths%s' % (oid, '_'.join(map(str, ls)))
            if len(paths) != 1 or paths[0].outcome != 'return':
                out.append(struct(tag, False, 'expected one returning path: %r' % paths[:2], fn, undecided=True))
                continue
            v = paths[0].value
            got = [[id(e) for e in ex.iterate(sub)] for sub in ex.iterate(v)]
            want, s = [], 0
            for l in ls:
                want.append([id(e) for e in xs[s:s + l]])
                s += l
            out.append(struct(tag, got == want, 'sublist i is the i-th consecutive block of the stated length' if got == want else 'blocks differ: positions %r' % ([[xs_i for xs_i, e in enumerate(xs) if id(e) in g] for g in got],), fn))
        return out
    return go()


def c18_projection_inbreeding(n, k):
    """projection_inbreeding(partition, k): with genotypes g_i in {0,1,2} for n individuals, entry s of the result is
         #{ k/2-subsets of individuals whose genotypes sum to s } / C(n, k/2)
    -- every subset of individuals counted once, *with* multiplicity (equal genotype tuples are different subsets);
    the result sums to one."""
    oid = 'C18/LowPass.py:projection_inbreeding/n%d_k%d' % (n, k)
    fn = 'dadi/LowPass/LowPass.py::projection_inbreeding'

    @guarded(oid, fn)
    def go():
        import math
        ex = Executor()
        f = ex.func('dadi/LowPass/LowPass.py', 'projection_inbreeding')
        g = [z3.Int('g%d' % i) for i in range(n)]
        hy = [z3.And(x >= 0, x <= 2) for x in g]
        paths = ex.run(f, [VList(list(g)), k], {}, base_pc=hy)
        rets = [p for p in paths if p.outcome == 'return']
        if len(rets) != len(paths) or not rets:
            return [struct(oid, False, 'a path does not return: %r' % [p for p in paths if p.outcome != 'return'][:2], fn, undecided=True)]
        tot = math.comb(n, k // 2)

        def replay(model):
            import numpy
            from dadi.LowPass import LowPass
            part = [int(model.get('g%d' % i, 0)) for i in range(n)]
            r = LowPass.projection_inbreeding(part, k)
            want = numpy.zeros(k + 1)
            for c in itertools.combinations(part, k // 2):
                want[sum(c)] += 1
            want /= tot
            return dict(replayed=True, postcondition_holds_natively=not bool(abs(r - want).max() > 1e-12), input=dict(partition=part, k=k), got=list(map(float, r)), want=list(map(float, want)))
        out = []
        for pi, p in enumerate(rets):
            tag = oid if len(rets) == 1 else '%s.path%d' % (oid, pi)
            res = [to_real(exact(x)) for x in ex.iterate(p.value)]
            out.append(struct(tag + '.length', len(res) == k + 1, 'k+1 entries (got %d)' % len(res), fn))
            for s in range(min(k + 1, len(res))):
                cnt = z3.Sum([z3.If(z3.Sum(list(c)) == s, z3.RealVal(1), z3.RealVal(0)) for c in itertools.combinations(g, k // 2)])
                out.append(prove('%s.entry%d' % (tag, s), hy + list(p.pc), res[s] * tot == cnt, fn, replay=replay))
            out.append(prove(tag + '.sums-to-one', hy + list(p.pc), z3.Sum(res) == 1, fn, replay=replay))
        return out
    return go()


def c18_enough_covered(nseq, nsub):
    """probability_enough_individuals_covered = P[ Binomial(N, q) >= m ] written out,
         sum_{c=m}^{N} C(N,c) p0^(N-c) q^c,   N = nseq/2 - 1, m = ceil(nsub/2) - 1, p0 = P(depth 0), q = sum of the other depths;
    with m = 0 it is (p0+q)^N, i.e. one for a normalised distribution."""
    oid = 'C18/LowPass.py:probability_enough_individuals_covered/nseq%d_nsub%d' % (nseq, nsub)
    fn = 'dadi/LowPass/LowPass.py::probability_enough_individuals_covered'

    @guarded(oid, fn)
    def go():
        import math
        ex = Executor()
        f = ex.func('dadi/LowPass/LowPass.py', 'probability_enough_individuals_covered')
        pr = reals('p', 4)
        cd = VList([VList([0, 1, 2, 3], 'ndarray'), VList(list(pr), 'ndarray')], 'ndarray')
        paths = ex.run(f, [cd, nseq, nsub], {})
        if len(paths) != 1 or paths[0].outcome != 'return':
            return [struct(oid, False, 'expected one returning path: %r' % paths[:2], fn, undecided=True)]
        v = to_real(exact(paths[0].value))
        N, m = nseq // 2 - 1, -(-nsub // 2) - 1
        p0, q = pr[0], pr[1] + pr[2] + pr[3]
        def pw(x, e):
            r = z3.RealVal(1)
            for _ in range(e):
                r = r * x
            return r
        want = z3.RealVal(0)
        for c in range(m, N + 1):
            want = want + math.comb(N, c) * pw(p0, N - c) * pw(q, c)
        out = [prove_eq(oid + '.binomial-tail', list(paths[0].pc), v, want, fn)]
        if m == 0:
            out.append(prove_eq(oid + '.certain', list(paths[0].pc), v, pw(p0 + q, N), fn))
        return out
    return go()


def c18_projection_matrix(nseq, nsub):
    """projection_matrix(nseq, nsub, F): for F = 0 row a is exactly _cached_projection(nsub, nseq, a) (the hypergeometric projection of C08);
    for F != 0 row a is  sum_i prob_i * projection_inbreeding(partition_i, nsub)  over the partitions of allele frequency a
    returned by partitions_and_probabilities(nseq, 'allele_frequency', F, a)."""
    oid = 'C18/LowPass.py:projection_matrix/nseq%d_nsub%d' % (nseq, nsub)
    fn = 'dadi/LowPass/LowPass.py::projection_matrix'

    @guarded(oid, fn)
    def go():
        F = z3.Real('F')
        pp_calls = []

        def pol(fref):
            if fref.qualname == '_cached_projection':
                def h(ex, fr, args, kwargs):
                    return VList([z3.Real('P(%s)[%d]' % (','.join(str(exact(a)) for a in args), j)) for j in range(nsub + 1)], 'ndarray')
                return h
            if fref.qualname == 'partitions_and_probabilities':
                def h2(ex, fr, args, kwargs):
                    pp_calls.append(tuple(args))
                    a = exact(args[3]) if len(args) > 3 else None
                    return (VList([Tm('part%s_%d' % (a, i)) for i in range(2)]), VList([z3.Real('prob%s_%d' % (a, i)) for i in range(2)], 'ndarray'))
                return h2
            if fref.qualname == 'projection_inbreeding':
                def h3(ex, fr, args, kwargs):
                    if exact(args[1]) != nsub:
                        raise PyRaise('ContractViolation', 'projection_inbreeding called with k=%r, expected n_subsampling' % (args[1],))
                    return VList([z3.Real('PI(%s)[%d]' % (vrepr(args[0]), j)) for j in range(nsub + 1)], 'ndarray')
                return h3
            return 'inline' if fref.qualname == 'projection_matrix' else 'abstract'
        ex = Executor(policy=pol)
        f = ex.func('dadi/LowPass/LowPass.py', 'projection_matrix')
        paths = ex.run(f, [nseq, nsub, F], {})
        rets = [p for p in paths if p.outcome == 'return']
        out = []
        if len(rets) != len(paths) or not rets:
            return [struct(oid, False, 'a path does not return: %r' % [p for p in paths if p.outcome != 'return'][:2], fn, undecided=True)]
        seen = set()
        for p in rets:
            s_ = z3.Solver()
            s_.add(*p.pc)
            s_.add(F == 0)
            outbred = s_.check() == z3.sat
            tag = 'F0' if outbred else 'Fnonzero'
            if tag in seen:
                out.append(struct('%s.%s.single-path' % (oid, tag), False, 'more than one path for this case', fn, undecided=True))
                continue
            seen.add(tag)
            rows = [ex.iterate(r) for r in ex.iterate(p.value)]
            if len(rows) != nseq + 1 or any(len(r) != nsub + 1 for r in rows):
                out.append(struct('%s.%s.shape' % (oid, tag), False, 'shape is not (nseq+1, nsub+1)', fn))
                continue
            for a in range(nseq + 1):
                for j in range(nsub + 1):
                    if outbred:
                        want = z3.Real('P(%d,%d,%d)[%d]' % (nsub, nseq, a, j))
                    else:
                        want = sum(z3.Real('prob%d_%d' % (a, i)) * z3.Real('PI(part%d_%d)[%d]' % (a, i, j)) for i in range(2))
                    out.append(prove_eq('%s.%s.row%d.col%d' % (oid, tag, a, j), list(p.pc), rows[a][j], want, fn))
            if not outbred:
                ok = len(pp_calls) >= nseq + 1 and all(exact(c[0]) == nseq and exact(c[1]) == 'allele_frequency' and c[2] is F or (z3.is_expr(c[2]) and c[2].eq(F)) for c in pp_calls)
                out.append(struct('%s.%s.partition-arguments' % (oid, tag), bool(ok), "partitions_and_probabilities(n_sequenced, 'allele_frequency', F, a)", fn))
        if seen != {'F0', 'Fnonzero'}:
            out.append(struct(oid + '.cases', False, 'cases explored: %s' % sorted(seen), fn, undecided=True))
        return out
    return go()


# ---------------------------------------------------------------- C13: summary statistics of a 1-D spectrum
def _spectrum_self(n, S_contract=True):
    """A 1-D spectrum object with symbolic entries f0..fn for the executor: an ndarray VList plus the attributes the statistic
    methods read.  S(), pi(), Watterson_theta() called *from another method* are answered by their contracts (modular)."""
    f = reals('f', n + 1)
    me = VList(list(f), 'ndarray')
    return me, f


def c13_statistics(n):
    """For a 1-D spectrum f of n chromosomes (entries f_0..f_n, corners masked for S):
         S = sum_{0<i<n} f_i;   Watterson = S / sum_{k<n} 1/k;   theta_L = sum i f_i/(n-1);
         pi = sum_i f_i * i(n-i)/C(n,2)   -- a SNP with i derived copies contributes the fraction of the C(n,2) pairs that differ;
         Tajima_D = (pi - Watterson)/sqrt(e1 S + e2 S (S-1)) with Tajima's (1989) constants.
    S() must leave the mask as it found it."""
    base = 'C13/Spectrum_mod.py:Spectrum'
    out = []
    import math

    def run_method(meth, contracts):
        me, f = _spectrum_self(n)
        log = []

        def gh(ex, obj, name, ctx):
            if obj is me:
                if name == 'sample_sizes':
                    return VList([n], 'ndarray')
                if name in ('Npop', 'ndim'):
                    return 1
                if name in contracts:
                    return PyFn(lambda: contracts[name](f), 'self.' + name)
            return NotImplemented
        ex = Executor(getattr_hook=gh)
        fr = ex.func('dadi/Spectrum_mod.py', 'Spectrum.' + meth)
        paths = ex.run(fr, [me], {})
        return ex, f, paths

    Sx = lambda f: sum(f[1:n], z3.RealVal(0))
    an = sum(Fraction(1, k) for k in range(1, n))
    bn = sum(Fraction(1, k * k) for k in range(1, n))
    PIx = lambda f: sum((f[i] * Fraction(i * (n - i), math.comb(n, 2)) for i in range(n + 1)), z3.RealVal(0))
    Wx = lambda f: Sx(f) / z3.RealVal(str(an)) if False else Sx(f) * z3.Q(an.denominator, an.numerator)

    def native(meth):
        def replay(model):
            import numpy, dadi
            fv = [float(Fraction(str(model.get('f%d' % i, 0)))) for i in range(n + 1)]
            fs = dadi.Spectrum(fv)
            got = float(getattr(fs, meth)())
            S_ = sum(fv[1:n])
            pi_ = sum(fv[i] * i * (n - i) / math.comb(n, 2) for i in range(n + 1))
            w_ = S_ / float(an)
            if meth == 'pi':
                want = pi_
            elif meth == 'Watterson_theta':
                want = w_
            elif meth == 'theta_L':
                want = sum(i * fv[i] for i in range(1, n)) / (n - 1)
            else:
                a1, a2 = float(an), float(bn)
                b1, b2 = (n + 1) / (3 * (n - 1)), 2 * (n * n + n + 3) / (9 * n * (n - 1))
                c1, c2 = b1 - 1 / a1, b2 - (n + 2) / (a1 * n) + a2 / a1 ** 2
                want = (pi_ - w_) / numpy.sqrt(c1 / a1 * S_ + c2 / (a1 ** 2 + a2) * S_ * (S_ - 1))
            bad = not (abs(got - want) <= 1e-9 * max(1.0, abs(want)))
            return dict(replayed=True, postcondition_holds_natively=not bad, input=dict(fs=fv, method=meth), got=got, want=want)
        return replay

    def one(meth, contracts, want_fn, what):
        oid = '%s.%s/n%d' % (base, meth, n)
        fn = 'dadi/Spectrum_mod.py::Spectrum.' + meth

        @guarded(oid, fn)
        def go():
            ex, f, paths = run_method(meth, contracts)
            rets = [p for p in paths if p.outcome == 'return']
            if len(rets) != 1 or len(paths) != 1:
                return [struct(oid, False, 'expected one returning path: %r' % paths[:2], fn, undecided=True)]
            return want_fn(oid, fn, f, rets[0])
        return go()

    out += one('Watterson_theta', dict(S=Sx), lambda oid, fn, f, p: [prove_eq(oid, list(p.pc), p.value, Wx(f), fn, replay=native('Watterson_theta'))], '')
    out += one('theta_L', {}, lambda oid, fn, f, p: [prove_eq(oid, list(p.pc), p.value, sum((i * f[i] for i in range(1, n)), z3.RealVal(0)) / (n - 1), fn, replay=native('theta_L'))], '')
    out += one('pi', {}, lambda oid, fn, f, p: [prove_eq(oid, list(p.pc), p.value, PIx(f), fn, replay=native('pi'))], '')

    def tajima(oid, fn, f, p):
        # (pihat - theta)/sqrt(R): compare numerator and radicand separately
        v = p.value
        S = Sx(f)
        a1, a2 = an, bn
        b1 = Fraction(n + 1, 3 * (n - 1))
        b2 = Fraction(2 * (n * n + n + 3), 9 * n * (n - 1))
        c1 = b1 - 1 / a1
        c2 = b2 - Fraction(n + 2, 1) / (a1 * n) + a2 / a1 ** 2
        e1, e2 = c1 / a1, c2 / (a1 ** 2 + a2)
        q = lambda fr_: z3.Q(fr_.numerator, fr_.denominator)
        rad = q(e1) * S + q(e2) * S * (S - 1)
        want = (PIx(f) - Wx(f)) / uf('sqrt')(rad)
        return [prove_eq(oid, list(p.pc) + [rad > 0], v, want, fn, replay=native('Tajima_D'))]
    out += one('Tajima_D', dict(S=Sx, pi=PIx, Watterson_theta=Wx), tajima, '')
    return out


def c13_S_frame():
    """Spectrum.S(): masks the two corners, sums, and puts the caller's mask back (no lasting change to self)."""
    oid = 'C13/Spectrum_mod.py:Spectrum.S/frame'
    fn = 'dadi/Spectrum_mod.py::Spectrum.S'

    @guarded(oid, fn)
    def go():
        me = Tm('self')
        log = []
        m0 = Tm('mask0')
        m0.attrs['copy'] = PyFn(lambda: (log.append('mask.copy'), Tm('mask0.copy'))[1], 'mask.copy')
        me.attrs['mask'] = m0
        me.attrs['mask_corners'] = PyFn(lambda: log.append('mask_corners'), 'mask_corners')
        me.attrs['sum'] = PyFn(lambda: (log.append('sum'), Tm('sum'))[1], 'sum')
        ex = Executor()
        fr = ex.func('dadi/Spectrum_mod.py', 'Spectrum.S')
        paths = ex.run(fr, [me], {})
        if len(paths) != 1 or paths[0].outcome != 'return':
            return [struct(oid, False, 'expected one returning path: %r' % paths[:2], fn, undecided=True)]
        final = me.attrs.get('mask')
        ok_order = log == ['mask.copy', 'mask_corners', 'sum']
        ok_restore = isinstance(final, Tm) and final.op == 'mask0.copy'
        ok_val = isinstance(paths[0].value, Tm) and paths[0].value.op == 'sum'
        return [struct(oid + '.order', ok_order, 'copy the mask, mask the corners, then sum: %s' % log, fn),
                struct(oid + '.mask-restored', ok_restore, 'self.mask ends as the saved copy (is %s)' % vrepr(final), fn),
                struct(oid + '.value', ok_val, 'returns the masked sum', fn)]
    return go()


def c13_from_count_dict(npop):
    """Spectrum._from_count_dict: the spectrum is  sum over count_dict entries of  count * outer product over populations of
    _cached_projection(projection_p, called_p, derived_p);  with polarized=True entries not marked polarized contribute nothing,
    with polarized=False every entry contributes and the total is folded.  (_cached_projection and fold by contract: C08, C09.)"""
    oid = 'C13/Spectrum_mod.py:Spectrum._from_count_dict/%dD' % npop
    fn = 'dadi/Spectrum_mod.py::Spectrum._from_count_dict'

    @guarded(oid, fn)
    def go():
        out = []
        proj = [2, 3][:npop]
        entries = [((5, 4)[:npop], (2, 1)[:npop], True), ((3, 6)[:npop], (3, 2)[:npop], False), ((4, 4)[:npop], (0, 4)[:npop], True)]
        for polarized in (True, False):
            cnt = reals('c', len(entries))
            folded = []

            handed_out = []

            def pol(fref):
                if fref.qualname == '_cached_projection':
                    def h(ex, fr, args, kwargs):
                        a = [exact(x) for x in args]
                        orig = [z3.Real('P(%s)[%d]' % (','.join(map(str, a)), j)) for j in range(a[0] + 1)]
                        v = VList(list(orig), 'ndarray')
                        handed_out.append((v, orig))          # the object handed out IS the cache entry: it must come back untouched
                        return v
                    return h
                return 'inline' if fref.qualname.endswith('_from_count_dict') else 'abstract'

            def ah(ex_, fref, a, kw, ctx):
                # dadi.Spectrum(data, pop_ids=..., mask_corners=...): the data array itself (constructor trusted to wrap it unchanged)
                if (isinstance(fref, ClassRef) and fref.node.name == 'Spectrum') or (isinstance(fref, Tm) and 'Spectrum' in fref.op):
                    return a[0]
                return NotImplemented

            def gh(ex_, obj, name, ctx):
                if isinstance(obj, VList) and name == 'fold':
                    def fold():
                        folded.append(obj)
                        return Tm('folded')
                    return PyFn(fold, 'fold')
                return NotImplemented
            ex = Executor(policy=pol, getattr_hook=gh)
            ex.abstract_hook = ah
            f = ex.func('dadi/Spectrum_mod.py', 'Spectrum._from_count_dict')
            cd = VDict(dict((k, c) for k, c in zip(entries, cnt)))
            paths = ex.run(f, [cd, VList(list(proj)), polarized], dict(pop_ids=None, mask_corners=False))
            tag = '%s.%s' % (oid, 'polarized' if polarized else 'unpolarized')
            if len(paths) != 1 or paths[0].outcome != 'return':
                out.append(struct(tag, False, 'expected one returning path: %r' % paths[:2], fn, undecided=True))
                continue
            v = paths[0].value
            untouched = all(len(vv.items) == len(o) and all(x is y for x, y in zip(vv.items, o)) for vv, o in handed_out)
            out.append(struct(tag + '.cache-frame', untouched and bool(handed_out), 'the arrays returned by _cached_projection (the memo entries themselves) are not modified'
                              if untouched else 'a projection vector obtained from the cache was modified in place: later look-ups of the same key return the altered weights', fn))
            if polarized:
                arr = v
            else:
                ok = isinstance(v, Tm) and v.op == 'folded' and len(folded) == 1
                out.append(struct(tag + '.folded', bool(ok), 'the unpolarized total is returned through .fold()', fn))
                if not ok:
                    continue
                arr = folded[0]

            def entry(a, idx):
                for i in idx:
                    a = ex.iterate(a)[i]
                return a
            shape = [p + 1 for p in proj]
            for idx in itertools.product(*[range(s) for s in shape]):
                want = z3.RealVal(0)
                for (called, derived, ispol), c in zip(entries, cnt):
                    if polarized and not ispol:
                        continue
                    t = c
                    for pp in range(npop):
                        t = t * z3.Real('P(%d,%d,%d)[%d]' % (proj[pp], called[pp], derived[pp], idx[pp]))
                    want = want + t
                try:
                    got = entry(arr, idx)
                except Exception as e:
                    # the result is not an array the executor can index (an unmodelled library call in between): nothing is decided
                    out.append(struct('%s.entry%s' % (tag, '_'.join(map(str, idx))), False, 'result has no entry %r: %s' % (idx, e), fn, undecided=True))
                    continue
                out.append(prove_eq('%s.entry%s' % (tag, '_'.join(map(str, idx))), list(paths[0].pc), got, want, fn))
        return out
    return go()


def c13_count_data_dict():
    """Misc.count_data_dict, per SNP: skipped unless exactly two segregating alleles; polarized iff an outgroup allele is present,
    is not '-' and is one of the two alleles; the derived allele is the one that differs from the outgroup (allele 2 when unpolarized);
    successful calls = allele1 + allele2 calls per population; SNPs with the same (calls, derived, polarized) accumulate in one count."""
    oid = 'C13/Misc.py:count_data_dict'
    fn = 'dadi/Misc.py::count_data_dict'

    @guarded(oid, fn)
    def go():
        from vf.pyvc import named_bool
        ex = Executor()
        f = ex.func('dadi/Misc.py', 'count_data_dict')
        a1, a2, og = Tm('a1'), Tm('a2'), Tm('og')
        c1, c2 = {'A': (3, 5), 'B': (2, 7)}, {'A': (1, 0), 'B': (4, 4)}
        snp1 = VDict({'segregating': (a1, a2), 'calls': VDict(c1), 'outgroup_allele': og})
        snp2 = VDict({'segregating': ('A', 'C', 'G'), 'calls': VDict(c2), 'outgroup_allele': 'A'})       # triallelic: skipped
        snp3 = VDict({'segregating': ('A', 'C'), 'calls': VDict(c1)})                                     # no outgroup: unpolarized, derived = allele 2
        snp4 = VDict({'segregating': ('G', 'T'), 'calls': VDict(c2), 'outgroup_allele': 'T'})             # polarized by allele 2: derived = allele 1
        dd = VDict({'s1': snp1, 's2': snp2, 's3': snp3, 's4': snp4})
        E1, E2, D = named_bool('cmp:Eq(a1, og)'), named_bool('cmp:Eq(a2, og)'), named_bool("cmp:Eq('-', og)")
        pre = [z3.Not(z3.And(E1, E2))]
        paths = ex.run(f, [dd, VList(['A', 'B'])], {}, base_pc=pre)
        out = []
        bad = [p for p in paths if p.outcome != 'return']
        out.append(struct(oid + '.total', not bad and bool(paths), 'every SNP configuration is classified (no raising path)' if not bad else 'raising path: %r' % bad[:1], fn))
        succ = (8, 9)
        d2, d1 = (5, 7), (3, 2)
        for i, p in enumerate(p_ for p_ in paths if p_.outcome == 'return'):
            got = dict(p.value.d) if isinstance(p.value, VDict) else None
            if got is None:
                out.append(struct('%s.path%d' % (oid, i), False, 'result is not a dict: %s' % vrepr(p.value), fn))
                continue

            def settle(v):
                # a key component that is still a formula (e.g. the polarisation flag computed by a helper) has one value on this path
                if isinstance(v, tuple):
                    return tuple(settle(c) for c in v)
                if isinstance(v, z3.ExprRef) and z3.is_bool(v):
                    sv = z3.Solver()
                    sv.set('timeout', 3000)
                    sv.add(*(pre + list(p.pc)))
                    sv.push()
                    sv.add(z3.Not(v))
                    if sv.check() == z3.unsat:
                        return True
                    sv.pop()
                    sv.add(v)
                    if sv.check() == z3.unsat:
                        return False
                return v
            g2 = {}
            for k_, c_ in got.items():
                k2 = settle(k_)
                g2[k2] = g2.get(k2, 0) + c_
            got = g2
            fixed = {((1, 8), (1, 4), True): 1}      # s4: calls (1,0),(4,4), outgroup = allele 2 so derived = allele-1 calls (s2 skipped)
            cases = []
            for pol_, der in ((True, d2), (True, d1), (False, d2)):
                want = dict(fixed)
                want[(succ, der, pol_)] = want.get((succ, der, pol_), 0) + 1
                want[(succ, d2, False)] = want.get((succ, d2, False), 0) + 1      # s3
                cond = z3.And(z3.Not(D), E1) if (pol_, der) == (True, d2) else z3.And(z3.Not(D), E2) if pol_ else z3.Or(D, z3.Not(z3.Or(E1, E2)))
                cases.append((cond, want))
            match = [c for c, w in cases if w == got]
            if not match:
                out.append(struct('%s.path%d' % (oid, i), False, 'counts %s are not those of any classification of SNP 1' % vrepr(p.value), fn))
                continue
            out.append(prove('%s.path%d' % (oid, i), pre + list(p.pc), z3.Or(match), fn))
        return out
    return go()


def c13_fragment_data_dict():
    """Misc.fragment_data_dict(dd, chunk_size) for every chunk_size in the stated range: the chunks partition dd (each key exactly once,
    value object unchanged), chromosome names keep their '_' and '.', and chunk j of a chromosome holds exactly the positions p with
    j*chunk_size < p <= (j+1)*chunk_size."""
    oid = 'C13/Misc.py:fragment_data_dict'
    fn = 'dadi/Misc.py::fragment_data_dict'

    @guarded(oid, fn)
    def go():
        ex = Executor()
        f = ex.func('dadi/Misc.py', 'fragment_data_dict')
        keys = ['chr_1_10', 'chr_1_10.b', 'chr_1_35', 'sc.2_7', 'chr_1_20', 'sc.2_31']
        info = {'chr_1_10': ('chr_1', 10), 'chr_1_10.b': ('chr_1', 10), 'chr_1_35': ('chr_1', 35), 'sc.2_7': ('sc.2', 7), 'chr_1_20': ('chr_1', 20), 'sc.2_31': ('sc.2', 31)}
        vals = {k: Tm('snp:' + k) for k in keys}
        dd = VDict(dict(vals))
        cs = z3.Int('chunk_size')
        pre = [cs >= 6, cs <= 40]
        paths = ex.run(f, [dd, cs], {}, base_pc=pre)
        out = []
        bad = [p for p in paths if p.outcome != 'return']
        out.append(struct(oid + '.total', not bad and len(paths) > 1, '%d paths over 6 <= chunk_size <= 40, none raises' % len(paths) if not bad else 'raising path: %r' % bad[:1], fn))
        cover = z3.Or([z3.And(list(p.pc)) for p in paths if p.outcome == 'return'] or [z3.BoolVal(False)])
        out.append(prove(oid + '.paths-cover-domain', pre, cover, fn))
        for i, p in enumerate(p_ for p_ in paths if p_.outcome == 'return'):
            tag = '%s.path%d' % (oid, i)
            chunks = [dict(c.d) for c in ex.iterate(p.value)] if isinstance(p.value, VList) and all(isinstance(c, VDict) for c in p.value.items) else None
            if chunks is None:
                out.append(struct(tag, False, 'result is not a list of dicts', fn))
                continue
            seen = [k for c in chunks for k in c]
            part_ok = sorted(seen) == sorted(keys) and all(c[k] is vals[k] for c in chunks for k in c)
            out.append(struct(tag + '.partition', part_ok, 'each key of dd in exactly one chunk with its own value' if part_ok else 'keys in chunks: %s' % seen, fn))
            if not part_ok:
                continue
            # chunk index within its chromosome
            chr_of = []
            for c in chunks:
                cn = {info[k][0] for k in c}
                chr_of.append(cn.pop() if len(cn) == 1 else (None if not cn else 'MIXED'))
            if 'MIXED' in chr_of:
                out.append(struct(tag + '.one-chromosome-per-chunk', False, 'a chunk mixes chromosomes', fn))
                continue
            for t in range(len(chunks) - 1, -1, -1):
                if chr_of[t] is None:
                    chr_of[t] = chr_of[t + 1] if t + 1 < len(chunks) else None
            start = {}
            for t, c in enumerate(chr_of):
                start.setdefault(c, t)
            goals = []
            for t, c in enumerate(chunks):
                j = t - start[chr_of[t]]
                for k in c:
                    pos = info[k][1]
                    goals.append(z3.And(j * cs < pos, pos <= (j + 1) * cs))
            out.append(prove(tag + '.windows', pre + list(p.pc), z3.And(goals), fn))
        return out
    return go()


def c13_subsample_call_sites():
    """Subsampling of individuals in make_data_dict_vcf / make_data_dict_vcf_cyvcf2: every numpy.random.choice call in those two functions (at least
    one in each) is evaluated, as written, with n = 4 called genotypes for population `pop` and a requested number subsample[pop] = k symbolic:
    it draws k of the indices 0..n-1 WITHOUT replacement (so k distinct individuals contribute 2k chromosomes).
    Mechanical extraction: the call expression only; the free names pop, genotypes, gt_dict, subsample, subsample_dict are bound to that
    scenario (another free name makes the obligation undecided, not refuted).  The surrounding text parsing is covered by bounded drivers only."""
    oid = 'C13/Misc.py:subsample-draw'
    out = []
    mod = ModInfo.load('dadi/Misc.py')
    for fname in ('make_data_dict_vcf', 'make_data_dict_vcf_cyvcf2'):
        fn = 'dadi/Misc.py::' + fname
        o = '%s.%s' % (oid, fname)
        node = mod.funcs.get(fname)
        if node is None:
            out.append(struct(o, False, 'function not found', fn, undecided=True))
            continue
        sites = [c for c in ast.walk(node) if isinstance(c, ast.Call) and isinstance(c.func, ast.Attribute) and c.func.attr in ('choice', 'choices', 'permutation', 'sample', 'randint', 'integers')]
        out.append(struct(o + '.sites', len(sites) >= 1, '%d random draw(s) in the function' % len(sites), fn, finding_key='C13/subsample-draw/' + fname))
        for si, call in enumerate(sites):
            os_ = '%s.site%d' % (o, si)
            try:
                from vf.pyvc import Env
                n = 4
                k = z3.Int('k')
                seen = []

                def ah(ex_, fref, a, kw, ctx):
                    seen.append((vrepr(fref), list(a), dict(kw)))
                    return VList([z3.Int('drawn%d' % i) for i in range(2)], 'ndarray')
                ex = Executor(policy=lambda fr: 'abstract')
                ex.abstract_hook = ah
                gts = VList([Tm('gt%d' % i) for i in range(n)])
                env = Env(None, mod)
                env.vars.update(pop='P', genotypes=gts, gt_dict=VDict({'P': gts}), subsample=VDict({'P': k}), subsample_dict=VDict({'P': gts}))

                def thunk(e):
                    return e.eval(call, env, mod)
                paths = ex.explore(thunk, base_pc=[k >= 1, k <= n])
                if len(paths) != 1 or paths[0].outcome != 'return' or len(seen) < 1:
                    out.append(struct(os_, False, 'call not evaluated on one path: %r' % paths[:1], fn, undecided=True))
                    continue
                nm, a, kw = seen[-1]
                bad = []
                if not nm.rstrip(')').endswith('random.choice'):
                    out.append(struct(os_, False, 'a draw other than numpy.random.choice (%s): not covered by this contract' % nm[:60], fn, undecided=True))
                    continue
                popn = a[0] if a else kw.get('a')
                items = [exact(x) for x in ex.iterate(popn)] if isinstance(popn, (VList, list, tuple)) else None
                if not (items == list(range(n)) or (isinstance(exact(popn), int) and exact(popn) == n)):
                    bad.append('population is %s, expected the indices 0..%d' % (vrepr(popn)[:60], n - 1))
                size = a[1] if len(a) > 1 else kw.get('size')
                if not (isinstance(size, z3.ExprRef) and size.eq(k)):
                    bad.append('size is %s, expected subsample[pop]' % vrepr(size)[:40])
                rep = a[2] if len(a) > 2 else kw.get('replace', True)          # numpy's default is replace=True
                if rep is not False:
                    bad.append('replace is %s: individuals can be drawn twice' % vrepr(rep)[:20])
                out.append(struct(os_, not bad, '; '.join(bad) or 'numpy.random.choice(indices 0..n-1, subsample[pop], replace=False)', fn,
                                  finding_key='C13/subsample-draw/' + fname))
            except (Unsupported, PyRaise, KeyError) as e:
                out.append(struct(os_, False, 'outside the modelled subset: %r' % (e,), fn, undecided=True))
    return out


def c13_allele_filters():
    """Which VCF records count as SNPs in make_data_dict_vcf / make_data_dict_vcf_cyvcf2, and which ancestral alleles are used.  The `if` tests of the
    two readers whose free names are exactly {ref, alt} (at least one per reader) and exactly {outgroup_allele} are evaluated, as written, for every
    combination of a fixed list of allele strings (single bases, multi-base strings that are / are not substrings of 'ACGT', '', '.', '*', 'N',
    'A,C', '-'):   a record is skipped  iff  ref or alt is not one of the four single bases;   the ancestral allele is replaced by '-' iff it is not
    one of the four single bases.  (Expression-level extraction: what the surrounding parser does with the decision is left to the bounded drivers.
    The strings are upper case, as both readers upper-case before testing.)"""
    oid = 'C13/Misc.py:allele-filter'
    out = []
    mod = ModInfo.load('dadi/Misc.py')
    from vf.pyvc import Env
    STR = ['A', 'C', 'G', 'T', 'N', 'AC', 'CG', 'GT', 'ACG', 'CGT', 'ACGT', 'AT', 'TA', 'AA', '', '.', '*', 'A,C', '-']
    BASES = ('A', 'C', 'G', 'T')

    def names(e):
        return {n.id for n in ast.walk(e) if isinstance(n, ast.Name)}
    for fname in ('make_data_dict_vcf', 'make_data_dict_vcf_cyvcf2'):
        fn = 'dadi/Misc.py::' + fname
        node = mod.funcs.get(fname)
        if node is None:
            out.append(struct('%s.%s' % (oid, fname), False, 'function not found', fn, undecided=True))
            continue
        ifs = [n for n in ast.walk(node) if isinstance(n, ast.If)]
        GTS = ['0/0', '0|1', '1/1', '1|0', './.', '.|.', '.', '0/.', './1', '.|0', '1|.']
        DPS = ['0', '.', '7', '12', None]
        kinds = [('snp', {'ref', 'alt'}), ('ancestral', {'outgroup_allele'})] + ([('called-genotype', {'gt', 'dp'})] if fname == 'make_data_dict_vcf' else [])
        for kind, want_names in kinds:
            tests = [n.test for n in ifs if names(n.test) == want_names]
            o = '%s.%s.%s' % (oid, fname, kind)
            if not tests:
                out.append(struct(o, False, 'no test over exactly %s found in %s' % (sorted(want_names), fname), fn, undecided=True))
                continue
            for ti, test in enumerate(tests):
                bad = []
                nev = 0
                try:
                    combos = [(r_, a_) for r_ in STR for a_ in STR] if kind == 'snp' else ([(g_, d_) for g_ in GTS for d_ in DPS] if kind == 'called-genotype' else [(x, None) for x in STR])
                    for r_, a_ in combos:
                        ex = Executor(policy=lambda fr: 'abstract')
                        env = Env(None, mod)
                        if kind == 'snp':
                            env.vars.update(ref=r_, alt=a_)
                            want = not (r_ in BASES and a_ in BASES)
                        elif kind == 'called-genotype':
                            # a genotype is a subsampling candidate iff both alleles are called ('.' anywhere = missing) and the depth is not 0 / '.'
                            env.vars.update(gt=r_, dp=a_)
                            want = ('.' not in r_) and a_ not in ('0', '.')
                        else:
                            env.vars.update(outgroup_allele=r_)
                            want = r_ not in BASES
                        paths = ex.explore(lambda e, _t=test, _env=env: e.truth(e.eval(_t, _env, mod)))
                        nev += 1
                        if len(paths) != 1 or paths[0].outcome != 'return' or not isinstance(paths[0].value, bool):
                            raise Unsupported('test not decided for %r' % ((r_, a_),))
                        if paths[0].value != want:
                            bad.append((r_, a_) if kind == 'snp' else r_)
                    what = ('skipped iff ref or alt is not a single base A/C/G/T' if kind == 'snp' else
                            'genotype kept for subsampling iff fully called and covered' if kind == 'called-genotype' else 'ancestral allele dropped iff not a single base A/C/G/T')
                    out.append(struct('%s.test%d' % (o, ti), not bad, '%s (%d combinations)' % (what, nev) if not bad else 'wrong decision for %s' % bad[:6], fn,
                                      finding_key='C13/allele-filter/%s' % fname))
                except (Unsupported, PyRaise, KeyError) as e_:
                    out.append(struct('%s.test%d' % (o, ti), False, 'outside the modelled subset: %r' % (e_,), fn, undecided=True))
    return out


def c13_bootstraps_from_chunks():
    """Misc.bootstraps_from_dd_chunks: one spectrum per fragment (from_data_dict with the caller's pop_ids, projections, mask_corners,
    polarized), and every bootstrap is the sum of len(fragments) spectra drawn with replacement from exactly that list, re-wrapped with
    data_folded = not polarized."""
    oid = 'C13/Misc.py:bootstraps_from_dd_chunks'
    fn = 'dadi/Misc.py::bootstraps_from_dd_chunks'

    @guarded(oid, fn)
    def go():
        out = []
        for polarized in (True, False):
            frags = [Tm('frag%d' % i) for i in range(3)]
            fdd_calls, choice_calls = [], []
            draws = [[0, 0, 2], [1, 2, 2]]

            def ah(ex_, fref, a, kw, ctx):
                nm = fref.qualname if isinstance(fref, FuncRef) else vrepr(fref)
                if nm.endswith('from_data_dict'):
                    fdd_calls.append((a, kw))
                    return Tm('S(%s)' % vrepr(a[0]))
                if 'random' in nm and nm.rstrip(')').endswith('choices') or 'choices' in nm:
                    pop = a[0]
                    choice_calls.append((pop, kw))
                    d = draws[(len(choice_calls) - 1) % len(draws)]
                    return VList([ex_.iterate(pop)[i] for i in d])
                return NotImplemented
            ex = Executor()
            ex.abstract_hook = ah
            f = ex.func('dadi/Misc.py', 'bootstraps_from_dd_chunks')
            pop_ids, projs = Tm('pop_ids'), Tm('projections')
            mc = Tm('mask_corners')
            paths = ex.run(f, [VList(list(frags)), 2, pop_ids, projs], dict(mask_corners=mc, polarized=polarized))
            tag = '%s.%s' % (oid, 'polarized' if polarized else 'unpolarized')
            if len(paths) != 1 or paths[0].outcome != 'return':
                out.append(struct(tag, False, 'expected one returning path: %r' % paths[:2], fn, undecided=True))
                continue
            ok_fdd = len(fdd_calls) == 3 and all(c[0][0] is frags[i] and c[0][1] is pop_ids and c[0][2] is projs and (c[0][3] is mc if len(c[0]) > 3 else c[1].get('mask_corners') is mc)
                                                  and ((c[0][4] if len(c[0]) > 4 else c[1].get('polarized')) is polarized) for i, c in enumerate(fdd_calls))
            out.append(struct(tag + '.fragment-spectra', bool(ok_fdd), 'from_data_dict(fragment_i, pop_ids, projections, mask_corners, polarized) for each fragment in order', fn))
            ok_choice = len(choice_calls) == 2 and all([vrepr(x) for x in ex.iterate(c[0])] == ['S(frag0)', 'S(frag1)', 'S(frag2)'] and c[1].get('k') == 3 for c in choice_calls)
            out.append(struct(tag + '.draws', bool(ok_choice), 'Nboot draws of k = len(fragments) from the list of fragment spectra: %s' % [(vrepr(c[0]), {k: vrepr(v) for k, v in c[1].items()}) for c in choice_calls][:1], fn))
            res = [vrepr(x) for x in ex.iterate(paths[0].value)]
            want = []
            for d in draws:
                ssum = 'op:Add(op:Add(S(frag%d), S(frag%d)), S(frag%d))' % tuple(d)
                want.append(ssum)
            ok_sum = len(res) == 2 and all(w in r and 'Spectrum' in r for w, r in zip(want, res))
            out.append(struct(tag + '.sums', bool(ok_sum), 'bootstrap b = Spectrum(sum of the drawn spectra): %s' % res[:1], fn))
            fold_s = "('kw', 'data_folded', %s)" % (not polarized)
            ok_fold = len(res) == 2 and all(fold_s in r for r in res)
            out.append(struct(tag + '.folded-flag', bool(ok_fold), 'data_folded = not polarized: %s' % res[:1], fn))
        return out
    return go()


# ---------------------------------------------------------------- C05: direct (trapezoid) sampling paths
def _trapz_weights(xs):
    G = len(xs)
    w = []
    for j in range(G):
        t = z3.RealVal(0)
        if j > 0:
            t = t + (xs[j] - xs[j - 1]) / 2
        if j < G - 1:
            t = t + (xs[j + 1] - xs[j]) / 2
        w.append(t)
    return w


def _pw(x, e):
    r = z3.RealVal(1)
    for _ in range(e):
        r = r * x
    return r


def c05_trapz():
    """Numerics.trapz: composite trapezoid rule sum_j (x_{j+1}-x_j) (y_j + y_{j+1})/2 along the last axis, given either the abscissae or
    their differences; exactly one of the two must be given."""
    oid = 'C05/Numerics.py:trapz'
    fn = 'dadi/Numerics.py::trapz'

    @guarded(oid, fn)
    def go():
        out = []
        G = 4
        xs, ys, ds = reals('x', G), reals('y', G), reals('d', G - 1)
        for tag, args, kw, dxs in (('abscissae', [VList(list(ys), 'ndarray'), VList(list(xs), 'ndarray')], {}, [xs[j + 1] - xs[j] for j in range(G - 1)]),
                                   ('differences', [VList(list(ys), 'ndarray')], dict(dx=VList(list(ds), 'ndarray')), ds)):
            ex = Executor()
            f = ex.func('dadi/Numerics.py', 'trapz')
            paths = ex.run(f, args, kw)
            if len(paths) != 1 or paths[0].outcome != 'return':
                out.append(struct('%s.%s' % (oid, tag), False, 'expected one returning path: %r' % paths[:2], fn, undecided=True))
                continue
            want = sum((dxs[j] * (ys[j] + ys[j + 1]) / 2 for j in range(G - 1)), z3.RealVal(0))
            out.append(prove_eq('%s.%s' % (oid, tag), list(paths[0].pc), paths[0].value, want, fn))
        # 2-D integrand, last axis
        y2 = [reals('y%d_' % i, G) for i in range(2)]
        ex = Executor()
        f = ex.func('dadi/Numerics.py', 'trapz')
        paths = ex.run(f, [VList([VList(list(r), 'ndarray') for r in y2], 'ndarray')], dict(dx=VList(list(ds), 'ndarray')))
        if len(paths) != 1 or paths[0].outcome != 'return' or not isinstance(paths[0].value, VList) or len(paths[0].value.items) != 2:
            out.append(struct(oid + '.rows', False, 'expected one returning path with one value per row: %r' % paths[:2], fn, undecided=True))
        else:
            for i in range(2):
                want = sum((ds[j] * (y2[i][j] + y2[i][j + 1]) / 2 for j in range(G - 1)), z3.RealVal(0))
                out.append(prove_eq('%s.rows.row%d' % (oid, i), list(paths[0].pc), paths[0].value.items[i], want, fn))
        for tag, args, kw in (('neither', [VList(list(ys), 'ndarray')], {}), ('both', [VList(list(ys), 'ndarray'), VList(list(xs), 'ndarray')], dict(dx=VList(list(ds), 'ndarray')))):
            ex = Executor()
            f = ex.func('dadi/Numerics.py', 'trapz')
            paths = ex.run(f, args, kw)
            ok = len(paths) == 1 and paths[0].outcome == 'raise'
            out.append(struct('%s.refuses-%s' % (oid, tag), ok, 'raises when %s of xx, dx are given' % tag, fn))
        return out
    return go()


def c05_direct_1d(n, G, het=None):
    """Spectrum._from_phi_1D_direct: entry i is the trapezoid rule applied to C(n,i) x^i (1-x)^(n-i) phi(x) (times x(1-x) when
    heterozygote-ascertained); hence linear in phi, and -- without ascertainment -- the entries sum to the trapezoid mass of phi."""
    oid = 'C05/Spectrum_mod.py:Spectrum._from_phi_1D_direct/n%d_G%d%s' % (n, G, '_het' if het else '')
    fn = 'dadi/Spectrum_mod.py::Spectrum._from_phi_1D_direct'

    @guarded(oid, fn)
    def go():
        import math
        xs, ph = reals('x', G), reals('phi', G)

        def ah(ex_, fref, a, kw, ctx):
            if (isinstance(fref, ClassRef) and fref.node.name == 'Spectrum') or (isinstance(fref, Tm) and 'Spectrum' in fref.op):
                return a[0]
            return NotImplemented
        ex = Executor(policy=lambda fr: 'inline' if fr.qualname in ('Spectrum._from_phi_1D_direct', 'trapz') else 'abstract')
        ex.abstract_hook = ah
        f = ex.func('dadi/Spectrum_mod.py', 'Spectrum._from_phi_1D_direct')
        paths = ex.run(f, [n, VList(list(xs), 'ndarray'), VList(list(ph), 'ndarray')], dict(mask_corners=False, het_ascertained=het))
        if len(paths) != 1 or paths[0].outcome != 'return':
            return [struct(oid, False, 'expected one returning path: %r' % paths[:2], fn, undecided=True)]
        data = ex.iterate(paths[0].value)
        out = [struct(oid + '.length', len(data) == n + 1, 'n+1 entries', fn)]
        w = _trapz_weights(xs)
        for i in range(min(n + 1, len(data))):
            want = z3.RealVal(0)
            for j in range(G):
                b = math.comb(n, i) * _pw(xs[j], i) * _pw(1 - xs[j], n - i)
                if het:
                    b = b * xs[j] * (1 - xs[j])
                want = want + w[j] * b * ph[j]
            out.append(prove_eq('%s.entry%d' % (oid, i), list(paths[0].pc), data[i], want, fn))
        if not het and len(data) == n + 1:
            tot = sum((to_real(exact(d)) for d in data), z3.RealVal(0))
            mass = sum((w[j] * ph[j] for j in range(G)), z3.RealVal(0))
            out.append(prove_eq(oid + '.total-is-trapezoid-mass', list(paths[0].pc), tot, mass, fn))
        return out
    return go()


def c05_direct_2d(nx, ny, G):
    """Spectrum._from_phi_2D_direct: entry (i,j) is the tensor trapezoid rule applied to Bx_i(x) By_j(y) phi(x,y); the entries sum to the
    2-D trapezoid mass of phi."""
    oid = 'C05/Spectrum_mod.py:Spectrum._from_phi_2D_direct/nx%d_ny%d_G%d' % (nx, ny, G)
    fn = 'dadi/Spectrum_mod.py::Spectrum._from_phi_2D_direct'

    @guarded(oid, fn)
    def go():
        import math
        xs, ys = reals('x', G), reals('y', G + 1)
        ph = [reals('phi%d_' % a, G + 1) for a in range(G)]

        def ah(ex_, fref, a, kw, ctx):
            if (isinstance(fref, ClassRef) and fref.node.name == 'Spectrum') or (isinstance(fref, Tm) and 'Spectrum' in fref.op):
                return a[0]
            return NotImplemented
        ex = Executor(policy=lambda fr: 'inline' if fr.qualname in ('Spectrum._from_phi_2D_direct', 'trapz') else 'abstract')
        ex.abstract_hook = ah
        f = ex.func('dadi/Spectrum_mod.py', 'Spectrum._from_phi_2D_direct')
        phi = VList([VList(list(r), 'ndarray') for r in ph], 'ndarray')
        paths = ex.run(f, [nx, ny, VList(list(xs), 'ndarray'), VList(list(ys), 'ndarray'), phi], dict(mask_corners=False))
        if len(paths) != 1 or paths[0].outcome != 'return':
            return [struct(oid, False, 'expected one returning path: %r' % paths[:2], fn, undecided=True)]
        data = [ex.iterate(r) for r in ex.iterate(paths[0].value)]
        out = [struct(oid + '.shape', len(data) == nx + 1 and all(len(r) == ny + 1 for r in data), '(nx+1) x (ny+1) entries', fn)]
        if not out[0]['verdict'] == 'proved':
            return out
        wx, wy = _trapz_weights(xs), _trapz_weights(ys)
        tot = z3.RealVal(0)
        for i in range(nx + 1):
            for j in range(ny + 1):
                want = z3.RealVal(0)
                for a in range(G):
                    for b in range(G + 1):
                        want = want + wx[a] * wy[b] * math.comb(nx, i) * _pw(xs[a], i) * _pw(1 - xs[a], nx - i) * math.comb(ny, j) * _pw(ys[b], j) * _pw(1 - ys[b], ny - j) * ph[a][b]
                out.append(prove_eq('%s.entry%d_%d' % (oid, i, j), list(paths[0].pc), data[i][j], want, fn))
                tot = tot + to_real(exact(data[i][j]))
        mass = sum((wx[a] * wy[b] * ph[a][b] for a in range(G) for b in range(G + 1)), z3.RealVal(0))
        out.append(prove_eq(oid + '.total-is-trapezoid-mass', list(paths[0].pc), tot, mass, fn))
        return out
    return go()


def c05_from_phi_dispatch(P):
    """Spectrum.from_phi for P populations: which sampler runs and with which arguments --
       semi-analytic (1D_analytic / PD_linalg) unless het_ascertained, admix_props or force_direct is given; admix_props -> PD_admix_props;
       otherwise PD_direct with het_ascertained; arguments (ns..., xxs..., phi, mask_corners[, het | admix_props]) in population order;
       the result gets the caller's pop_ids and extrap_x = xxs[0][1]; het_ascertained together with admix_props is refused."""
    oid = 'C05/Spectrum_mod.py:Spectrum.from_phi/dispatch.%dD' % P
    fn = 'dadi/Spectrum_mod.py::Spectrum.from_phi'

    @guarded(oid, fn)
    def go():
        out = []
        for het in (None, 'xx'):
            for admix in (False, True):
                for force in (False, True):
                    if P == 1 and admix:
                        continue
                    tag = '%s.het_%s.admix_%s.force_%s' % (oid, het, admix, force)
                    phi = Tm('phi')
                    phi.attrs['ndim'] = P
                    ns = VList([Tm('n%d' % i) for i in range(P)])
                    grids = [VList([Tm('x%d_%d' % (i, j)) for j in range(3)], 'ndarray') for i in range(P)]
                    # same second grid point everywhere (the warning branch is not part of this contract)
                    for g in grids[1:]:
                        g.items[1] = grids[0].items[1]
                    xxs = VList(list(grids))
                    mc, pids = Tm('mask_corners'), Tm('pop_ids')
                    ap = VList([VList([1 if i == j else 0 for j in range(P)]) for i in range(P)]) if admix else None
                    calls = []

                    def ah(ex_, fref, a, kw, ctx):
                        if isinstance(fref, FuncRef) and fref.qualname.startswith('Spectrum._from_phi_'):
                            calls.append((fref.qualname, list(a), dict(kw)))
                            return Tm('fs')
                        nm = vrepr(fref)
                        if 'allclose' in nm:
                            return True
                        return NotImplemented
                    ex = Executor()
                    ex.abstract_hook = ah
                    f = ex.func('dadi/Spectrum_mod.py', 'Spectrum.from_phi')
                    paths = ex.run(f, [phi, ns, xxs], dict(mask_corners=mc, pop_ids=pids, admix_props=ap, het_ascertained=het, force_direct=force))
                    if het and admix:
                        ok = len(paths) == 1 and paths[0].outcome == 'raise' and not calls
                        out.append(struct(tag, ok, 'het_ascertained with admix_props is refused before any sampling', fn))
                        continue
                    if len(paths) != 1 or paths[0].outcome != 'return' or len(calls) != 1:
                        out.append(struct(tag, False, 'expected one returning path with one sampler call: %r calls=%s' % (paths[:2], [c[0] for c in calls]), fn, undecided=True))
                        continue
                    name, a, kw = calls[0]
                    if admix:
                        want_name, tail = '%dD_admix_props' % P, [mc, ap]
                    elif het or force:
                        want_name, tail = '%dD_direct' % P, [mc, het]
                    else:
                        want_name, tail = ('1D_analytic' if P == 1 else '%dD_linalg' % P), [mc]
                    want_args = list(ns.items) + list(grids) + [phi] + tail
                    ok_name = name == 'Spectrum._from_phi_' + want_name
                    ok_args = not kw and len(a) == len(want_args) and all(x is y or (x is None and y is None) or (isinstance(y, str) and x == y) for x, y in zip(a, want_args))
                    out.append(struct(tag + '.sampler', ok_name, 'sampler is _from_phi_%s (got %s)' % (want_name, name), fn))
                    out.append(struct(tag + '.arguments', bool(ok_args), '(ns..., xxs..., phi, mask_corners%s) in population order: %s' % (', extra' if len(tail) > 1 else '', [vrepr(x) for x in a]), fn))
                    v = paths[0].value
                    ok_meta = isinstance(v, Tm) and v.op == 'fs' and v.attrs.get('pop_ids') is pids and v.attrs.get('extrap_x') is grids[0].items[1]
                    out.append(struct(tag + '.labels-and-extrap_x', bool(ok_meta), 'result carries pop_ids and extrap_x = xxs[0][1]', fn))
        return out
    return go()


# ---------------------------------------------------------------- C09: fold / unfold on small shapes, every entry symbolic
def _nd_build(shape, fn_):
    def mk(prefix, dims):
        if not dims:
            return fn_(tuple(prefix))
        return VList([mk(prefix + [i], dims[1:]) for i in range(dims[0])], 'ndarray')
    return mk([], list(shape))


def _nd_get(a, idx):
    for i in idx:
        a = a.items[i]
    return a


def _run_spectrum_method(meth, data, mask, ns, folded):
    """Run Spectrum.<meth> on a spectrum given by nested VLists `data` (reals) and `mask` (Bools).  Returns (ex, paths, made) where
    `made` lists the Spectrum(...) constructions as (data, kwargs).  _total_per_entry is answered by its contract (sum of the indices)."""
    shape = tuple(n + 1 for n in ns)
    pop_ids, extrap = Tm('pop_ids'), Tm('extrap_x')
    made = []

    def gh(ex_, obj, name, ctx):
        if obj is data:
            if name == 'folded':
                return folded
            if name == 'sample_sizes':
                return VList(list(ns), 'ndarray')
            if name == 'mask':
                return mask
            if name == 'pop_ids':
                return pop_ids
            if name == 'extrap_x':
                return extrap
            if name == 'Npop':
                return len(ns)
            if name == '_total_per_entry':
                return PyFn(lambda: _nd_build(shape, lambda idx: sum(idx)), 'self._total_per_entry')
        return NotImplemented

    def ah(ex_, fref, a, kw, ctx):
        if (isinstance(fref, ClassRef) and fref.node.name == 'Spectrum') or (isinstance(fref, Tm) and 'Spectrum' in fref.op):
            t = Tm('made%d' % len(made))
            kw = dict(kw)
            # constructor semantics (trusted): the mask given is kept, and unless mask_corners=False is passed the all-zero and all-n corners are masked too
            if kw.get('mask_corners', True) is not False and isinstance(kw.get('mask'), VList):
                shp = ex_.list_method(kw['mask'], 'shape')
                given = kw['mask']
                kw['mask'] = _nd_build(shp, lambda idx: True if (all(i == 0 for i in idx) or all(i == s_ - 1 for i, s_ in zip(idx, shp))) else _nd_get(given, idx))
            made.append((a[0], kw, t))
            return t
        return NotImplemented
    ex = Executor(policy=lambda fr: 'inline' if fr.qualname in ('Spectrum.' + meth, 'reverse_array') else 'abstract', getattr_hook=gh)
    ex.abstract_hook = ah
    f = ex.func('dadi/Spectrum_mod.py', 'Spectrum.' + meth)
    paths = ex.run(f, [data], {})
    return ex, paths, made, (pop_ids, extrap)


def c09_fold(ns):
    """Spectrum.fold on a spectrum of sample sizes ns (every entry and every mask bit symbolic).  With t = sum(idx), T = sum(ns), idx' = ns - idx:
         t >  T//2 : entry 0 and masked;   t <  T/2 : f[idx] + f[idx'];   t == T/2 : (f[idx] + f[idx'])/2;
         mask = m[idx] or m[idx'] or (t > T//2);   hence total conserved and fold(mirror(x)) = fold(x);
       unfold gives (d[idx] + d[idx'])/2 and fold(unfold(fold(x))) = fold(x) with the same mask; an already folded spectrum is refused."""
    ns = tuple(ns)
    oid = 'C09/Spectrum_mod.py:Spectrum.fold/ns' + '_'.join(map(str, ns))
    fn = 'dadi/Spectrum_mod.py::Spectrum.fold'

    @guarded(oid, fn)
    def go():
        shape = tuple(n + 1 for n in ns)
        T = sum(ns)
        name = lambda p, idx: '%s%s' % (p, '_'.join(map(str, idx)))
        f = {idx: z3.Real(name('f', idx)) for idx in itertools.product(*[range(s) for s in shape])}
        m = {idx: z3.Bool(name('m', idx)) for idx in f}
        mirror = lambda idx: tuple(n - i for n, i in zip(ns, idx))

        def spec(fd, md):
            d, k = {}, {}
            for idx in fd:
                t = sum(idx)
                out_ = t > T // 2
                if out_:
                    d[idx] = z3.RealVal(0)
                elif 2 * t == T:
                    d[idx] = (fd[idx] + fd[mirror(idx)]) / 2
                else:
                    d[idx] = fd[idx] + fd[mirror(idx)]
                k[idx] = z3.Or(md[idx], md[mirror(idx)], z3.BoolVal(out_))
            return d, k

        def fold_once(fd, md, tag, out):
            data = _nd_build(shape, lambda idx: fd[idx])
            mask = _nd_build(shape, lambda idx: md[idx])
            ex, paths, made, (pids, ext) = _run_spectrum_method('fold', data, mask, ns, False)
            if len(paths) != 1 or paths[0].outcome != 'return' or len(made) != 1:
                out.append(struct(tag, False, 'expected one returning path constructing one Spectrum: %r' % paths[:2], fn, undecided=True))
                return None
            arr, kw, t = made[0]
            ok_meta = kw.get('data_folded') is True and kw.get('pop_ids') is pids and paths[0].value is t and t.attrs.get('extrap_x') is ext
            out.append(struct(tag + '.flags', bool(ok_meta), 'result is marked folded and keeps pop_ids and extrap_x', fn))
            return arr, kw.get('mask'), list(paths[0].pc)

        out = []
        r = fold_once(f, m, oid, out)
        if r is None:
            return out
        arr, mk, pc = r
        sd, sk = spec(f, m)
        for idx in f:
            out.append(prove_eq('%s.entry%s' % (oid, '_'.join(map(str, idx))), pc, _nd_get(arr, idx), sd[idx], fn))
            got = _nd_get(mk, idx)
            got = z3.BoolVal(got) if isinstance(got, bool) else got
            out.append(prove('%s.mask%s' % (oid, '_'.join(map(str, idx))), pc, got == sk[idx], fn))
        tot = sum((to_real(exact(_nd_get(arr, idx))) for idx in f), z3.RealVal(0))
        out.append(prove_eq(oid + '.total-conserved', pc, tot, sum(f.values(), z3.RealVal(0)), fn))
        # mirrored input
        fm = {idx: f[mirror(idx)] for idx in f}
        mm = {idx: m[mirror(idx)] for idx in f}
        r2 = fold_once(fm, mm, oid + '.mirrored', out)
        if r2 is not None:
            arr2, mk2, pc2 = r2
            same = z3.And([to_real(exact(_nd_get(arr2, idx))) == to_real(exact(_nd_get(arr, idx))) for idx in f])
            out.append(prove(oid + '.mirrored.same-data', pc + pc2, same, fn))
            b = lambda x: z3.BoolVal(x) if isinstance(x, bool) else x
            out.append(prove(oid + '.mirrored.same-mask', pc + pc2, z3.And([b(_nd_get(mk2, idx)) == b(_nd_get(mk, idx)) for idx in f]), fn))
        # refuses folded input
        data = _nd_build(shape, lambda idx: f[idx])
        ex, paths, made, _ = _run_spectrum_method('fold', data, _nd_build(shape, lambda idx: m[idx]), ns, True)
        out.append(struct(oid + '.refuses-folded', len(paths) == 1 and paths[0].outcome == 'raise' and not made, 'fold() of a folded spectrum raises', fn))
        # unfold of the folded result, then fold again
        b = lambda x: z3.BoolVal(x) if isinstance(x, bool) else x
        d1 = {idx: to_real(exact(_nd_get(arr, idx))) for idx in f}
        k1 = {idx: b(_nd_get(mk, idx)) for idx in f}
        data1 = _nd_build(shape, lambda idx: d1[idx])
        mask1 = _nd_build(shape, lambda idx: k1[idx])
        fnu = 'dadi/Spectrum_mod.py::Spectrum.unfold'
        ex, paths, made, (pids, ext) = _run_spectrum_method('unfold', data1, mask1, ns, True)
        if len(paths) != 1 or paths[0].outcome != 'return' or len(made) != 1:
            out.append(struct(oid + '.unfold', False, 'expected one returning path constructing one Spectrum: %r' % paths[:2], fnu, undecided=True))
            return out
        arr_u, kw_u, t_u = made[0]
        out.append(struct(oid + '.unfold.flags', kw_u.get('data_folded') is False and kw_u.get('pop_ids') is pids, 'unfold marks the result unfolded and keeps pop_ids', fnu))
        for idx in f:
            out.append(prove_eq('%s.unfold.entry%s' % (oid, '_'.join(map(str, idx))), pc + list(paths[0].pc), _nd_get(arr_u, idx), (d1[idx] + d1[mirror(idx)]) / 2, fnu))
        du = {idx: to_real(exact(_nd_get(arr_u, idx))) for idx in f}
        ku = {idx: b(_nd_get(kw_u.get('mask'), idx)) for idx in f}
        for idx in f:
            out.append(prove('%s.unfold.mask%s' % (oid, '_'.join(map(str, idx))), pc + list(paths[0].pc), ku[idx] == z3.Or(m[idx], m[mirror(idx)]), fnu))
        r3 = fold_once(du, ku, oid + '.refold', out)
        if r3 is not None:
            arr3, mk3, pc3 = r3
            out.append(prove(oid + '.refold.same-data', pc + pc3, z3.And([to_real(exact(_nd_get(arr3, idx))) == d1[idx] for idx in f]), fn))
            out.append(prove(oid + '.refold.same-mask', pc + pc3, z3.And([b(_nd_get(mk3, idx)) == k1[idx] for idx in f]), fn))
        return out
    return go()


def c11_optimal_scaling_lemma(n):
    """Lemma used with the wiring obligations of optimal_sfs_scaling / ll_multinom: for model entries m_i > 0, data d_i >= 0 with sum d > 0,
    theta* = sum d / sum m maximises the Poisson log-likelihood  L(theta) = sum_i -theta m_i + d_i log(theta m_i)  over theta > 0, and the
    scaled model has the data's total.  (log is uninterpreted; the instances log(ab) = log a + log b and log u <= u - 1 used are listed.)"""
    oid = 'C11/lemma.optimal-scaling-maximises-ll/n%d' % n
    fn = 'dadi/Inference.py::optimal_sfs_scaling'
    m, d = reals('m', n), reals('d', n)
    th = z3.Real('theta')
    log = uf('log')
    M, D = sum(m, z3.RealVal(0)), sum(d, z3.RealVal(0))
    tho = D / M
    u = th / tho
    hy = [x > 0 for x in m] + [x >= 0 for x in d] + [th > 0, D > 0]
    ax = [log(th * m[i]) == log(th) + log(m[i]) for i in range(n)] + [log(tho * m[i]) == log(tho) + log(m[i]) for i in range(n)]
    ax += [log(th) == log(tho) + log(u), log(u) <= u - 1]
    L = lambda t: sum((-t * m[i] + d[i] * log(t * m[i]) for i in range(n)), z3.RealVal(0))
    trusted = ['log(a b) = log a + log b and log u <= u - 1 (instances for theta, theta*, m_i)']
    Mz, Dz = z3.Real('M'), z3.Real('D')
    ts = Dz / Mz
    agg = prove(oid + '.aggregated', [Mz > 0, Dz > 0, th > 0, log(th) == log(ts) + log(th / ts), log(th / ts) <= th / ts - 1],
                -th * Mz + Dz * log(th) <= -ts * Mz + Dz * log(ts), fn, trusted=trusted, timeout_ms=60000)
    return [prove(oid + '.maximum', hy + ax, L(th) <= L(tho), fn, trusted=trusted, timeout_ms=60000), agg,
            prove_eq(oid + '.matches-total', hy, sum((tho * x for x in m), z3.RealVal(0)), D, fn)]


# ---------------------------------------------------------------- C10: combine_two_pops by explicit index arithmetic
def c10_combine_two_pops(ns, tocombine):
    """Spectrum.combine_two_pops([a,b]) (1-based, any order) with lo = min, hi = max: entry j of the result is the sum of all entries idx with
    idx[lo] + idx[hi] = j[lo] and the other indices equal -- for every result entry that ends up unmasked; a result entry is masked iff a
    contributing entry is (or it is a corner: the result is built with the constructor's default corner mask);
    labels 'lo+hi' in slot lo, slot hi removed; folded flag and extrap_x carried; total over the non-corner entries conserved on unmasked input."""
    ns = tuple(ns)
    oid = 'C10/Spectrum_mod.py:Spectrum.combine_two_pops/ns%s.combine%s' % ('_'.join(map(str, ns)), '_'.join(map(str, tocombine)))
    fn = 'dadi/Spectrum_mod.py::Spectrum.combine_two_pops'

    @guarded(oid, fn)
    def go():
        shape = tuple(n + 1 for n in ns)
        P = len(ns)
        nm = lambda p, idx: '%s%s' % (p, '_'.join(map(str, idx)))
        f = {idx: z3.Real(nm('f', idx)) for idx in itertools.product(*[range(s) for s in shape])}
        m = {idx: z3.Bool(nm('m', idx)) for idx in f}
        data = _nd_build(shape, lambda idx: f[idx])
        mask = _nd_build(shape, lambda idx: m[idx])
        labels = ['P%d' % i for i in range(P)]
        extrap, folded = Tm('extrap_x'), Tm('folded_flag')
        made = []

        def gh(ex_, obj, name, ctx):
            if obj is data:
                if name == 'sample_sizes':
                    return VList(list(ns), 'ndarray')
                if name == 'pop_ids':
                    return VList(list(labels))
                if name == 'mask':
                    return mask
                if name == 'extrap_x':
                    return extrap
                if name == 'folded':
                    return folded
            return NotImplemented

        def ah(ex_, fref, a, kw, ctx):
            if (isinstance(fref, ClassRef) and fref.node.name == 'Spectrum') or (isinstance(fref, Tm) and 'Spectrum' in fref.op):
                arr = a[0]
                shp = ex_.list_method(arr, 'shape')
                # Spectrum(data, pop_ids=...): unmasked except the two corners (mask_corners defaults to True) -- constructor semantics, trusted
                corner = lambda idx: all(i == 0 for i in idx) or all(i == s - 1 for i, s in zip(idx, shp))
                ex_.setattr(arr, 'mask', _nd_build(shp, lambda idx: corner(idx)))
                ex_.setattr(arr, 'pop_ids', kw.get('pop_ids'))
                made.append((arr, kw))
                return arr
            return NotImplemented
        ex = Executor(getattr_hook=gh, max_paths=6)
        ex.truncate_paths = True
        ex.abstract_hook = ah
        fr = ex.func('dadi/Spectrum_mod.py', 'Spectrum.combine_two_pops')
        paths = ex.run(fr, [data, VList(list(tocombine))], {})
        if len(paths) != 1:
            # the function does not depend on the VALUES of the entries: if it branches on them, check the law on the branches explored
            # (a refutation on one of them is a refutation; without one the obligation is undecided, never proved)
            rets = [p for p in paths if p.outcome == 'return']
            found = []
            for p_ in rets[:6]:
                r_ = p_.value
                at_ = r_.__dict__.get('attrs', {}) if isinstance(r_, VList) else {}
                rm = at_.get('mask')
                if rm is None:
                    continue
                lo_, hi_ = sorted(t - 1 for t in tocombine)
                for idx in f:
                    j_ = list(idx)
                    j_[lo_] = idx[lo_] + idx[hi_]
                    del j_[hi_]
                    got = _nd_get(rm, tuple(j_))
                    got = z3.BoolVal(got) if isinstance(got, bool) else got
                    chk = prove('%s.branch.mask-includes-%s' % (oid, '_'.join(map(str, idx))), list(p_.pc), z3.Implies(m[idx], got), fn)
                    if chk['verdict'] == 'refuted':
                        found.append(chk)
                        break
                if found:
                    break
            if found:
                return found
            return [struct(oid, False, 'the function branches on the entries\' values (%d paths explored, truncated=%s): %r' % (len(paths), getattr(ex, 'truncated', False), paths[:2]), fn, undecided=True)]
        if paths[0].outcome != 'return' or len(made) != 1:
            return [struct(oid, False, 'expected one returning path constructing one Spectrum: %r' % paths[:2], fn, undecided=True)]
        res = paths[0].value
        pc = list(paths[0].pc)
        lo, hi = sorted(t - 1 for t in tocombine)
        new_ns = list(ns)
        new_ns[lo] = ns[lo] + ns[hi]
        del new_ns[hi]
        new_shape = tuple(n + 1 for n in new_ns)
        out = []
        got_shape = ex.list_method(res, 'shape') if isinstance(res, VList) else None
        out.append(struct(oid + '.shape', got_shape == new_shape, 'sample sizes %s (got shape %s)' % (new_ns, got_shape), fn))
        if got_shape != new_shape:
            return out
        want_labels = list(labels)
        want_labels[lo] = '%s+%s' % (labels[lo], labels[hi])
        del want_labels[hi]
        gl = res.__dict__.get('attrs', {}).get('pop_ids')
        out.append(struct(oid + '.labels', isinstance(gl, VList) and list(gl.items) == want_labels, 'labels %s (got %s)' % (want_labels, vrepr(gl)), fn))
        at = res.__dict__.get('attrs', {})
        out.append(struct(oid + '.flags', at.get('extrap_x') is extrap and at.get('folded') is folded, 'extrap_x and folded carried over', fn))

        def target(idx):
            j = list(idx)
            j[lo] = idx[lo] + idx[hi]
            del j[hi]
            return tuple(j)
        b = lambda x: z3.BoolVal(x) if isinstance(x, bool) else x
        rmask = at.get('mask')
        tot = z3.RealVal(0)
        # numpy.ma arithmetic does not accumulate into (or from) a masked element, and the constructor masks the two corners of the result:
        # the value law is stated -- as the property does -- for result entries that end up unmasked, i.e. no contributing entry is masked
        # and the entry is not a corner.  (The executor adds plain numbers; under that hypothesis the two semantics coincide.)
        tot_want = z3.RealVal(0)
        for j in itertools.product(*[range(s) for s in new_shape]):
            src = [idx for idx in f if target(idx) == j]
            want = sum((f[idx] for idx in src), z3.RealVal(0))
            corner = all(i == 0 for i in j) or all(i == s - 1 for i, s in zip(j, new_shape))
            out.append(prove('%s.mask%s' % (oid, '_'.join(map(str, j))), pc, b(_nd_get(rmask, j)) == z3.Or([z3.BoolVal(corner)] + [m[idx] for idx in src]), fn))
            if corner:
                continue
            out.append(prove_eq('%s.entry%s' % (oid, '_'.join(map(str, j))), pc + [z3.Not(m[idx]) for idx in src], _nd_get(res, j), want, fn))
            tot = tot + to_real(exact(_nd_get(res, j)))
            tot_want = tot_want + want
        out.append(prove_eq(oid + '.total-conserved', pc + [z3.Not(v) for v in m.values()], tot, tot_want, fn))
        return out
    return go()


def c10_misc_combine_pops(ns, idx):
    """Misc.combine_pops(fs, idx): the two populations in idx are merged along the first axis, entry [a, k] = sum of fs entries whose counts in
    the two merged populations add to a and whose count in the remaining population is k (2-D input: a 1-D result)."""
    ns = tuple(ns)
    oid = 'C10/Misc.py:combine_pops/ns%s.idx%s' % ('_'.join(map(str, ns)), '_'.join(map(str, idx)))
    fn = 'dadi/Misc.py::combine_pops'

    @guarded(oid, fn)
    def go():
        shape = tuple(n + 1 for n in ns)
        f = {i: z3.Real('f' + '_'.join(map(str, i))) for i in itertools.product(*[range(s) for s in shape])}
        data = _nd_build(shape, lambda i: f[i])

        extrap = Tm('extrap_x')

        def gh(ex_, obj, name, ctx):
            if obj is data and name == 'sample_sizes':
                return VList(list(ns), 'ndarray')
            if obj is data and name == 'extrap_x':
                return extrap
            return NotImplemented

        def ah(ex_, fref, a, kw, ctx):
            if (isinstance(fref, ClassRef) and fref.node.name == 'Spectrum') or (isinstance(fref, Tm) and 'Spectrum' in fref.op):
                return a[0]
            return NotImplemented
        ex = Executor(getattr_hook=gh)
        ex.abstract_hook = ah
        fr = ex.func('dadi/Misc.py', 'combine_pops')
        paths = ex.run(fr, [data, VList(list(idx))], {})
        if len(paths) != 1 or paths[0].outcome != 'return':
            return [struct(oid, False, 'expected one returning path: %r' % paths[:2], fn, undecided=True)]
        res = paths[0].value
        a, b = idx
        rest = [p for p in range(len(ns)) if p not in (a, b)]
        new_shape = (ns[a] + ns[b] + 1,) + tuple(ns[p] + 1 for p in rest)
        got_shape = ex.list_method(res, 'shape') if isinstance(res, VList) else None
        out = [struct(oid + '.shape', got_shape == new_shape, 'shape %s (got %s)' % (new_shape, got_shape), fn)]
        if got_shape != new_shape:
            return out
        out.append(struct(oid + '.extrap_x', res.__dict__.get('attrs', {}).get('extrap_x') is extrap, 'extrap_x carried over', fn))
        tot = z3.RealVal(0)
        for j in itertools.product(*[range(s) for s in new_shape]):
            src = [i for i in f if i[a] + i[b] == j[0] and tuple(i[p] for p in rest) == tuple(j[1:])]
            out.append(prove_eq('%s.entry%s' % (oid, '_'.join(map(str, j))), list(paths[0].pc), _nd_get(res, j), sum((f[i] for i in src), z3.RealVal(0)), fn))
            tot = tot + to_real(exact(_nd_get(res, j)))
        out.append(prove_eq(oid + '.total-conserved', list(paths[0].pc), tot, sum(f.values(), z3.RealVal(0)), fn))
        return out
    return go()


# ---------------------------------------------------------------- C16: size functions and per-epoch integration parameters
def c16_make_nu_func():
    """Demes._make_nu_func(sizes, T, Ne): all epochs constant -> the list of N0/Ne; otherwise one function of t per deme with
       constant: N0/Ne;  linear: N0/Ne + (t/T)(NF-N0)/Ne;  exponential: (N0/Ne)(NF/N0)^(t/T)   (so nu(0) = N0/Ne and nu(T) = NF/Ne);
       an unknown size function is refused.  Sizes enter only relative to Ne (the reference-size invariance of C16 rests on this)."""
    oid = 'C16/Demes.py:_make_nu_func'
    fn = 'dadi/Demes/Demes.py::_make_nu_func'

    @guarded(oid, fn)
    def go():
        out = []
        N0, NF = reals('N0_', 3), reals('NF_', 3)
        T, Ne, t = z3.Reals('T Ne t')
        hy = [T > 0, Ne > 0] + [x > 0 for x in N0 + NF]
        ex = Executor()
        f = ex.func('dadi/Demes/Demes.py', '_make_nu_func')
        # all constant
        sizes = VList([(N0[i], N0[i], 'constant') for i in range(2)])
        paths = ex.run(f, [sizes, T, Ne], {}, base_pc=hy)
        if len(paths) != 1 or paths[0].outcome != 'return':
            out.append(struct(oid + '.all-constant', False, 'expected one returning path: %r' % paths[:2], fn, undecided=True))
        else:
            v = ex.iterate(paths[0].value)
            out.append(struct(oid + '.all-constant.is-list-of-numbers', len(v) == 2 and all(is_scalar(exact(x)) for x in v), 'constant epochs give a plain list (the constant-parameter integrator path)', fn))
            for i in range(min(2, len(v))):
                if is_scalar(exact(v[i])):
                    out.append(prove_eq('%s.all-constant.deme%d' % (oid, i), hy + list(paths[0].pc), v[i], N0[i] / Ne, fn))
        # mixed
        kinds = ['constant', 'linear', 'exponential']
        sizes = VList([(N0[i], N0[i] if k == 'constant' else NF[i], k) for i, k in enumerate(kinds)])
        paths = ex.run(f, [sizes, T, Ne], {}, base_pc=hy)
        rets = [p for p in paths if p.outcome == 'return']
        if len(rets) != 1:
            out.append(struct(oid + '.mixed', False, 'expected one returning path: %r' % paths[:3], fn, undecided=True))
            return out
        funcs = ex.iterate(rets[0].value)
        out.append(struct(oid + '.mixed.one-function-per-deme', len(funcs) == 3 and all(isinstance(x, (Closure, PyFn)) for x in funcs), 'three callables', fn))
        if len(funcs) == 3:
            pw = uf('pow', 2)
            wants = [N0[0] / Ne, N0[1] / Ne + t / T * (NF[1] - N0[1]) / Ne, (N0[2] / Ne) * pw(NF[2] / N0[2], t / T)]
            for i, k in enumerate(kinds):
                sub = ex.explore(lambda e, _f=funcs[i]: e.call(_f, [t], {}), base_pc=hy + list(rets[0].pc)) if 'base_pc' in ex.explore.__code__.co_varnames else ex.explore(lambda e, _f=funcs[i]: e.call(_f, [t], {}))
                if len(sub) != 1 or sub[0].outcome != 'return':
                    out.append(struct('%s.mixed.%s' % (oid, k), False, 'size function does not return on one path: %r' % sub[:2], fn, undecided=True))
                    continue
                out.append(prove_eq('%s.mixed.%s' % (oid, k), hy + list(sub[0].pc), sub[0].value, wants[i], fn))
            # end points of the linear function
            for nm, tv, want in (('start', z3.RealVal(0), N0[1] / Ne), ('end', T, NF[1] / Ne)):
                sub = ex.explore(lambda e, _f=funcs[1], _t=tv: e.call(_f, [_t], {}))
                if len(sub) == 1 and sub[0].outcome == 'return':
                    out.append(prove_eq('%s.mixed.linear.%s' % (oid, nm), hy + list(sub[0].pc), sub[0].value, want, fn))
        # unknown size function
        paths = ex.run(f, [VList([(N0[0], NF[0], 'quadratic')]), T, Ne], {}, base_pc=hy)
        out.append(struct(oid + '.refuses-unknown', len(paths) == 1 and paths[0].outcome == 'raise', 'an unknown size function raises', fn))
        return out
    return go()


def c16_integration_parameters():
    """Demes._get_integration_parameters for a fixed three-epoch structure (oldest first), all sizes, rates and Ne symbolic:
       T = (start - end)/(2 Ne) (0 for the infinite root epoch); mig[j][i] = 2 Ne m(live[i] -> live[j]), zero diagonal;
       frozen flags = membership in frozen_list; nu from _make_nu_func(sizes of the live demes in order, T, Ne)."""
    oid = 'C16/Demes.py:_get_integration_parameters'
    fn = 'dadi/Demes/Demes.py::_get_integration_parameters'

    @guarded(oid, fn)
    def go():
        import math
        Ne = z3.Real('Ne')
        hy = [Ne > 0]
        nu_calls = []

        def pol(fref):
            q = fref.qualname
            if q == '_sizes_at_time':
                return lambda ex_, fr, a, kw: Tm('sizes(%s,%s)' % (a[1], vrepr(a[2])))
            if q == '_make_nu_func':
                def h(ex_, fr, a, kw):
                    nu_calls.append(a)
                    return Tm('nu%d' % len(nu_calls))
                return h
            if q == '_migration_rate_in_interval':
                return lambda ex_, fr, a, kw: z3.Real('m(%s>%s@%s)' % (a[1], a[2], vrepr(a[3])))
            return 'inline' if q == '_get_integration_parameters' else 'abstract'
        ex = Executor(policy=pol)
        f = ex.func('dadi/Demes/Demes.py', '_get_integration_parameters')
        present = VDict({(math.inf, 100): VList(['anc']), (100, 40): VList(['A', 'B']), (40, 0): VList(['A', 'B', 'C'])})
        paths = ex.run(f, [Tm('g'), present, VList(['B'])], dict(Ne=Ne), base_pc=hy)
        if len(paths) != 1 or paths[0].outcome != 'return':
            return [struct(oid, False, 'expected one returning path: %r' % paths[:2], fn, undecided=True)]
        nus, migs, times, frozen = paths[0].value
        pc = hy + list(paths[0].pc)
        out = []
        order = [((math.inf, 100), ['anc']), ((100, 40), ['A', 'B']), ((40, 0), ['A', 'B', 'C'])]
        tl = ex.iterate(times)
        out.append(struct(oid + '.epoch-order', len(tl) == 3 and [vrepr(x) for x in ex.iterate(nus)] == ['nu1', 'nu2', 'nu3'], 'epochs processed oldest first', fn))
        wantT = [z3.RealVal(0), z3.RealVal(60) / 2 / Ne, z3.RealVal(40) / 2 / Ne]
        for k in range(min(3, len(tl))):
            out.append(prove_eq('%s.T%d' % (oid, k), pc, tl[k], wantT[k], fn))
        fl = [list(ex.iterate(x)) for x in ex.iterate(frozen)]
        out.append(struct(oid + '.frozen', fl == [[False], [False, True], [False, True, False]], 'frozen flags follow frozen_list: %s' % fl, fn))
        for k, (iv, live) in enumerate(order):
            a = nu_calls[k] if k < len(nu_calls) else None
            ok = a is not None and [vrepr(x) for x in ex.iterate(a[0])] == ['sizes(%s,%s)' % (d, vrepr(iv)) for d in live] and a[2] is Ne
            out.append(struct('%s.nu%d.arguments' % (oid, k), bool(ok), '_make_nu_func(sizes of live demes in order, T, Ne)', fn))
            if a is not None:
                out.append(prove_eq('%s.nu%d.T' % (oid, k), pc, a[1], wantT[k], fn))
            M = [ex.iterate(r) for r in ex.iterate(ex.iterate(migs)[k])]
            for i, dfrom in enumerate(live):
                for j, dto in enumerate(live):
                    want = z3.RealVal(0) if i == j else 2 * Ne * z3.Real('m(%s>%s@%s)' % (dfrom, dto, vrepr(iv)))
                    out.append(prove_eq('%s.mig%d.to%d.from%d' % (oid, k, j, i), pc, M[j][i], want, fn))
        return out
    return go()


def c16_migration_rate():
    """Demes._migration_rate_in_interval(g, source, dest, (I0, I1)): the rate of the last listed migration that applies to (source -> dest)
    -- an asymmetric record with that source and dest, or a symmetric record containing both -- and whose time window covers the interval
    (start_time >= I0 and end_time <= I1); 0 when none does.  The reverse direction of an asymmetric record does not count."""
    oid = 'C16/Demes.py:_migration_rate_in_interval'
    fn = 'dadi/Demes/Demes.py::_migration_rate_in_interval'

    @guarded(oid, fn)
    def go():
        out = []
        s1, e1, r1, s2, e2, r2, I0, I1 = z3.Reals('s1 e1 r1 s2 e2 r2 I0 I1')
        hy = [s1 > e1, s2 > e2, I0 > I1, r1 > 0, r2 > 0]
        for src, dst in (('A', 'B'), ('B', 'A'), ('A', 'C')):
            ex = Executor()
            f = ex.func('dadi/Demes/Demes.py', '_migration_rate_in_interval')
            asym = VObj('asym', source='A', dest='B', start_time=s1, end_time=e1, rate=r1)
            sym = VObj('sym', demes=VList(['A', 'B']), start_time=s2, end_time=e2, rate=r2)
            g = VObj('graph', migrations=VList([asym, sym]))
            paths = ex.run(f, [g, src, dst, (I0, I1)], {}, base_pc=hy)
            bad = [p for p in paths if p.outcome != 'return']
            tag = '%s.%s_to_%s' % (oid, src, dst)
            out.append(struct(tag + '.total', not bad and bool(paths), 'returns on all %d paths' % len(paths) if not bad else 'raising path %r' % bad[:1], fn))
            c1 = z3.And(s1 >= I0, e1 <= I1) if (src, dst) == ('A', 'B') else z3.BoolVal(False)
            c2 = z3.And(s2 >= I0, e2 <= I1) if {src, dst} == {'A', 'B'} else z3.BoolVal(False)
            want = z3.If(c2, r2, z3.If(c1, r1, z3.RealVal(0)))
            for k, p in enumerate(p_ for p_ in paths if p_.outcome == 'return'):
                out.append(prove_eq('%s.path%d' % (tag, k), hy + list(p.pc), p.value, want, fn))
        return out
    return go()


# ---------------------------------------------------------------- C14: what to_file writes, in which order
def c14_to_file_wiring():
    """Spectrum.to_file: comment lines ('# ' + stripped text), then ONE header line: every extent of data.shape, 'folded'/'unfolded', the quoted
    labels; then the data flattened in logical (C, row-major) order -- ravel() with no order override -- with '%.<precision>g'; then the mask as
    integers flattened the same way; the file is closed.  foldmaskinfo=False drops the flag, labels and mask line.  A '.gz' name opens gzip text mode."""
    oid = 'C14/Spectrum_mod.py:Spectrum.to_file'
    fn = 'dadi/Spectrum_mod.py::Spectrum.to_file'

    @guarded(oid, fn)
    def go():
        out = []
        for folded in (False, True):
            for fmi in (True, False):
                for gz in (False, True):
                    tag = '%s.%s.%s.%s' % (oid, 'folded' if folded else 'unfolded', 'maskinfo' if fmi else 'bare', 'gz' if gz else 'plain')
                    log = []

                    def flat(name):
                        t = Tm(name)

                        def ravel(*a, **k):
                            r = Tm('ravel(%s)' % name)
                            r.attrs['__ravel_args__'] = (a, dict(k))
                            return r
                        t.attrs['ravel'] = PyFn(ravel, name + '.ravel')
                        return t
                    data = flat('data')
                    data.attrs['shape'] = (3, 4)
                    mask = Tm('mask')
                    me = Tm('self')
                    me.attrs.update(data=data, mask=mask, folded=folded, pop_ids=VList(['A b', 'C']))
                    fid = Tm('fid')
                    fid.attrs['write'] = PyFn(lambda s_: log.append(('write', s_)), 'fid.write')
                    fid.attrs['close'] = PyFn(lambda: log.append(('close',)), 'fid.close')
                    opened = []

                    def ah(ex_, fref, a, kw, ctx):
                        nm = vrepr(fref)
                        if nm.endswith('savetxt') or 'savetxt' in nm:
                            log.append(('savetxt', a, dict(kw)))
                            return None
                        if 'gzip' in nm and 'open' in nm:
                            opened.append(('gzip', a, kw))
                            return fid
                        if 'asarray' in nm:
                            t = flat('asarray(%s,%s)' % (vrepr(a[0]), vrepr(a[1]) if len(a) > 1 else ''))
                            return t
                        return NotImplemented
                    ex = Executor()
                    ex.abstract_hook = ah
                    ex.builtins['open'] = PyFn(lambda *a, **k: (opened.append(('open', a, k)), fid)[1], 'open')
                    f = ex.func('dadi/Spectrum_mod.py', 'Spectrum.to_file')
                    fname = 'x.fs.gz' if gz else 'x.fs'
                    paths = ex.run(f, [me, fname], dict(precision=17, comment_lines=VList(['  hello  ']), foldmaskinfo=fmi))
                    if len(paths) != 1 or paths[0].outcome != 'return':
                        out.append(struct(tag, False, 'expected one returning path: %r' % paths[:2], fn, undecided=True))
                        continue
                    ok_open = len(opened) == 1 and opened[0][0] == ('gzip' if gz else 'open') and list(opened[0][1])[:2] == [fname, 'wt' if gz else 'w']
                    out.append(struct(tag + '.open', ok_open, 'opened %s' % (opened[:1],), fn))
                    writes = [x[1] for x in log if x[0] == 'write']
                    sv = [x for x in log if x[0] == 'savetxt']
                    text = ''.join(w if isinstance(w, str) else '<%s>' % vrepr(w) for w in writes)
                    want = '# hello\n3 4 ' + (('folded' if folded else 'unfolded') + ' "A b" "C"' if fmi else '') + '\n'
                    out.append(struct(tag + '.header', text == want, 'comment and header text %r (expected %r)' % (text, want), fn))
                    order_ok = [x[0] for x in log if x[0] in ('savetxt', 'close')] == ['savetxt'] * (2 if fmi else 1) + ['close'] and \
                        all(x[0] == 'write' for x in log[:len(writes)])
                    out.append(struct(tag + '.order', order_ok, 'header, data line%s, close' % (', mask line' if fmi else ''), fn))
                    if sv:
                        a, kw = sv[0][1], sv[0][2]
                        row = ex.iterate(a[1]) if len(a) > 1 else []
                        r0 = row[0] if row else None
                        ra = r0.attrs.get('__ravel_args__') if isinstance(r0, Tm) else None
                        ok = a and a[0] is fid and len(row) == 1 and isinstance(r0, Tm) and r0.op == 'ravel(data)' and ra == ((), {})
                        out.append(struct(tag + '.data-line', bool(ok), 'one row: self.data.ravel() in logical order (got %s, ravel args %r)' % (vrepr(r0), ra), fn))
                        out.append(struct(tag + '.data-format', kw.get('fmt') == '%.17g' and kw.get('delimiter') == ' ', 'fmt %r delimiter %r' % (kw.get('fmt'), kw.get('delimiter')), fn))
                    else:
                        out.append(struct(tag + '.data-line', False, 'no savetxt call', fn))
                    if fmi:
                        if len(sv) == 2:
                            a, kw = sv[1][1], sv[1][2]
                            row = ex.iterate(a[1]) if len(a) > 1 else []
                            r0 = row[0] if row else None
                            ra = r0.attrs.get('__ravel_args__') if isinstance(r0, Tm) else None
                            ok = a[0] is fid and len(row) == 1 and isinstance(r0, Tm) and kw.get('fmt') == '%d' and \
                                ((r0.op.startswith('ravel(asarray(mask') and ra == ((), {})) or vrepr(r0) == 'call:attr:ravel(call:numpy.array(mask))')
                            out.append(struct(tag + '.mask-line', bool(ok), 'one row: asarray(self.mask, int).ravel() in the same order, %%d (got %s, ravel args %r)' % (vrepr(r0), ra), fn))
                        else:
                            out.append(struct(tag + '.mask-line', False, 'expected a second savetxt call for the mask', fn))
        return out
    return go()


def c02_const_2d(n, frozen=()):
    return c02_const_kd(2, n, frozen)


def c02_const_kd(K, n, frozen=()):
    """_two_pops_const_params / _three_pops_const_params on an n^K grid with xx[0] = 0, xx[-1] = 1 and every other value symbolic, one step
    (T - initial_t <= dt).  _compute_delj is answered by its contract (entry = delj(M at that midpoint, grid spacing and V at that midpoint *along
    the swept axis*), an uninterpreted function of those three values), so a sweep that takes its weights from the wrong population's drift fails.
    The precalc kernels receive, entry by entry, the a, b, c of compute_abc_nobc (contracts/c_shared) without the 1/dt the kernel adds:
      sweep of population p along its axis, the others at grid values x_q:  V = x(1-x)/nu_p,
      M = sum_{q != p} m_pq (x_q - x) + 2 gamma_p x(1-x)(h_p+(1-2h_p)x) at the midpoints;
      absorbing terms only at the all-zero and all-one corners;  sweeps in population order, a frozen population's sweep skipped, influx called
      first with theta0 and the flags."""
    frozen = tuple(frozen)
    name = {2: '_two_pops_const_params', 3: '_three_pops_const_params'}[K]
    oid = 'C02/Integration.py:%s/system.n%d%s' % (name, n, ('.frozen' + ''.join(map(str, frozen))) if frozen else '')
    fn = 'dadi/Integration.py::' + name

    @guarded(oid, fn)
    def go():
        T, t0, th = z3.Reals('T t0 theta0')
        nu = [z3.Real('nu%d' % (p + 1)) for p in range(K)]
        gm = [z3.Real('gamma%d' % (p + 1)) for p in range(K)]
        hh = [z3.Real('h%d' % (p + 1)) for p in range(K)]
        mig = {(p, q): z3.Real('m%d%d' % (p + 1, q + 1)) for p in range(K) for q in range(K) if p != q}
        xs = [z3.RealVal(0)] + reals('x', n - 2) + [z3.RealVal(1)]
        shape = (n,) * K
        f0 = {idx: z3.Real('phi' + '_'.join(map(str, idx))) for idx in itertools.product(*[range(n)] * K)}
        phi = _nd_build(shape, lambda idx: f0[idx])
        hy = [T > t0, t0 >= 0, th >= 0] + [v > 0 for v in nu] + [v >= 0 for v in mig.values()] + [xs[i] < xs[i + 1] for i in range(n - 1)]
        delj = uf('delj', 3)
        calls = []

        def policy(fr):
            q = fr.qualname
            if q == '_compute_dt':
                def cdt(ex_, f_, a, k_):
                    d = ex_.ctx.fresh('dt')
                    ex_.ctx.pc += [d >= T - t0, d > 0]
                    return d
                return cdt
            if q == '_compute_delj':
                def cdj(ex_, f_, a, k_):
                    dxs, MInt, VInt = a[0], a[1], a[2]
                    axis = k_.get('axis', a[3] if len(a) > 3 else 0)
                    dl, vl = ex_.iterate(dxs), ex_.iterate(VInt)
                    shp = ex_.list_method(MInt, 'shape')
                    return _nd_build(shp, lambda idx: delj(to_real(exact(_nd_get(MInt, idx))), to_real(exact(dl[idx[axis]])), to_real(exact(vl[idx[axis]]))))
                return cdj
            if q == '_inject_mutations_%dD' % K:
                def inj(ex_, f_, a, k_):
                    calls.append(('inject', list(a)))
                    return None
                return inj
            if q in ('_Mfunc2D', '_Mfunc3D', '_Vfunc', '_compute_dfactor', name):
                return 'inline'
            return 'abstract'
        axes = 'xyz'[:K]

        def ah(ex_, fref, a, kw, ctx):
            nm = vrepr(fref)
            for ax_ in axes:
                k = 'implicit_precalc_%dD%s' % (K, ax_)
                if k in nm:
                    calls.append((k, list(a)))
                    return Tm('phi_after_' + ax_)
            return NotImplemented
        ex = Executor(policy=policy, max_paths=64)
        ex.abstract_hook = ah
        ex.module_overrides[('dadi.Integration', 'cuda_enabled')] = False
        f = ex.func('dadi/Integration.py', name)
        kw = dict(theta0=th, initial_t=t0)
        for p in range(K):
            kw['nu%d' % (p + 1)] = nu[p]
            kw['gamma%d' % (p + 1)] = gm[p]
            kw['h%d' % (p + 1)] = hh[p]
            kw['frozen%d' % (p + 1)] = (p + 1) in frozen
        for (p, q), v in mig.items():
            kw['m%d%d' % (p + 1, q + 1)] = v
        paths = ex.explore(lambda e: e.apply(f.node, None, f.mod, [phi, VList(list(xs), 'ndarray'), T], kw, 'f'), base_pc=hy)
        rets = [p for p in paths if p.outcome == 'return']
        if len(rets) != 1 or len(paths) != 1:
            return [struct(oid, False, 'expected exactly one (returning) path on a [0,1] grid: %r' % paths[:3], fn, undecided=True)]
        pth = rets[0]
        pc = list(pth.pc)
        out = []
        want_seq = ['inject'] + ['implicit_precalc_%dD%s' % (K, axes[p]) for p in range(K) if (p + 1) not in frozen]
        out.append(struct(oid + '.sequence', [c[0] for c in calls] == want_seq, 'one step = %s (got %s)' % (want_seq, [c[0] for c in calls]), fn))
        dx = lambda k: xs[k + 1] - xs[k]
        xi = lambda k: (xs[k + 1] + xs[k]) / 2
        Delta = lambda k: 2 / dx(0) if k == 0 else (2 / dx(n - 2) if k == n - 1 else 2 / (dx(k) + dx(k - 1)))
        sel = lambda x, g, h: g * 2 * (h + (1 - 2 * h) * x) * x * (1 - x)
        for c in calls:
            if c[0] == 'inject':
                a = c[1]
                ok = len(a) >= 3 + K + K and a[0] is phi and a[2 + K] is th and all(a[3 + K + p] is ((p + 1) in frozen) for p in range(K))
                out.append(struct(oid + '.influx-call', bool(ok), '_inject_mutations_%dD(phi, this_dt, grids..., theta0, frozen flags...)' % K, fn))
                out.append(prove_eq(oid + '.influx-dt', pc, a[1], T - t0, fn))
                continue
            swept = axes.index(c[0][-1])
            A, B, C, dtv = c[1][1], c[1][2], c[1][3], c[1][4]
            tag = '%s.%s' % (oid, c[0][-2:])
            out.append(prove_eq(tag + '.dt', pc, dtv, T - t0, fn))
            V = lambda x: x * (1 - x) / nu[swept]
            for idx in f0:
                k = idx[swept]
                Mm = lambda kk: sum((mig[(swept, q)] * (xs[idx[q]] - xi(kk)) for q in range(K) if q != swept), z3.RealVal(0)) + sel(xi(kk), gm[swept], hh[swept])
                dj = lambda kk: delj(Mm(kk), dx(kk), V(xi(kk)))
                sa = z3.RealVal(0) if k == 0 else Delta(k) * (-Mm(k - 1) * dj(k - 1) - V(xs[k - 1]) / (2 * dx(k - 1)))
                sc = z3.RealVal(0) if k == n - 1 else Delta(k) * (Mm(k) * (1 - dj(k)) - V(xs[k + 1]) / (2 * dx(k)))
                sb = z3.RealVal(0)
                if k <= n - 2:
                    sb = sb + Delta(k) * (Mm(k) * dj(k) + V(xs[k]) / (2 * dx(k)))
                if k >= 1:
                    sb = sb + Delta(k) * (-Mm(k - 1) * (1 - dj(k - 1)) + V(xs[k]) / (2 * dx(k - 1)))
                if all(i == 0 for i in idx):
                    sb = sb + (z3.RealVal(1) / 2 / nu[swept]) * 2 / dx(0)                # M at the corner is 0 on a [0,1] grid
                if all(i == n - 1 for i in idx):
                    sb = sb + (z3.RealVal(1) / 2 / nu[swept]) * 2 / dx(n - 2)
                for nm_, arr_, want in (('a', A, sa), ('b', B, sb), ('c', C, sc)):
                    out.append(prove_eq('%s.%s[%s]' % (tag, nm_, ','.join(map(str, idx))), pc, to_real(exact(_nd_get(arr_, idx))), want, fn, timeout_ms=30000,
                                        finding_key='C02/const%dd/%s' % (K, nm_), z3_first_ms=250))
        return out
    return go()


def c02_const_kd_two_steps(K, n=3):
    """_two_pops_const_params / _three_pops_const_params when the integration takes exactly two steps (smallest _compute_dt answer d with
    d < T - initial_t < 2d): the coefficient arrays are built once and
      * each step is influx followed by the sweeps in population order, each operation fed the previous one's result;
      * step 1 uses this_dt = d, step 2 this_dt = T - initial_t - d, for the influx and for every sweep;
      * the a, b, c handed to the sweeps of step 2 are entry by entry those of step 1 (nothing accumulates in them between steps);
      * the last sweep's result is returned.
    (The closed form of a, b, c is the one-step contract c02_const_kd.)"""
    name = {2: '_two_pops_const_params', 3: '_three_pops_const_params'}[K]
    oid = 'C02/Integration.py:%s/two-steps.n%d' % (name, n)
    fn = 'dadi/Integration.py::' + name

    @guarded(oid, fn)
    def go():
        T, t0, th, d = z3.Reals('T t0 theta0 d_step')
        nu = [z3.Real('nu%d' % (p + 1)) for p in range(K)]
        gm = [z3.Real('gamma%d' % (p + 1)) for p in range(K)]
        hh = [z3.Real('h%d' % (p + 1)) for p in range(K)]
        mig = {(p, q): z3.Real('m%d%d' % (p + 1, q + 1)) for p in range(K) for q in range(K) if p != q}
        xs = [z3.RealVal(0)] + reals('x', n - 2) + [z3.RealVal(1)]
        shape = (n,) * K
        f0 = {idx: z3.Real('phi' + '_'.join(map(str, idx))) for idx in itertools.product(*[range(n)] * K)}
        phi = _nd_build(shape, lambda idx: f0[idx])
        hy = [T > t0, t0 >= 0, th >= 0, d > 0, d < T - t0, T - t0 < 2 * d] + [v > 0 for v in nu] + [v >= 0 for v in mig.values()] + [xs[i] < xs[i + 1] for i in range(n - 1)]
        delj = uf('delj', 3)
        calls = []
        ncdt = [0]

        def snap(v):
            return VList([snap(x) for x in v.items], v.kind) if isinstance(v, VList) else v

        def policy(fr):
            q = fr.qualname
            if q == '_compute_dt':
                def cdt(ex_, f_, a, k_):
                    ncdt[0] += 1
                    if ncdt[0] == 1:
                        return d
                    e = ex_.ctx.fresh('dt')
                    ex_.ctx.pc.append(e >= d)
                    return e
                return cdt
            if q == '_compute_delj':
                def cdj(ex_, f_, a, k_):
                    dxs, MInt, VInt = a[0], a[1], a[2]
                    axis = k_.get('axis', a[3] if len(a) > 3 else 0)
                    dl, vl = ex_.iterate(dxs), ex_.iterate(VInt)
                    shp = ex_.list_method(MInt, 'shape')
                    return _nd_build(shp, lambda idx: delj(to_real(exact(_nd_get(MInt, idx))), to_real(exact(dl[idx[axis]])), to_real(exact(vl[idx[axis]]))))
                return cdj
            if q == '_inject_mutations_%dD' % K:
                def inj(ex_, f_, a, k_):
                    calls.append(('inject', list(a)))
                    return None
                return inj
            if q in ('_Mfunc2D', '_Mfunc3D', '_Vfunc', '_compute_dfactor', name):
                return 'inline'
            return 'abstract'
        axes = 'xyz'[:K]

        def ah(ex_, fref, a, kw, ctx):
            nm = vrepr(fref)
            for ax_ in axes:
                k = 'implicit_precalc_%dD%s' % (K, ax_)
                if k in nm:
                    res = Tm('phi_after_%s.%d' % (ax_, len(calls)))
                    calls.append((k, [a[0]] + [snap(x) for x in a[1:4]] + list(a[4:]), res))
                    return res
            return NotImplemented
        ex = Executor(policy=policy, max_paths=64)
        ex.abstract_hook = ah
        ex.module_overrides[('dadi.Integration', 'cuda_enabled')] = False
        f = ex.func('dadi/Integration.py', name)
        kw = dict(theta0=th, initial_t=t0)
        for p in range(K):
            kw['nu%d' % (p + 1)] = nu[p]
            kw['gamma%d' % (p + 1)] = gm[p]
            kw['h%d' % (p + 1)] = hh[p]
        for (p, q), v in mig.items():
            kw['m%d%d' % (p + 1, q + 1)] = v

        def thunk(e):
            del calls[:]
            ncdt[0] = 0
            return e.apply(f.node, None, f.mod, [phi, VList(list(xs), 'ndarray'), T], kw, 'f'), list(calls)
        paths = ex.explore(thunk, base_pc=hy)
        rets = [p for p in paths if p.outcome == 'return']
        if len(rets) != 1 or len(paths) != 1:
            return [struct(oid, False, 'expected exactly one (returning) path: %r' % [(p.outcome, [str(c)[:60] for c in p.pc[-2:]]) for p in paths[:3]], fn, undecided=True)]
        pth = rets[0]
        res, cl = pth.value
        pc = list(hy) + list(pth.pc)
        fk = 'C02/const%dd/two-steps' % K
        step = ['inject'] + ['implicit_precalc_%dD%s' % (K, a_) for a_ in axes]
        out = [struct(oid + '.sequence', [c[0] for c in cl] == step * 2, 'two rounds of %s (got %s)' % (step, [c[0] for c in cl]), fn, finding_key=fk)]
        if [c[0] for c in cl] != step * 2:
            return out
        s1, s2 = cl[:K + 1], cl[K + 1:]
        goals = [(to_real(exact(s1[0][1][1])) == d, 'step 1 influx dt'), (to_real(exact(s2[0][1][1])) == T - t0 - d, 'step 2 influx dt')]
        chain = s1[0][1][0] is phi and s2[0][1][0] is s1[-1][2]
        for stp, dtw, lab in ((s1, d, 'step 1'), (s2, T - t0 - d, 'step 2')):
            prev = stp[0][1][0]
            for c in stp[1:]:
                chain = chain and c[1][0] is prev
                prev = c[2]
                goals.append((to_real(exact(c[1][4])) == dtw, '%s %s dt' % (lab, c[0][-2:])))
        mm = discharge(goals, pc)
        out.append(struct(oid + '.time-steps', mm is None, mm or 'this_dt = d, then T - initial_t - d, for the influx and every sweep', fn, finding_key=fk))
        out.append(struct(oid + '.chain', bool(chain) and res is s2[-1][2], 'each operation fed the previous result; the last sweep\'s result returned', fn, finding_key=fk))
        for c1, c2 in zip(s1[1:], s2[1:]):
            goals = []
            for which, A1, A2 in zip('abc', c1[1][1:4], c2[1][1:4]):
                for idx in f0:
                    goals.append((to_real(exact(_nd_get(A2, idx))) == to_real(exact(_nd_get(A1, idx))), '%s[%s] of %s unchanged' % (which, ','.join(map(str, idx)), c1[0][-2:])))
            mm = discharge(goals, pc)
            out.append(struct('%s.%s.coefficients-unchanged' % (oid, c1[0][-2:]), mm is None, mm or 'a, b, c of step 2 are those of step 1', fn, finding_key=fk))
        return out
    return go()


def c02_const_dispatch(K):
    """Integration.{one_pop,two_pops,three_pops} with every parameter a scalar (all symbolic; T > initial_t, initial_t not assumed 0; frozen / nomut
    flags symbolic booleans): on every returning path that integrates, the call is handed to _K_pops_const_params with EVERY parameter the two
    functions share bound to the caller's value of the same name (T is the end time and initial_t the start time, both forwarded unchanged; sizes,
    rates, selection, dominance, theta0, beta, frozen and nomut flags each to its own slot), phi a copy of the caller's phi, and the callee's
    result is what is returned."""
    name = {1: 'one_pop', 2: 'two_pops', 3: 'three_pops'}[K]
    callee = '_%s_const_params' % {1: 'one_pop', 2: 'two_pops', 3: 'three_pops'}[K]
    oid = 'C02/Integration.py:%s/const-dispatch' % name
    fn = 'dadi/Integration.py::' + name

    @guarded(oid, fn)
    def go():
        T, t0 = z3.Reals('T t0')
        hy = [T > t0]
        ex = Executor(policy=lambda fr: 'abstract', max_paths=512)
        ex.module_overrides[('dadi.Integration', 'cuda_enabled')] = False
        f = ex.func('dadi/Integration.py', name)
        g = ex.func('dadi/Integration.py', callee)
        a_f = [x.arg for x in f.node.args.args]
        a_g = [x.arg for x in g.node.args.args]
        shared = [n for n in a_f if n in a_g and n not in ('phi', 'xx')]
        kw = {}
        for n in shared:
            if n == 'T':
                continue
            if n == 'initial_t':
                kw[n] = t0
            elif n.startswith('frozen') or n.startswith('nomut'):
                kw[n] = z3.Bool(n)
            else:
                kw[n] = z3.Real(n)
        phi, xx = Tm('phi'), Tm('xx')
        paths = ex.run(f, [phi, xx, T], kw, base_pc=hy)
        out = []
        rets = [p for p in paths if p.outcome == 'return']
        integ = []
        for p in rets:
            cs = [e[2] for e in p.log if e[0] == 'call' and str(e[1]).endswith('.' + callee)]
            if cs:
                integ.append((p, cs))
        out.append(struct(oid + '.reached', bool(integ), '%d of %d returning paths call %s' % (len(integ), len(rets), callee), fn,
                          finding_key='C02/const-dispatch/%s' % name))
        for pi, (p, cs) in enumerate(integ):
            o = '%s.path%d' % (oid, pi)
            t = cs[0]
            names = t.attrs.get('__argnames__')
            if len(cs) != 1 or names is None:
                out.append(struct(o, False, '%d calls of %s' % (len(cs), callee), fn, finding_key='C02/const-dispatch/%s' % name))
                continue
            d = dict(zip(names, t.args))
            goals = []
            bad = []
            for n in shared:
                want = T if n == 'T' else kw[n]
                got = exact(d[n])
                if isinstance(got, bool):
                    got = z3.BoolVal(got)
                if not isinstance(got, z3.ExprRef):
                    bad.append('%s is %s' % (n, vrepr(got)[:40]))
                elif z3.is_bool(want):
                    goals.append((got == want if z3.is_bool(got) else z3.BoolVal(False), '%s forwarded to %s' % (n, n)))
                else:
                    goals.append((to_real(got) == want, '%s forwarded to %s' % (n, n)))
            ok_phi = isinstance(d['phi'], Tm) and 'copy' in d['phi'].op and d['phi'] is not phi
            ok_ret = p.value is t
            mm = discharge(goals, list(hy) + list(p.pc))
            det = mm or (', '.join(bad) if bad else None) or (None if ok_phi else 'phi handed over is not a copy of the caller\'s') or \
                (None if ok_ret else 'the value returned is not the constant-parameter integrator\'s result')
            out.append(struct(o + '.arguments', det is None, det or '%s(copy of phi, xx, %s) each from the caller\'s parameter of the same name; its result returned'
                              % (callee, ', '.join(shared)), fn, finding_key='C02/const-dispatch/%s' % name))
        return out
    return go()


def c02_compute_delj_py():
    """Integration._compute_delj(dx, MInt, VInt, axis): with the Chang-Cooper switch off every weight is 1/2; with it on, entry [i,j] is
         (-e w + e V - V)/(w - e w),  w = 2 M[i,j] dx_k,  e = exp(w / V_k),  k = the index along `axis`
    (the same closed form as the C contract delj_value; the nan/inf filters replace only non-finite entries and are outside real arithmetic).
    This is the contract the constant-parameter driver obligations abstract _compute_delj by: V and dx are read along the swept axis."""
    oid = 'C02/Integration.py:_compute_delj'
    fn = 'dadi/Integration.py::_compute_delj'

    @guarded(oid, fn)
    def go():
        out = []
        n = 3
        for axis in (0, 1):
            shape = (n - 1, n) if axis == 0 else (n, n - 1)
            M = [[z3.Real('M%d_%d' % (i, j)) for j in range(shape[1])] for i in range(shape[0])]
            dxs, Vs = reals('dx', n - 1), reals('V', n - 1)
            hy = [d > 0 for d in dxs] + [v > 0 for v in Vs]
            for trick in (False, True):
                ex = Executor()
                ex.module_overrides[('dadi.Integration', 'use_delj_trick')] = trick
                f = ex.func('dadi/Integration.py', '_compute_delj')
                MInt = VList([VList(list(r), 'ndarray') for r in M], 'ndarray')
                paths = ex.run(f, [VList(list(dxs), 'ndarray'), MInt, VList(list(Vs), 'ndarray')], dict(axis=axis), base_pc=hy)
                tag = '%s.axis%d.%s' % (oid, axis, 'trick' if trick else 'plain')
                rets = [p for p in paths if p.outcome == 'return']
                if not rets or len(rets) != len(paths):
                    out.append(struct(tag, False, 'a path does not return: %r' % paths[:2], fn, undecided=True))
                    continue
                for pi, p in enumerate(rets):
                    v = p.value
                    if not trick:
                        out.append(prove_eq('%s.path%d' % (tag, pi), hy + list(p.pc), v, z3.RealVal(1) / 2, fn))
                        continue
                    exp = uf('exp')
                    if not (isinstance(v, VList) and len(v.items) == shape[0] and all(isinstance(r_, VList) and len(r_.items) == shape[1] for r_ in v.items)):
                        out.append(struct('%s.path%d.shape' % (tag, pi), False, 'with the switch on the result is %s, not a %dx%d array of Chang-Cooper weights '
                                          '(is the switch read when the function is called?)' % (vrepr(v)[:60], shape[0], shape[1]), fn, finding_key='C02/_compute_delj/switch'))
                        continue
                    for i in range(shape[0]):
                        for j in range(shape[1]):
                            k = (i, j)[axis]
                            w = 2 * M[i][j] * dxs[k]
                            e = exp(w / Vs[k])
                            want = (-e * w + e * Vs[k] - Vs[k]) / (w - e * w)
                            got = v.items[i].items[j]
                            # the nan/inf filters: where(isnan(d), 1/2, d) -- over the reals the filtered value is d itself wherever d is defined
                            out.append(prove_eq('%s.path%d.entry%d_%d' % (tag, pi, i, j), hy + list(p.pc) + [w - e * w != 0], got, want, fn))
        return out
    return go()


# ---------------------------------------------------------------- C05: semi-analytic samplers (incomplete beta function uninterpreted)
def _B(a, b, x):
    return uf('betainc', 3)(z3.RealVal(a), z3.RealVal(b), to_real(x))


def _lin_sample_1d(n, xs, fvals, dB=None):
    """Exact binomial sampling of the piecewise-linear interpolant of f on grid xs, written with the regularised incomplete beta function B:
         out[d] = sum_k  c_k/(n+1) [B(d+1,n-d+1,.)]_k  +  s_k (d+1)/((n+1)(n+2)) [B(d+2,n-d+1,.)]_k,    s_k slope, c_k = f_k - s_k x_k
    (from  int C(n,d) x^d (1-x)^(n-d) dx = B(d+1,n-d+1,x)/(n+1)  and  int C(n,d) x^(d+1) (1-x)^(n-d) dx = (d+1) B(d+2,n-d+1,x)/((n+1)(n+2)))."""
    G = len(xs)
    out = []
    for d in range(n + 1):
        t = z3.RealVal(0)
        for k in range(G - 1):
            s = (fvals[k + 1] - fvals[k]) / (xs[k + 1] - xs[k])
            c = fvals[k] - s * xs[k]
            if dB is None:
                d1 = _B(d + 1, n - d + 1, xs[k + 1]) - _B(d + 1, n - d + 1, xs[k])
                d2 = _B(d + 2, n - d + 1, xs[k + 1]) - _B(d + 2, n - d + 1, xs[k])
            else:
                d1, d2 = dB(n, 1, d, k), dB(n, 2, d, k)
            t = t + c / (n + 1) * d1 + s * z3.Q(d + 1, (n + 1) * (n + 2)) * d2
        out.append(t)
    return out


def c05_analytic_1d(n, G):
    """Spectrum._from_phi_1D_analytic = exact integration of the binomial sampling probabilities against the piecewise-linear interpolant of phi
    (see _lin_sample_1d; scipy.special.betainc uninterpreted, its two defining integrals are the trusted axioms)."""
    oid = 'C05/Spectrum_mod.py:Spectrum._from_phi_1D_analytic/n%d_G%d' % (n, G)
    fn = 'dadi/Spectrum_mod.py::Spectrum._from_phi_1D_analytic'

    @guarded(oid, fn)
    def go():
        xs, ph = reals('x', G), reals('phi', G)
        hy = [xs[0] >= 0, xs[-1] <= 1] + [xs[i] < xs[i + 1] for i in range(G - 1)]

        def ah(ex_, fref, a, kw, ctx):
            if (isinstance(fref, ClassRef) and fref.node.name == 'Spectrum') or (isinstance(fref, Tm) and 'Spectrum' in fref.op):
                return a[0]
            return NotImplemented
        ex = Executor()
        ex.abstract_hook = ah
        f = ex.func('dadi/Spectrum_mod.py', 'Spectrum._from_phi_1D_analytic')
        paths = ex.run(f, [n, VList(list(xs), 'ndarray'), VList(list(ph), 'ndarray')], dict(mask_corners=False), base_pc=hy)
        if len(paths) != 1 or paths[0].outcome != 'return':
            return [struct(oid, False, 'expected one returning path: %r' % paths[:2], fn, undecided=True)]
        data = ex.iterate(paths[0].value)
        out = [struct(oid + '.length', len(data) == n + 1, 'n+1 entries', fn)]
        want = _lin_sample_1d(n, xs, ph)
        trusted = ['scipy.special.betainc(a,b,x) is the regularised incomplete beta function (its two defining integrals)']
        for d in range(min(n + 1, len(data))):
            out.append(prove_eq('%s.entry%d' % (oid, d), hy + list(paths[0].pc), data[d], want[d], fn, trusted=trusted))
        return out
    return go()


def c05_cached_dbeta(n, G):
    """Spectrum_mod.cached_dbeta(n, xx) = (dB1, dB2) with dBq[d][k] = B(d+q, n-d+1, x_{k+1}) - B(d+q, n-d+1, x_k) on the grid clipped to [0,1]."""
    oid = 'C05/Spectrum_mod.py:cached_dbeta/n%d_G%d' % (n, G)
    fn = 'dadi/Spectrum_mod.py::cached_dbeta'

    @guarded(oid, fn)
    def go():
        xs = reals('x', G)
        hy = [xs[0] >= 0, xs[-1] <= 1] + [xs[i] < xs[i + 1] for i in range(G - 1)]
        ex = Executor()
        ex.module_overrides[('dadi.Spectrum_mod', '_dbeta_cache')] = VDict()
        f = ex.func('dadi/Spectrum_mod.py', 'cached_dbeta')
        paths = ex.run(f, [n, VList(list(xs), 'ndarray')], {}, base_pc=hy)
        if len(paths) != 1 or paths[0].outcome != 'return':
            return [struct(oid, False, 'expected one returning path: %r' % paths[:2], fn, undecided=True)]
        d1, d2 = paths[0].value
        out = []
        for q, arr in ((1, d1), (2, d2)):
            rows = [ex.iterate(r) for r in ex.iterate(arr)]
            ok = len(rows) == n + 1 and all(len(r) == G - 1 for r in rows)
            out.append(struct('%s.dbeta%d.shape' % (oid, q), ok, '(n+1) x (G-1)', fn))
            if not ok:
                continue
            for d in range(n + 1):
                for k in range(G - 1):
                    want = _B(d + q, n - d + 1, xs[k + 1]) - _B(d + q, n - d + 1, xs[k])
                    out.append(prove_eq('%s.dbeta%d[%d,%d]' % (oid, q, d, k), hy + list(paths[0].pc), rows[d][k], want, fn))
        return out
    return go()


def c05_linalg(ns, G):
    """Spectrum._from_phi_KD_linalg (K = len(ns)) = the 1-D exact piecewise-linear sampling operator applied along every axis (a tensor product),
    each axis with ITS OWN sample size.  cached_dbeta is answered by its contract (entries named by (n, q, d, k)); all phi values and grid points
    symbolic, one common grid as the function requires."""
    ns = tuple(ns)
    K = len(ns)
    oid = 'C05/Spectrum_mod.py:Spectrum._from_phi_%dD_linalg/ns%s_G%d' % (K, '_'.join(map(str, ns)), G)
    fn = 'dadi/Spectrum_mod.py::Spectrum._from_phi_%dD_linalg' % K

    @guarded(oid, fn)
    def go():
        xs = reals('x', G)
        hy = [xs[0] >= 0, xs[-1] <= 1] + [xs[i] < xs[i + 1] for i in range(G - 1)]
        shape = (G,) * K
        f_ = {idx: z3.Real('phi' + '_'.join(map(str, idx))) for idx in itertools.product(*[range(G)] * K)}
        phi = _nd_build(shape, lambda idx: f_[idx])
        dB = lambda n, q, d, k: z3.Real('dB%d(n%d)[%d,%d]' % (q, n, d, k))

        def pol(fr):
            if fr.qualname == 'cached_dbeta':
                def h(ex_, f__, a, kw):
                    n = exact(a[0])
                    mk = lambda q: VList([VList([dB(n, q, d, k) for k in range(G - 1)], 'ndarray') for d in range(n + 1)], 'ndarray')
                    return (mk(1), mk(2))
                return h
            return 'inline' if fr.qualname.startswith('Spectrum._from_phi_') and fr.qualname.endswith('D_linalg') else 'abstract'

        def ah(ex_, fref, a, kw, ctx):
            if (isinstance(fref, ClassRef) and fref.node.name == 'Spectrum') or (isinstance(fref, Tm) and 'Spectrum' in fref.op):
                return a[0]
            if 'allclose' in vrepr(fref):
                return True
            return NotImplemented
        ex = Executor(policy=pol)
        ex.abstract_hook = ah
        f = ex.func('dadi/Spectrum_mod.py', 'Spectrum._from_phi_%dD_linalg' % K)
        grid = VList(list(xs), 'ndarray')
        paths = ex.run(f, list(ns) + [grid] * K + [phi], dict(mask_corners=False), base_pc=hy)
        if len(paths) != 1 or paths[0].outcome != 'return':
            return [struct(oid, False, 'expected one returning path: %r' % paths[:2], fn, undecided=True)]
        res = paths[0].value
        want_shape = tuple(n + 1 for n in ns)
        got_shape = ex.list_method(res, 'shape') if isinstance(res, VList) else None
        out = [struct(oid + '.shape', got_shape == want_shape, 'shape %s (got %s)' % (want_shape, got_shape), fn)]
        if got_shape != want_shape:
            return out

        # spec: apply the 1-D operator along the last axis first, then the previous one, ...
        def apply_axis(vals, n):
            # vals: dict idx(K'-tuple over grid) -> expr ; contracts the LAST axis, returns dict (idx[:-1] + (d,))
            outd = {}
            heads = sorted({idx[:-1] for idx in vals})
            for hd in heads:
                line = [vals[hd + (k,)] for k in range(G)]
                smp = _lin_sample_1d(n, xs, line, dB=dB)
                for d in range(n + 1):
                    outd[hd + (d,)] = smp[d]
            return outd
        cur = dict(f_)
        # contract axes from last to first; after contracting axis a the sample index sits in the last position: rotate it to the front
        for a in range(K - 1, -1, -1):
            cur = apply_axis(cur, ns[a])
            cur = {(idx[-1],) + idx[:-1]: v for idx, v in cur.items()}
        for idx in itertools.product(*[range(s) for s in want_shape]):
            out.append(prove_eq('%s.entry%s' % (oid, '_'.join(map(str, idx))), hy + list(paths[0].pc), _nd_get(res, idx), cur[idx], fn, z3_first_ms=300))
        return out
    return go()


# ---------------------------------------------------------------- C06: the in-place pulse functions, executed on a 2-point-per-axis grid
def c06_pulse_exec(q, G=2):
    """PhiManip.<q> (phi_KD_admix_..._into_d), helper _K_pop_admixture_intermediates answered by an abstract result (bracket indices concrete and
    different for every grid point, fractions and normalisation symbolic per grid point):
      * the helper receives phi, the per-population mixing fractions in population order (source k: its f_k; destination: 1 - sum of the f's; the
        last population's fraction implied), the K grids in population order and the destination grid;
      * for every position of the other populations, new phi[.., j', ..] = sum_j w_j(dest grid) * P[j][j'] where row j of P holds
        frac_lower*norm at the lower bracket and frac_upper*norm at the upper bracket *of that same grid point* (trapezoid weights w);
      * phi is updated in place and returned."""
    oid = 'C06/PhiManip.py:%s/exec%s' % (q, '' if G == 2 else '.G%d' % G)
    fn = 'dadi/PhiManip.py::' + q

    @guarded(oid, fn)
    def go():
        m = re.match(r'phi_(\d)D_admix_.*into_(\d)$', q)
        K, dest = int(m.group(1)), int(m.group(2)) - 1
        mod = ModInfo.load('dadi/PhiManip.py')
        node = mod.funcs[q]
        params = [a.arg for a in node.args.args]
        fnames = [p for p in params[1:] if re.match(r'f\d*$', p)]
        gnames = [p for p in params if p in GRIDS]
        if len(gnames) != K or params[0] != 'phi':
            return [struct(oid, False, 'unexpected signature %s' % params, fn, undecided=True)]
        if fnames == ['f']:
            src = [1 - dest]
        else:
            src = [int(p[1:]) - 1 for p in fnames]
        fr = {k: z3.Real('f_pop%d' % (k + 1)) for k in src}
        shape = (G,) * K
        f0 = {idx: z3.Real('phi' + '_'.join(map(str, idx))) for idx in itertools.product(*[range(G)] * K)}
        phi = _nd_build(shape, lambda idx: f0[idx])
        grids = [VList(reals('%s_' % GRIDS[a], G), 'ndarray') for a in range(K)]
        # bracket indices in general position: a fixed pseudo-random table (no symmetry between axes, so a transposed or stale index shows)
        import random as _random
        _r = _random.Random(20261004 + 97 * K + dest)
        low = {idx: _r.randrange(G) for idx in sorted(f0)}
        up = {idx: (low[idx] + 1) % G for idx in f0}
        FL = {idx: z3.Real('fl' + '_'.join(map(str, idx))) for idx in f0}
        FU = {idx: z3.Real('fu' + '_'.join(map(str, idx))) for idx in f0}
        NM = {idx: z3.Real('nm' + '_'.join(map(str, idx))) for idx in f0}
        helper = []

        def pol(frf):
            if frf.qualname.endswith('_admixture_intermediates'):
                def h(ex_, f_, a, kw):
                    helper.append((frf.qualname, list(a)))
                    return (_nd_build(shape, lambda i: low[i]), _nd_build(shape, lambda i: up[i]), _nd_build(shape, lambda i: FL[i]),
                            _nd_build(shape, lambda i: FU[i]), _nd_build(shape, lambda i: NM[i]))
                return h
            return 'inline' if frf.qualname in (q, 'trapz') else 'abstract'
        ex = Executor(policy=pol)
        f = ex.func('dadi/PhiManip.py', q)
        args = [phi] + [fr[k] for k in src] + grids
        paths = ex.run(f, args, {})
        if len(paths) != 1 or paths[0].outcome != 'return' or len(helper) != 1:
            return [struct(oid, False, 'expected one returning path with one helper call: %r helper=%s' % (paths[:2], [h[0] for h in helper]), fn, undecided=True)]
        out = []
        pc = list(paths[0].pc)
        hn, ha = helper[0]
        names = {2: '_two_pop', 3: '_three_pop', 4: '_four_pop', 5: '_five_pop'}
        out.append(struct(oid + '.helper', hn == names[K] + '_admixture_intermediates' and ha[0] is phi, 'helper %s on phi' % hn, fn))
        nfr = K - 1
        fargs, gargs = ha[1:1 + nfr], ha[1 + nfr:]
        ok_g = len(gargs) == K + 1 and all(gargs[a] is grids[a] for a in range(K)) and gargs[K] is grids[dest]
        out.append(struct(oid + '.helper-grids', bool(ok_g), 'grids in population order, then the destination grid', fn))
        if len(fargs) == nfr:
            want_fr = lambda k: fr[k] if k in src else 1 - sum(fr.values(), z3.RealVal(0))
            for k in range(nfr):
                out.append(prove_eq('%s.helper-fraction%d' % (oid, k + 1), pc, fargs[k], want_fr(k), fn))
            out.append(prove_eq('%s.helper-fraction%d' % (oid, K), pc, 1 - sum((to_real(exact(x)) for x in fargs), z3.RealVal(0)), want_fr(K - 1), fn))
        else:
            out.append(struct(oid + '.helper-fractions', False, 'expected %d fractions, got %d' % (nfr, len(fargs)), fn))
        res = paths[0].value
        out.append(struct(oid + '.in-place', res is phi, 'returns the array it was given (updated in place)', fn))
        gd = grids[dest].items
        w = _trapz_weights(gd)
        for idx in f0:
            want = z3.RealVal(0)
            for j in range(G):
                sidx = idx[:dest] + (j,) + idx[dest + 1:]
                row = [z3.RealVal(0)] * G
                row[low[sidx]] = FL[sidx] * NM[sidx]
                row[up[sidx]] = FU[sidx] * NM[sidx]
                want = want + w[j] * row[idx[dest]]
            out.append(prove_eq('%s.entry%s' % (oid, '_'.join(map(str, idx))), pc, _nd_get(res, idx), want, fn, finding_key='C06/pulse-exec/%s' % q))
        return out
    return go()


def c06_simplex_guards():
    """The proportion guards of _two/_three/_four/_five_pop_admixture_intermediates (fractions symbolic): the helper refuses (ValueError, before any
    work) only vectors that are outside the simplex by MORE than a round-off allowance - some component (the implied last one included) below
    -1e-15 - and it does refuse every vector with a component below -1e-9.  Over the reals a guard `< 0` is the exact simplex test; the
    allowance is what keeps vectors that sum to 1 exactly on paper (0.8 + 0.2, 0.3 + 0.3 + 0.4) from being refused because their
    floating-point remainder is -5e-17.  Any tolerance between the two thresholds satisfies the contract."""
    oid = 'C06/PhiManip.py:simplex-guards'
    out = []
    names = {2: '_two_pop', 3: '_three_pop', 4: '_four_pop', 5: '_five_pop'}
    for K in (2, 3, 4, 5):
        q = names[K] + '_admixture_intermediates'
        fn = 'dadi/PhiManip.py::' + q
        o = '%s.%s' % (oid, q)
        try:
            fr = reals('f', K - 1)
            comps = list(fr) + [1 - sum(fr, z3.RealVal(0))]
            if K == 2:
                comps = [fr[0], 1 - fr[0]]
            work = []

            def ah(ex_, fref, a, kw, ctx):
                work.append(vrepr(fref)[:40])
                return Tm('r%d' % len(work))
            ex = Executor(policy=lambda f_: 'inline' if f_.qualname == q else 'abstract', max_paths=64)
            ex.abstract_hook = ah
            f = ex.func('dadi/PhiManip.py', q)
            grids = [Tm(g) for g in GRIDS[:K]] + [Tm('dest_grid')]

            def thunk(e):
                del work[:]
                try:
                    e.apply(f.node, None, f.mod, [Tm('phi')] + list(fr) + grids, {}, q)
                    return ('return', list(work))
                except PyRaise as pe:
                    return ('raise:%s' % pe.kind, list(work))
                except Unsupported:
                    return ('return', list(work))           # opaque array arithmetic after the guard: the guard has been passed
            paths = ex.explore(thunk)
            tiny, big = z3.RealVal('-1/1000000000000000'), z3.RealVal('-1/1000000000')
            bad = []
            nr = na = 0
            for p in paths:
                if p.outcome != 'return':
                    bad.append('unexpected outcome %r' % p)
                    continue
                what, wk = p.value
                s_ = z3.Solver()
                s_.set('timeout', 5000)
                s_.add(*p.pc)
                if what.startswith('raise:ValueError'):
                    nr += 1
                    s_.add(z3.And(*[c >= tiny for c in comps]))
                    if s_.check() != z3.unsat:
                        bad.append('refuses a vector within round-off of the simplex: %s' % (s_.model() if s_.check() == z3.sat else 'undecided'))
                    if wk:
                        bad.append('work done before the refusal: %s' % wk[:2])
                elif what.startswith('raise'):
                    bad.append('raises %s' % what)
                else:
                    na += 1
                    s_.add(z3.Or(*[c < big for c in comps]))
                    if s_.check() != z3.unsat:
                        bad.append('accepts a vector far outside the simplex: %s' % (s_.model() if s_.check() == z3.sat else 'undecided'))
            out.append(struct(o, not bad and nr > 0 and na > 0, 'refuses only beyond a round-off allowance, and everything clearly outside (%d refusing / %d accepting paths)' % (nr, na)
                              if not bad else '; '.join(str(b)[:200] for b in bad[:2]), fn, finding_key='C06/simplex-guard/%s' % q))
        except (Unsupported, PyRaise, KeyError) as e_:
            out.append(struct(o, False, 'outside the modelled subset: %r' % (e_,), fn, undecided=True))
    return out


def c06_pulse_functions():
    mod = ModInfo.load('dadi/PhiManip.py')
    return sorted(q for q in mod.funcs if re.match(r'phi_(\d)D_admix_.*into_(\d)$', q))


# ---------------------------------------------------------------- C08: one-axis projection on small shapes, every entry and mask bit symbolic
def c08_project_one_axis(ns, axis, n):
    """Spectrum._project_one_axis(n, axis) on a spectrum with sample sizes ns (every entry and mask bit symbolic), weights by the contract of
    _cached_projection (C08 weight obligations):  out[.., j, ..] = sum_hits P(n, N, hits)[j] * f[.., hits, ..]  over the hits whose window
    [max(n-(N-hits),0), min(hits,n)] contains j;  out is masked exactly where one of those source entries is masked (nothing else, in particular
    not the corners);  projecting to more than N is refused."""
    ns = tuple(ns)
    oid = 'C08/Spectrum_mod.py:Spectrum._project_one_axis/ns%s.axis%d.to%d' % ('_'.join(map(str, ns)), axis, n)
    fn = 'dadi/Spectrum_mod.py::Spectrum._project_one_axis'

    @guarded(oid, fn)
    def go():
        shape = tuple(k + 1 for k in ns)
        N = ns[axis]
        f0 = {i: z3.Real('f' + '_'.join(map(str, i))) for i in itertools.product(*[range(s) for s in shape])}
        m0 = {i: z3.Bool('m' + '_'.join(map(str, i))) for i in f0}
        data = _nd_build(shape, lambda i: f0[i])
        mask = _nd_build(shape, lambda i: m0[i])
        made = []

        POP_IDS, EXTRAP_X = Tm('self.pop_ids'), Tm('self.extrap_x')

        def gh(ex_, obj, name, ctx):
            if obj is data:
                if name == 'sample_sizes':
                    return VList(list(ns), 'ndarray')
                if name == 'Npop':
                    return len(ns)
                if name == 'mask':
                    return mask
                if name == 'pop_ids':
                    return POP_IDS
                if name == 'extrap_x':
                    return EXTRAP_X
            return NotImplemented

        def ah(ex_, fref, a, kw, ctx):
            if (isinstance(fref, ClassRef) and fref.node.name == 'Spectrum') or (isinstance(fref, Tm) and 'Spectrum' in fref.op):
                arr = a[0]
                shp = ex_.list_method(arr, 'shape')
                mc = kw.get('mask_corners', True)      # constructor default: corners masked
                corner = lambda idx: bool(mc) and (all(i == 0 for i in idx) or all(i == s - 1 for i, s in zip(idx, shp)))
                ex_.setattr(arr, 'mask', _nd_build(shp, lambda idx: corner(idx)))
                made.append(arr)
                return arr
            return NotImplemented

        def pol(fr):
            if fr.qualname == '_cached_projection':
                def h(ex_, f_, a, kw):
                    a = [exact(x) for x in a]
                    return VList([z3.Real('P(%d,%d,%d)[%d]' % (a[0], a[1], a[2], j)) for j in range(a[0] + 1)], 'ndarray')
                return h
            return 'inline' if fr.qualname == 'Spectrum._project_one_axis' else 'abstract'
        ex = Executor(policy=pol, getattr_hook=gh)
        ex.abstract_hook = ah
        fr = ex.func('dadi/Spectrum_mod.py', 'Spectrum._project_one_axis')
        if n > N:
            paths = ex.run(fr, [data, n], dict(axis=axis))
            return [struct(oid + '.refused', len(paths) == 1 and paths[0].outcome == 'raise', 'projecting up raises', fn)]
        def thunk(e):
            del made[:]
            r = e.apply(fr.node, None, fr.mod, [data, n], dict(axis=axis), 'Spectrum._project_one_axis')
            return r, len(made)
        paths = ex.explore(thunk)
        # one path on the unchanged code; a version that branches on the entries (skipping empty slices, say) is followed on every branch
        if not paths or len(paths) > 64 or any(p.outcome != 'return' or p.value[1] != 1 for p in paths):
            return [struct(oid, False, 'expected returning paths constructing one Spectrum each (at most 64): %r' % paths[:2], fn, undecided=True)]
        out = []
        new_shape = shape[:axis] + (n + 1,) + shape[axis + 1:]
        b = lambda x: z3.BoolVal(x) if isinstance(x, bool) else x
        for pi, pth in enumerate(paths):
            o = oid if len(paths) == 1 else '%s.branch%d' % (oid, pi)
            res = pth.value[0]
            pc = list(pth.pc)
            got_shape = ex.list_method(res, 'shape') if isinstance(res, VList) else None
            out.append(struct(o + '.shape', got_shape == new_shape, 'shape %s (got %s)' % (new_shape, got_shape), fn))
            if got_shape != new_shape:
                continue
            rmask = res.__dict__.get('attrs', {}).get('mask')
            for j in itertools.product(*[range(s) for s in new_shape]):
                want = z3.RealVal(0)
                wm = []
                for hits in range(N + 1):
                    least, most = max(n - (N - hits), 0), min(hits, n)
                    if least <= j[axis] <= most:
                        src = j[:axis] + (hits,) + j[axis + 1:]
                        want = want + z3.Real('P(%d,%d,%d)[%d]' % (n, N, hits, j[axis])) * f0[src]
                        wm.append(m0[src])
                out.append(prove_eq('%s.entry%s' % (o, '_'.join(map(str, j))), pc, _nd_get(res, j), want, fn, finding_key='C08/project_one_axis/value'))
                out.append(prove('%s.mask%s' % (o, '_'.join(map(str, j))), pc, b(_nd_get(rmask, j)) == z3.Or(wm + [z3.BoolVal(False)]), fn,
                                 finding_key='C08/project_one_axis/mask'))
        return out
    return go()


# ---------------------------------------------------------------- C10: marginalize / filter_pops on small unmasked spectra
def c10_marginalize(ns, over, via_filter=False):
    """Spectrum.marginalize(over) on an unmasked, unfolded spectrum with sample sizes ns (every entry symbolic), `over` in the order given:
    entry of the result = sum over the dropped populations' indices; remaining labels in their original order; folded False, extrap_x carried;
    the total is conserved.  filter_pops(tokeep) (1-based, any order) is the same with the complementary axes."""
    ns = tuple(ns)
    over = tuple(over)
    oid = 'C10/Spectrum_mod.py:Spectrum.%s/ns%s.%s%s' % ('filter_pops' if via_filter else 'marginalize', '_'.join(map(str, ns)), 'keep' if via_filter else 'over', '_'.join(map(str, over)))
    fn = 'dadi/Spectrum_mod.py::Spectrum.' + ('filter_pops' if via_filter else 'marginalize')

    @guarded(oid, fn)
    def go():
        shape = tuple(k + 1 for k in ns)
        P = len(ns)
        f0 = {i: z3.Real('f' + '_'.join(map(str, i))) for i in itertools.product(*[range(s) for s in shape])}
        data = _nd_build(shape, lambda i: f0[i])
        labels = ['P%d' % i for i in range(P)]
        extrap = Tm('extrap_x')
        log = []

        def gh(ex_, obj, name, ctx):
            if obj is data:
                if name == 'folded':
                    return False
                if name == 'pop_ids':
                    return VList(list(labels))
                if name == 'extrap_x':
                    return extrap
                if name == 'ndim':
                    return P
                if name == 'marginalize':
                    mfr = FuncRef(ex_.func('dadi/Spectrum_mod.py', 'Spectrum.marginalize').mod, ex_.func('dadi/Spectrum_mod.py', 'Spectrum.marginalize').node, 'Spectrum.marginalize')
                    return PyFn(lambda ex2, *a, **k: ex2.call(mfr, [data] + list(a), k), 'self.marginalize', wants_ex=True)
                if name == 'copy':
                    def copy():
                        def cp(v):
                            return VList([cp(i) for i in v.items], 'ndarray') if isinstance(v, VList) else v
                        c = cp(data)
                        ex_.setattr(c, 'mask', _nd_build(shape, lambda i: False))
                        return c
                    return PyFn(copy, 'self.copy')
            if isinstance(obj, VList) and obj.kind == 'ndarray':
                if name == 'flat':
                    leaves = []

                    def walk(v):
                        for i in v.items:
                            walk(i) if isinstance(i, VList) else leaves.append(i)
                    walk(obj)
                    return VList(leaves)          # writes to .flat of an all-False mask copy change nothing that is read later
                if name == 'mask_corners':
                    return PyFn(lambda: log.append('mask_corners'), 'mask_corners')
            return NotImplemented
        ex = Executor(getattr_hook=gh, policy=lambda fr: 'inline' if fr.qualname in ('Spectrum.marginalize', 'Spectrum.filter_pops') else 'abstract')
        fr = ex.func('dadi/Spectrum_mod.py', 'Spectrum.filter_pops' if via_filter else 'Spectrum.marginalize')
        paths = ex.run(fr, [data, VList(list(over))], dict(mask_corners=False))
        if len(paths) != 1:
            return [struct(oid, False, 'expected one path: %r' % paths[:3], fn, undecided=True)]
        if paths[0].outcome != 'return':
            return [struct(oid + '.returns', False, 'raises on a valid request: %r' % paths[0], fn)]
        res = paths[0].value
        drop = sorted(set(range(P)) - {t - 1 for t in over}) if via_filter else sorted(over)
        keep = [a for a in range(P) if a not in drop]
        new_shape = tuple(shape[a] for a in keep)
        got_shape = ex.list_method(res, 'shape') if isinstance(res, VList) else (() if is_scalar(exact(res)) else None)
        out = [struct(oid + '.shape', got_shape == new_shape, 'shape %s (got %s)' % (new_shape, got_shape), fn)]
        if got_shape != new_shape:
            return out
        at = res.__dict__.get('attrs', {}) if isinstance(res, VList) else {}
        gl = at.get('pop_ids')
        out.append(struct(oid + '.labels', isinstance(gl, VList) and list(gl.items) == [labels[a] for a in keep], 'labels %s (got %s)' % ([labels[a] for a in keep], vrepr(gl)), fn))
        out.append(struct(oid + '.flags', at.get('folded') is False and at.get('extrap_x') is extrap, 'unfolded, extrap_x carried', fn))
        tot = z3.RealVal(0)
        for j in itertools.product(*[range(s) for s in new_shape]):
            src = [i for i in f0 if tuple(i[a] for a in keep) == j]
            out.append(prove_eq('%s.entry%s' % (oid, '_'.join(map(str, j))), list(paths[0].pc), _nd_get(res, j), sum((f0[i] for i in src), z3.RealVal(0)), fn))
            tot = tot + to_real(exact(_nd_get(res, j)))
        out.append(prove_eq(oid + '.total-conserved', list(paths[0].pc), tot, sum(f0.values(), z3.RealVal(0)), fn))
        return out
    return go()


def c13_fst(ns):
    """Spectrum.Fst for sample sizes ns (every entry symbolic): Weir & Cockerham (1984) with random mating (b = 0), weighted over loci (eq. 10):
         Fst = sum_idx f[idx] a(idx) / sum_idx f[idx] (a(idx) + d(idx)),   with for r populations, p_i = idx_i/n_i,
         nbar = mean(n), nc = (sum n - sum n^2/sum n)/(r-1), pbar = sum n_i p_i / sum n   (sample-size weighted!),
         s2 = sum n_i (p_i - pbar)^2 / ((r-1) nbar),  h = pbar(1-pbar) - (r-1)/r s2,
         a = nbar/nc (s2 - h/(2 nbar - 1)),  d = 2 nbar/(2 nbar - 1) h.
    The coefficient arrays depend only on ns, so they are exact rationals here; _counts_per_entry is executed (numpy.indices / transpose by model)."""
    ns = tuple(ns)
    oid = 'C13/Spectrum_mod.py:Spectrum.Fst/ns' + '_'.join(map(str, ns))
    fn = 'dadi/Spectrum_mod.py::Spectrum.Fst'

    @guarded(oid, fn)
    def go():
        shape = tuple(k + 1 for k in ns)
        r = len(ns)
        f0 = {i: z3.Real('f' + '_'.join(map(str, i))) for i in itertools.product(*[range(s) for s in shape])}
        data = _nd_build(shape, lambda i: f0[i])

        def gh(ex_, obj, name, ctx):
            if obj is data:
                if name == 'sample_sizes':
                    return VList(list(ns), 'ndarray')
                if name == 'Npop':
                    return r
            return NotImplemented
        ex = Executor(getattr_hook=gh)
        fr = ex.func('dadi/Spectrum_mod.py', 'Spectrum.Fst')
        paths = ex.run(fr, [data], {})
        if len(paths) != 1 or paths[0].outcome != 'return':
            return [struct(oid, False, 'expected one returning path: %r' % paths[:2], fn, undecided=True)]
        F = Fraction
        nbar, nsum = F(sum(ns), r), sum(ns)
        nc = (nsum - F(sum(k * k for k in ns), nsum)) / (r - 1)
        num, den = z3.RealVal(0), z3.RealVal(0)
        for idx in f0:
            p = [F(i, k) for i, k in zip(idx, ns)]
            pbar = sum(k * pi for k, pi in zip(ns, p)) / nsum
            s2 = sum(k * (pi - pbar) ** 2 for k, pi in zip(ns, p)) / ((r - 1) * nbar)
            h = pbar * (1 - pbar) - F(r - 1, r) * s2
            a = nbar / nc * (s2 - h / (2 * nbar - 1))
            d = 2 * nbar / (2 * nbar - 1) * h
            q = lambda v: z3.Q(v.numerator, v.denominator)
            num = num + f0[idx] * q(a)
            den = den + f0[idx] * q(a + d)
        return [prove_eq(oid, list(paths[0].pc) + [den != 0], paths[0].value, num / den, fn)]
    return go()


def c16_admix_phi(K):
    """Demes._admix_phi(phi, xx, proportions, pop_ids, sources, dest) with K contemporaneous demes: the pulse applied is the PhiManip function for
    K populations *into the destination's axis*, and each non-destination axis receives the proportion listed for that deme -- wherever it stands
    in `sources` -- or 0 if it is not a source; every grid is xx.  All source orders of 1 and 2 (K >= 3: also all K-1) sources are enumerated."""
    oid = 'C16/Demes.py:_admix_phi/%dD' % K
    fn = 'dadi/Demes/Demes.py::_admix_phi'

    @guarded(oid, fn)
    def go():
        out = []
        pops = ['d%d' % i for i in range(K)]
        names = {2: ['phi_2D_admix_2_into_1', 'phi_2D_admix_1_into_2'],
                 3: ['phi_3D_admix_2_and_3_into_1', 'phi_3D_admix_1_and_3_into_2', 'phi_3D_admix_1_and_2_into_3'],
                 4: ['phi_4D_admix_into_%d' % (i + 1) for i in range(4)], 5: ['phi_5D_admix_into_%d' % (i + 1) for i in range(5)]}[K]
        for dest in range(K):
            others = [i for i in range(K) if i != dest]
            sizes = sorted({1, min(2, K - 1), K - 1})
            for sz in sizes:
                for srcs in itertools.permutations(others, sz):
                    if K == 5 and sz == K - 1 and srcs not in (tuple(others), tuple(reversed(others)), tuple(others[1:] + others[:1])):
                        continue
                    props = [z3.Real('prop_%s' % pops[s]) for s in srcs]
                    calls = []

                    def ah(ex_, fref, a, kw, ctx):
                        nm = fref.qualname if isinstance(fref, FuncRef) else vrepr(fref)
                        if 'admix' in nm and 'phi_' in nm:
                            calls.append((nm.split('.')[-1].rstrip(')'), list(a), dict(kw)))
                            return None
                        return NotImplemented
                    ex = Executor(policy=lambda frf: 'inline' if frf.qualname in ('_admix_phi', '_make_sorted_proportions_list') else 'abstract')
                    ex.abstract_hook = ah
                    f = ex.func('dadi/Demes/Demes.py', '_admix_phi')
                    phi, xx = Tm('phi'), Tm('xx')
                    single = sz == 1
                    paths = ex.run(f, [phi, xx, props[0] if single else VList(list(props)), VList(list(pops)), pops[srcs[0]] if single else VList([pops[s] for s in srcs]), pops[dest]], {})
                    tag = '%s.into%d.from%s' % (oid, dest, '_'.join(map(str, srcs)))
                    if len(paths) != 1 or paths[0].outcome != 'return' or len(calls) != 1:
                        out.append(struct(tag, False, 'expected one returning path with one pulse call: %r calls=%s' % (paths[:2], [c[0] for c in calls]), fn, undecided=True))
                        continue
                    nm, a, kw = calls[0]
                    ok_fn = names[dest] in nm
                    out.append(struct(tag + '.pulse', ok_fn and paths[0].value is phi and a and a[0] is phi, 'applies %s in place (got %s)' % (names[dest], nm), fn))
                    want = [(props[srcs.index(i)] if i in srcs else z3.RealVal(0)) for i in others]
                    if K == 2:
                        want = [props[0]]
                    got = a[1:1 + len(want)]
                    grids_ok = len(a) == 1 + len(want) + K and all(x is xx for x in a[1 + len(want):]) and not kw
                    out.append(struct(tag + '.grids', bool(grids_ok), 'every grid argument is xx', fn))
                    for pos, (g, w) in enumerate(zip(got, want)):
                        out.append(prove_eq('%s.proportion%d' % (tag, pos + 1), list(paths[0].pc), g, w, fn, finding_key='C16/_admix_phi/proportions'))
        return out
    return go()


def c16_new_pop_events(K):
    """Demes._split_phi and _admix_new_pop_phi with K existing demes (K = 1..4 / 2..4): the PhiManip constructor for K -> K+1 populations is called
    with the new labels, every grid xx, and -- for K >= 3 -- the mixing proportions in axis order (last one implied): a split gives the parent 1 and
    the others 0; an admixture/merge gives each listed parent its proportion wherever it stands in `parents`, 0 to the others.  K = 2 splits pick
    phi_2D_to_3D_split_<parent axis>; K = 2 admixture passes the first axis's proportion."""
    oid = 'C16/Demes.py:new-population-events/%dD' % K
    fn = 'dadi/Demes/Demes.py::_split_phi'

    @guarded(oid, fn)
    def go():
        out = []
        pops = ['d%d' % i for i in range(K)]
        newids = Tm('new_pop_ids')
        ctor = {1: 'phi_1D_to_2D', 3: 'phi_3D_to_4D', 4: 'phi_4D_to_5D'}

        def run(fname, args):
            calls = []

            def ah(ex_, fref, a, kw, ctx):
                nm = fref.qualname if isinstance(fref, FuncRef) else vrepr(fref)
                if 'phi_' in nm and '_to_' in nm:
                    calls.append((nm.split('.')[-1].rstrip(')'), list(a), dict(kw)))
                    return Tm('newphi')
                return NotImplemented
            ex = Executor(policy=lambda frf: 'inline' if frf.qualname in (fname, '_make_sorted_proportions_list') else 'abstract')
            ex.abstract_hook = ah
            f = ex.func('dadi/Demes/Demes.py', fname)
            return ex.run(f, args, {}), calls
        phi, xx = Tm('phi'), Tm('xx')
        for parent in range(K):
            paths, calls = run('_split_phi', [phi, xx, VList(list(pops)), pops[parent], newids])
            tag = '%s.split.parent%d' % (oid, parent)
            if len(paths) != 1 or paths[0].outcome != 'return' or len(calls) != 1:
                out.append(struct(tag, False, 'expected one returning path with one constructor call: %r %s' % (paths[:2], [c[0] for c in calls]), fn, undecided=True))
                continue
            nm, a, kw = calls[0]
            want_nm = 'phi_2D_to_3D_split_%d' % (parent + 1) if K == 2 else ctor[K]
            ok = want_nm in nm and kw.get('deme_ids') is newids and isinstance(paths[0].value, Tm) and paths[0].value.op == 'newphi'
            out.append(struct(tag + '.constructor', bool(ok), '%s(..., deme_ids=new_pop_ids) (got %s)' % (want_nm, nm), fn))
            if K in (1, 2):
                okg = [x for x in a if x is xx] == [xx] and any(x is phi for x in a)
                out.append(struct(tag + '.arguments', bool(okg), '(xx, phi)', fn))
            else:
                props = a[1:K]
                okg = a[0] is phi and len(a) == 1 + (K - 1) + (K + 1) and all(x is xx for x in a[K:])
                out.append(struct(tag + '.grids', bool(okg), 'phi, proportions, then K+1 grids xx', fn))
                for pos in range(K - 1):
                    out.append(prove_eq('%s.proportion%d' % (tag, pos + 1), list(paths[0].pc), props[pos], z3.RealVal(1 if pos == parent else 0), fn))
        if K >= 2:
            fn2 = 'dadi/Demes/Demes.py::_admix_new_pop_phi'
            for sz in sorted({2, K}):
                for prs in itertools.permutations(range(K), sz):
                    pr = [z3.Real('prop_%s' % pops[s]) for s in prs]
                    paths, calls = run('_admix_new_pop_phi', [phi, xx, VList(list(pr)), VList(list(pops)), VList([pops[s] for s in prs]), newids])
                    tag = '%s.admix.parents%s' % (oid, '_'.join(map(str, prs)))
                    if len(paths) != 1 or paths[0].outcome != 'return' or len(calls) != 1:
                        out.append(struct(tag, False, 'expected one returning path with one constructor call: %r %s' % (paths[:2], [c[0] for c in calls]), fn2, undecided=True))
                        continue
                    nm, a, kw = calls[0]
                    want_nm = 'phi_2D_to_3D_admix' if K == 2 else ctor[K]
                    out.append(struct(tag + '.constructor', want_nm in nm and kw.get('deme_ids') is newids and a[0] is phi, '%s(phi, ..., deme_ids=new_pop_ids) (got %s)' % (want_nm, nm), fn2))
                    nprop = 1 if K == 2 else K - 1
                    okg = len(a) == 1 + nprop + (K + 1) and all(x is xx for x in a[1 + nprop:])
                    out.append(struct(tag + '.grids', bool(okg), 'K+1 grids xx', fn2))
                    for pos in range(nprop):
                        want = pr[prs.index(pos)] if pos in prs else z3.RealVal(0)
                        out.append(prove_eq('%s.proportion%d' % (tag, pos + 1), list(paths[0].pc), a[1 + pos], want, fn2))
        return out
    return go()


# ---------------------------------------------------------------- C17: 2-D DFE quadrature with edge and corner tails
def c17_integrate_2d(symmetric):
    """Cache2D.integrate on a cache of 2 x 2 negative gammas (g_0 < g_1 < 0 the cached values, so -g_0 is the most deleterious and -g_1 the most
    nearly neutral), spectra s[i][j] symbolic, the bivariate density pdf(gamma1, gamma2) uninterpreted, scipy.integrate.quad / dblquad by their documented
    meaning (quad integrates the FIRST argument of its integrand; dblquad(f, a, b, g, h) integrates f(y, x) for x in [a,b], y in [g(x),h(x)]):
      fs/theta = trapz_i trapz_j pdf(-g_i,-g_j) s[i][j]
               + trapz_i s[i][0]  * int_{-g_0}^{inf} pdf(-g_i, y) dy    + trapz_i s[i][-1] * int_0^{-g_1} pdf(-g_i, y) dy        (gamma2 out of range)
               + trapz_j s[0][j]  * int_{-g_0}^{inf} pdf(x, -g_j) dx    + trapz_j s[-1][j] * int_0^{-g_1} pdf(x, -g_j) dx        (gamma1 out of range)
               + s[-1][-1] * II(g1 in [0,-g_1], g2 in [0,-g_1]) + s[0][-1] * II(g1 in [-g_0,inf], g2 in [0,-g_1]) + s[-1][0] * II(g1 in [0,-g_1], g2 in [-g_0,inf])
               [+ s[0][0] * II(g1, g2 in [-g_0,inf]): separate obligation `both-deleterious-corner`, a recorded known finding -- the code omits it]
    (a symmetric density may reuse the gamma1 marginals for gamma2 and the (0,-1) corner weight for the (-1,0) corner);  exterior_int=False keeps only the first line."""
    oid = 'C17/Cache2D_mod.py:Cache2D.integrate/%s' % ('symmetric' if symmetric else 'asymmetric')
    fn = 'dadi/DFE/Cache2D_mod.py::Cache2D.integrate'

    @guarded(oid, fn)
    def go():
        out = []
        g = reals('g', 2)
        hy = [g[0] < g[1], g[1] < 0]
        s_ = [[z3.Real('s%d%d' % (i, j)) for j in range(2)] for i in range(2)]
        pdf = uf('pdf', 2)
        theta = z3.Real('theta')
        params = VList(reals('dfe_param', 2))
        for ext in (True, False):
            me = Tm('self')
            ng = VList(list(g), 'ndarray')
            spectra = VList([VList([VList([VList([s_[i][j]], 'ndarray')], 'ndarray') for j in range(2)], 'ndarray') for i in range(2)], 'ndarray')
            me.attrs.update(neg_gammas=ng, spectra=spectra)
            integrals = {}

            def sel(x, y, p):
                x, y = exact(x), exact(y)
                if isinstance(x, VList) and isinstance(y, VList):
                    return VList([VList([pdf(to_real(a), to_real(b)) for b in y.items], 'ndarray') for a in x.items], 'ndarray')
                if is_scalar(x) and is_scalar(y):
                    return pdf(to_real(x), to_real(y))
                t = Tm('pdf_on_test_grid')
                t.attrs['T'] = Tm('pdf_on_test_grid.T')
                return t
            sel_dist = PyFn(sel, 'sel_dist')

            def ah(ex_, fref, a, kw, ctx):
                nm = vrepr(fref)
                if 'allclose' in nm:
                    return symmetric
                if 'logspace' in nm:
                    return Tm('testx')
                if nm.endswith('Spectrum)') or 'Spectrum_mod.Spectrum' in nm or (isinstance(fref, ClassRef) and fref.node.name == 'Spectrum'):
                    return a[0]
                if 'dblquad' in nm:
                    f_, lo, hi, gf, hf = a[:5]
                    extra = kw.get('args')
                    x = z3.Real('x_outer')
                    y = z3.Real('y_inner')
                    val = ex_.call(f_, [y, x] + (list(ex_.iterate(extra)) if extra is not None else []), {})
                    glo, ghi = ex_.call(gf, [x], {}), ex_.call(hf, [x], {})
                    key = ('dbl', z3.simplify(to_real(exact(val))).sexpr() if is_scalar(exact(val)) else vrepr(val), vrepr(lo), vrepr(hi), vrepr(glo), vrepr(ghi))
                    W = z3.Real('DQ%d' % len(integrals))
                    integrals[W.decl().name()] = key
                    t = Tm('dblquad-result')
                    t.attrs['__items__'] = [W, Tm('err')]
                    t.attrs['__len__'] = 2
                    return t
                if 'quad' in nm:
                    f_, lo, hi = a[:3]
                    extra = kw.get('args')
                    tvar = z3.Real('t_int')
                    val = ex_.call(f_, [tvar] + (list(extra) if isinstance(extra, tuple) else (list(ex_.iterate(extra)) if extra is not None else [])), {})
                    key = ('quad', z3.simplify(to_real(exact(val))).sexpr() if is_scalar(exact(val)) else vrepr(val), vrepr(lo), vrepr(hi))
                    W = z3.Real('Q%d' % len(integrals))
                    integrals[W.decl().name()] = key
                    t = Tm('quad-result')
                    t.attrs['__items__'] = [W, Tm('err')]
                    t.attrs['__len__'] = 2
                    return t
                return NotImplemented
            ex = Executor()
            ex.abstract_hook = ah
            f = ex.func('dadi/DFE/Cache2D_mod.py', 'Cache2D.integrate')
            paths = ex.run(f, [me, params, None, sel_dist, theta, None], dict(exterior_int=ext), base_pc=hy)
            tag = '%s.%s' % (oid, 'with-tails' if ext else 'interior-only')
            if len(paths) != 1 or paths[0].outcome != 'return':
                out.append(struct(tag, False, 'expected one returning path: %r' % paths[:2], fn, undecided=True))
                continue
            v = paths[0].value
            try:
                got = to_real(exact(v.items[0].items[0]))
            except Exception:
                out.append(struct(tag, False, 'result is not a (1 x 1) spectrum: %s' % vrepr(v)[:200], fn, undecided=True))
                continue
            pc = hy + list(paths[0].pc)
            # --- spec
            w = _trapz_weights(g)
            interior = sum((w[i] * w[j] * pdf(-g[i], -g[j]) * s_[i][j] for i in range(2) for j in range(2)), z3.RealVal(0))
            if not ext:
                out.append(prove_eq(tag, pc, got, theta * interior, fn))
                continue
            tq, xo, yi = z3.Real('t_int'), z3.Real('x_outer'), z3.Real('y_inner')
            sx = lambda e: z3.simplify(e).sexpr()
            mn, mx = vrepr(-g[0]), vrepr(-g[1])
            inf = 'float:inf'

            def find(key):
                hits = [n_ for n_, k_ in integrals.items() if k_ == key]
                return z3.Real(hits[0]) if hits else None
            missing = []

            def need(key, what):
                r = find(key)
                if r is None:
                    missing.append(what)
                    return z3.Real('MISSING_' + what)
                return r
            spec = interior
            for i in range(2):
                g2low = ('quad', sx(pdf(-g[i], tq)), mn, inf)
                g2high = ('quad', sx(pdf(-g[i], tq)), '0', mx)
                g1low = ('quad', sx(pdf(tq, -g[i])), mn, inf)
                g1high = ('quad', sx(pdf(tq, -g[i])), '0', mx)
                if symmetric:
                    # allowed shortcut: the gamma1 marginals stand in for the gamma2 marginals
                    W2l = find(g2low) or need(g1low, 'marginal over gamma1 [min,inf] at %d' % i)
                    W2h = find(g2high) or need(g1high, 'marginal over gamma1 [0,max] at %d' % i)
                else:
                    W2l = need(g2low, 'int_{min}^{inf} pdf(-g_%d, y) dy' % i)
                    W2h = need(g2high, 'int_0^{max} pdf(-g_%d, y) dy' % i)
                W1l = need(g1low, 'int_{min}^{inf} pdf(x, -g_%d) dx' % i)
                W1h = need(g1high, 'int_0^{max} pdf(x, -g_%d) dx' % i)
                spec = spec + w[i] * (s_[i][0] * W2l + s_[i][1] * W2h + s_[0][i] * W1l + s_[1][i] * W1h)
            f_yx = sx(pdf(yi, xo))
            nn = need(('dbl', f_yx, '0', mx, '0', mx), 'II both neutral')
            dn = need(('dbl', f_yx, '0', mx, mn, inf), 'II gamma1 deleterious, gamma2 neutral')
            if symmetric:
                nd = find(('dbl', f_yx, mn, inf, '0', mx)) or dn
            else:
                nd = need(('dbl', f_yx, mn, inf, '0', mx), 'II gamma1 neutral, gamma2 deleterious')
            spec = spec + s_[1][1] * nn + s_[0][1] * dn + s_[1][0] * nd
            out.append(struct(tag + '.integrals', not missing, 'every tail integral is requested with the documented integrand and range' if not missing else 'not requested: %s; requested: %s' % (missing, sorted(integrals.values())[:6]), fn))
            out.append(prove_eq(tag + '.assembly', pc, got, theta * spec, fn))
            # the quadrature of the whole quadrant also has a both-strongly-deleterious corner, II(g1 in [-g_0,inf], g2 in [-g_0,inf]) * s[0][0]:
            # the statement's 'edge and corner tail terms' includes it (otherwise a density with mass there does not integrate to one)
            dd = find(('dbl', f_yx, mn, inf, mn, inf))
            out.append(struct(tag + '.both-deleterious-corner', dd is not None, 'the corner int int_{gamma1, gamma2 >= -g_0} pdf, weighted by s[0][0], is %s' % ('requested' if dd is not None else 'never requested: mass beyond the most deleterious cached gamma in both coordinates is dropped'), fn,
                              finding_key='C17/bounded/integrate2d-both-deleterious-corner-omitted'))
        return out
    return go()


def c17_point_pos_2d():
    """Cache2D.integrate_point_pos on a cache with 2 negative gammas g_0 < g_1 < 0 and two additional positive ones (3 and 5): gammas = [g_0, g_1, 3, 5],
    spectra S[a][b] (1 x 1, symbolic) for population 1 at gammas[a] and population 2 at gammas[b], the bivariate density uninterpreted, the all-negative
    quadrant by contract of Cache2D.integrate (called with the continuous parameters and theta = 1).  For every choice (gammapos1, gammapos2) in {3,5}^2:
        fs/theta =  p++ S[a1][a2]  +  p+- sum_j w_j (sum_i w_i pdf(-g_i,-g_j)) S[a1][j]  +  p-+ sum_i w_i (sum_j w_j pdf(-g_i,-g_j)) S[i][a2]  +  p-- NN
        p++ = p1 p2 + rho (sqrt(p1 p2) - p1 p2),  p+- = (1-rho) p1 (1-p2),  p-+ = (1-rho)(1-p1) p2,  p-- = (1-p1)(1-p2) + rho (1 - sqrt(p1 p2) - (1-p1)(1-p2))
    (first index of the cached spectra and first argument of the density = population 1; the marginal density of the *other* population weights the mixed
    quadrants; the quadrant weights sum to one - a lemma), and integrate_symmetric_point_pos forwards (ppos, gammapos) for both populations with
    rho = the last continuous parameter."""
    oid = 'C17/Cache2D_mod.py:Cache2D.integrate_point_pos'
    fn = 'dadi/DFE/Cache2D_mod.py::Cache2D.integrate_point_pos'

    @guarded(oid, fn)
    def go():
        out = []
        g = reals('g', 2)
        hy = [g[0] < g[1], g[1] < 0]
        pos = [z3.RealVal(3), z3.RealVal(5)]
        allg = list(g) + pos
        # 2 x 2 spectra (numpy.squeeze in the code removes every axis of length one, so 1 x 1 spectra would not exercise the real broadcasting)
        S = [[[[z3.Real('S%d%d_%d%d' % (a, b, u, v)) for v in range(2)] for u in range(2)] for b in range(4)] for a in range(4)]
        mk = lambda: VList([VList([VList([VList(list(S[a][b][u]), 'ndarray') for u in range(2)], 'ndarray') for b in range(4)], 'ndarray') for a in range(4)], 'ndarray')
        pdf = uf('pdf', 2)
        theta, rho, p1, p2 = z3.Reals('theta rho ppos1 ppos2')
        NNs = [[z3.Real('NN_%d%d' % (u, v)) for v in range(2)] for u in range(2)]
        cont = reals('dfe_param', 2)
        w = _trapz_weights(g)
        sq = uf('sqrt')(p1 * p2)
        ppp = p1 * p2 + rho * (sq - p1 * p2)
        ppn = (1 - rho) * p1 * (1 - p2)
        pnp = (1 - rho) * (1 - p1) * p2
        pnn = (1 - p1) * (1 - p2) + rho * (1 - sq - (1 - p1) * (1 - p2))
        out.append(prove_eq(oid + '/lemma.quadrant-weights-sum-to-one', [], ppp + ppn + pnp + pnn, z3.RealVal(1), fn))

        def sel(x, y, p):
            x, y = exact(x), exact(y)
            if isinstance(x, VList) and isinstance(y, VList):
                return VList([VList([pdf(to_real(a), to_real(b)) for b in y.items], 'ndarray') for a in x.items], 'ndarray')
            raise Unsupported('density called on something other than two vectors')
        sel_dist = PyFn(sel, 'biv_seldist')
        for a1, a2 in itertools.product((2, 3), repeat=2):
            me = Tm('self')
            spectra = mk()
            me.attrs.update(neg_gammas=VList(list(g), 'ndarray'), gammas=VList(list(allg), 'ndarray'), spectra=spectra)
            calls = []

            def integrate(*a, **kw):
                calls.append((a, kw))
                return VList([VList(list(NNs[u]), 'ndarray') for u in range(2)], 'ndarray')
            me.attrs['integrate'] = PyFn(integrate, 'self.integrate')
            ex = Executor()
            f = ex.func('dadi/DFE/Cache2D_mod.py', 'Cache2D.integrate_point_pos')
            params = VList(list(cont) + [p1, allg[a1], p2, allg[a2]])
            tag = '%s/pos%d_%d' % (oid, a1 - 2, a2 - 2)
            paths = ex.run(f, [me, params, None, sel_dist, theta], dict(rho=rho), base_pc=hy)
            rets = [p for p in paths if p.outcome == 'return']
            if len(rets) != 1 or len(paths) != 1:
                out.append(struct(tag, False, 'expected one returning path: %r' % paths[:3], fn, undecided=True))
                continue
            v = exact(rets[0].value)
            W = [[pdf(-g[i], -g[j]) for j in range(2)] for i in range(2)]
            for u, v_ in itertools.product(range(2), repeat=2):
                try:
                    got = to_real(exact(exact(v.items[u]).items[v_]))
                    assert len(v.items) == 2 and len(exact(v.items[u]).items) == 2
                except Exception:
                    out.append(struct('%s.value[%d,%d]' % (tag, u, v_), False, 'result is not a 2 x 2 spectrum: %s' % vrepr(rets[0].value)[:200], fn, undecided=True))
                    continue
                pos_neg = sum((w[j] * sum((w[i] * W[i][j] for i in range(2)), z3.RealVal(0)) * S[a1][j][u][v_] for j in range(2)), z3.RealVal(0))
                neg_pos = sum((w[i] * sum((w[j] * W[i][j] for j in range(2)), z3.RealVal(0)) * S[i][a2][u][v_] for i in range(2)), z3.RealVal(0))
                spec = theta * (ppp * S[a1][a2][u][v_] + ppn * pos_neg + pnp * neg_pos + pnn * NNs[u][v_])
                out.append(prove_eq('%s.value[%d,%d]' % (tag, u, v_), hy + list(rets[0].pc), got, spec, fn))
            a, kw = calls[-1] if calls else ((), {})
            ok = len(calls) == 1 and len(a) >= 4 and [vrepr(x) for x in ex.iterate(a[0])] == [vrepr(x) for x in cont] and a[2] is sel_dist and vrepr(a[3]) in ('1', '1.0')
            out.append(struct(tag + '.negative-quadrant', bool(ok), 'self.integrate(continuous parameters, ns, biv_seldist, 1, pts) exactly once: %s' % vrepr(list(a))[:160], fn))
        # a requested positive gamma that is not in the cache is refused (IndexError), not silently replaced
        me = Tm('self')
        spectra = mk()
        me.attrs.update(neg_gammas=VList(list(g), 'ndarray'), gammas=VList(list(allg), 'ndarray'), spectra=spectra)
        me.attrs['integrate'] = PyFn(lambda *a, **kw: VList([VList(list(NNs[u]), 'ndarray') for u in range(2)], 'ndarray'), 'self.integrate')
        for k, (gp1, gp2) in enumerate(((z3.RealVal(3), z3.RealVal(4)), (z3.RealVal(4), z3.RealVal(5)))):
            ex = Executor()
            f = ex.func('dadi/DFE/Cache2D_mod.py', 'Cache2D.integrate_point_pos')
            paths = ex.run(f, [me, VList(list(cont) + [p1, gp1, p2, gp2]), None, sel_dist, theta], dict(rho=rho), base_pc=hy)
            ok = len(paths) == 1 and paths[0].outcome == 'raise' and paths[0].exc.kind == 'IndexError'
            out.append(struct('%s/missing-gamma%d.refused' % (oid, k), bool(ok), 'a positive gamma absent from the cache raises IndexError: %r' % [(p.outcome, str(p.exc)[:80]) for p in paths[:3]], fn))
        # integrate_symmetric_point_pos: forwards (ppos, gammapos) for both populations, rho = last continuous parameter
        fn2 = 'dadi/DFE/Cache2D_mod.py::Cache2D.integrate_symmetric_point_pos'
        ex = Executor()
        f = ex.func('dadi/DFE/Cache2D_mod.py', 'Cache2D.integrate_symmetric_point_pos')
        me = Tm('self')
        got = []

        def ipp(*a, **kw):
            got.append((a, kw))
            return Tm('ipp_result')
        me.attrs['integrate_point_pos'] = PyFn(ipp, 'self.integrate_point_pos')
        mu, sg, rh, pp, gp = z3.Reals('mu sigma rho_param ppos gammapos')
        paths = ex.run(f, [me, VList([mu, sg, rh, pp, gp]), None, sel_dist, theta])
        ok = len(paths) == 1 and paths[0].outcome == 'return' and vrepr(paths[0].value) == 'ipp_result' and len(got) == 1
        if ok:
            a, kw = got[0]
            sig = ['params', 'ns', 'biv_seldist', 'theta', 'rho', 'pts']
            bound = dict(zip(sig, a))
            bound.update(kw)
            try:
                pl = [vrepr(exact(x)) for x in ex.iterate(bound['params'])]
            except Exception:
                pl = None
            ok = pl == [vrepr(x) for x in (mu, sg, rh, pp, gp, pp, gp)] and bound.get('biv_seldist') is sel_dist and bound.get('theta') is theta \
                and vrepr(exact(bound.get('rho'))) == vrepr(rh)
        out.append(struct('C17/Cache2D_mod.py:Cache2D.integrate_symmetric_point_pos/forwarding', bool(ok),
                          'integrate_point_pos(continuous + [ppos, gammapos, ppos, gammapos], ns, biv_seldist, theta, rho = last continuous parameter): %s' % (vrepr(list(got[0][0]))[:200] + ' ' + vrepr(got[0][1])[:80] if got else paths[:2]), fn2))
        return out
    return go()


def c18_no_call(nseq):
    """LowPass.probability_of_no_call_1D_GATK_multisample for nseq haplotypes, depths 0..2 with symbolic probabilities p_d >= 0 summing to one,
    genotype partitions and their probabilities by contract of partitions_and_probabilities (the exhaustive partitions of nseq/2 diploids; symbolic
    probabilities).  With H = sum_d p_d 2^-d and D = sum_d d p_d 2^-d, a partition with a hom-alt and t het individuals contributes
         p_0^a H^t  +  a p_1 p_0^(a-1) H^t  +  p_0^a t H^(t-1) D        (terms with a = 0 resp. t = 0 absent),
    and -- definedness -- no division by a quantity that can be zero for an admissible coverage distribution (p_0 = 0 is admissible: deep coverage)."""
    oid = 'C18/LowPass.py:probability_of_no_call_1D_GATK_multisample/nseq%d' % nseq
    fn = 'dadi/LowPass/LowPass.py::probability_of_no_call_1D_GATK_multisample'

    @guarded(oid, fn)
    def go():
        nind = nseq // 2
        p = reals('p', 3)
        hy = [x >= 0 for x in p] + [p[0] + p[1] + p[2] == 1]
        parts = []
        for af in range(nseq + 1):
            ps = [list(c) for c in itertools.combinations_with_replacement((0, 1, 2), nind) if sum(c) == af]
            parts.append(ps)
        probs = [[z3.Real('w%d_%d' % (af, k)) for k in range(len(parts[af]))] for af in range(nseq + 1)]

        def pol(fr):
            if fr.qualname == 'partitions_and_probabilities':
                return lambda ex_, f_, a, kw: (VList([VList([VList(list(c)) for c in ps]) for ps in parts]), VList([VList(list(w), 'ndarray') for w in probs]))
            return 'inline' if fr.qualname == 'probability_of_no_call_1D_GATK_multisample' else 'abstract'
        ex = Executor(policy=pol)
        f = ex.func('dadi/LowPass/LowPass.py', 'probability_of_no_call_1D_GATK_multisample')
        cd = VList([VList([0, 1, 2], 'ndarray'), VList(list(p), 'ndarray')], 'ndarray')
        paths = ex.run(f, [cd, nseq, z3.Real('Fx')], {}, base_pc=hy)
        if len(paths) != 1 or paths[0].outcome != 'return':
            return [struct(oid, False, 'expected one returning path: %r' % paths[:2], fn, undecided=True)]
        res = ex.iterate(paths[0].value)
        pc = hy + list(paths[0].pc)
        out = [struct(oid + '.length', len(res) == nseq + 1, 'nseq+1 entries', fn)]
        H = p[0] + p[1] / 2 + p[2] / 4
        D = p[1] / 2 + 2 * p[2] / 4
        for af in range(min(nseq + 1, len(res))):
            want = z3.RealVal(0)
            for c, w in zip(parts[af], probs[af]):
                a, t = c.count(2), c.count(1)
                term = _pw(p[0], a) * _pw(H, t)
                if a > 0:
                    term = term + a * p[1] * _pw(p[0], a - 1) * _pw(H, t)
                if t > 0:
                    term = term + _pw(p[0], a) * t * _pw(H, t - 1) * D
                want = want + w * term
            out.append(prove_eq('%s.entry%d' % (oid, af), pc + [H > 0], res[af], want, fn))
        divisors = []
        for e in paths[0].log:
            if e[0] == 'div' and not any(e[1].eq(d) for d in divisors):
                divisors.append(e[1])

        def replay(model):
            import numpy
            from dadi.LowPass import LowPass
            pv = [float(Fraction(str(model.get('p%d' % i, 0)))) for i in range(3)]
            r = LowPass.probability_of_no_call_1D_GATK_multisample(numpy.array([[0, 1, 2], pv]), nseq, 0)
            bad = bool(numpy.any(~numpy.isfinite(numpy.asarray(r, dtype=float))))
            return dict(replayed=True, postcondition_holds_natively=not bad, input=dict(coverage_probabilities=pv, n_sequenced=nseq, Fx=0), got=[float(x) for x in r])
        for k, dv in enumerate(divisors):
            out.append(prove('%s.defined.divisor%d' % (oid, k), pc, dv != 0, fn, replay=replay))
        out.append(struct(oid + '.defined.count', True, '%d distinct symbolic divisors, each shown non-zero for every admissible coverage distribution' % len(divisors), fn))
        return out
    return go()


import math as _math


def c18_calling_error_matrix(nsub):
    """LowPass.calling_error_matrix for nsub haplotypes (nsub/2 diploids), depths 0..2 with symbolic probabilities (p_1 + p_2 > 0), genotype partitions
    and probabilities by contract of partitions_and_probabilities (exhaustive partitions; symbolic weights w), scipy.stats.binom.pmf by its documented sum.
    With q = 2 * sum_{d>=1} p_d 2^-d / sum_{d>=1} p_d (a heterozygote read as a homozygote), entry by entry
        T[a][b] = sum_{partitions c of a} w_c * sum_{e, r: e - 2r = b - a} C(t,e) q^e (1-q)^(t-e) * C(e,r) 2^-e         (t = number of heterozygotes in c)
    so that every row sums to the total weight of its partitions (row-stochastic when those sum to one) and entries are non-negative for 0 <= q <= 1."""
    oid = 'C18/LowPass.py:calling_error_matrix/nsub%d' % nsub
    fn = 'dadi/LowPass/LowPass.py::calling_error_matrix'

    @guarded(oid, fn)
    def go():
        nind = nsub // 2
        p = reals('p', 3)
        hy = [x >= 0 for x in p] + [p[0] + p[1] + p[2] == 1, p[1] + p[2] > 0]
        parts = [[list(c) for c in itertools.combinations_with_replacement((0, 1, 2), nind) if sum(c) == af] for af in range(nsub + 1)]
        probs = [[z3.Real('w%d_%d' % (af, k)) for k in range(len(parts[af]))] for af in range(nsub + 1)]
        seen = []

        def pol(fr):
            if fr.qualname == 'partitions_and_probabilities':
                def stub(ex_, f_, a, kw):
                    seen.append((a, kw))
                    return (VList([VList([VList(list(c)) for c in ps]) for ps in parts]), VList([VList(list(w), 'ndarray') for w in probs]))
                return stub
            return 'inline' if fr.qualname == 'calling_error_matrix' else 'abstract'
        ex = Executor(policy=pol)
        f = ex.func('dadi/LowPass/LowPass.py', 'calling_error_matrix')
        cd = VList([VList([0, 1, 2], 'ndarray'), VList(list(p), 'ndarray')], 'ndarray')
        Fx = z3.Real('Fx')
        paths = ex.run(f, [cd, nsub, Fx], {}, base_pc=hy)
        if len(paths) != 1 or paths[0].outcome != 'return':
            return [struct(oid, False, 'expected one returning path: %r' % paths[:2], fn, undecided=True)]
        T = paths[0].value
        pc = hy + list(paths[0].pc)
        out = []
        a, kw = seen[0] if seen else ((), {})
        ok = len(seen) == 1 and len(a) >= 2 and a[0] == nsub and a[1] == 'genotype' and ((len(a) > 2 and a[2] is Fx) or kw.get('Fx') is Fx)
        out.append(struct(oid + '.partitions', bool(ok), 'partitions_and_probabilities(n_subsampling, "genotype", Fx) once: %s %s' % (vrepr(list(a))[:80], vrepr(kw)[:40]), fn))
        q = 2 * (p[1] / 2 + p[2] / 4) / (p[1] + p[2])
        rows = ex.iterate(T)
        out.append(prove(oid + '.lemma.miscall-probability-in-unit-interval', hy, z3.And(q >= 0, q <= 1), fn))
        out.append(struct(oid + '.shape', len(rows) == nsub + 1 and all(len(ex.iterate(r)) == nsub + 1 for r in rows), '(nsub+1) x (nsub+1)', fn))
        for af in range(nsub + 1):
            row = ex.iterate(rows[af])
            total = z3.RealVal(0)
            for b in range(nsub + 1):
                want = z3.RealVal(0)
                for c, w in zip(parts[af], probs[af]):
                    t = c.count(1)
                    for e in range(t + 1):
                        for r in range(e + 1):
                            if e - 2 * r == b - af:
                                want = want + w * _math.comb(t, e) * _pw(q, e) * _pw(1 - q, t - e) * _math.comb(e, r) / z3.RealVal(2 ** e)
                out.append(prove_eq('%s.entry[%d,%d]' % (oid, af, b), pc, row[b], want, fn))
                total = total + to_real(exact(row[b]))
            out.append(prove_eq('%s.row%d.sums-to-partition-weight' % (oid, af), pc, total, sum(probs[af], z3.RealVal(0)), fn))
        return out
    return go()


def c03_ensure_1arg_func():
    """Misc.ensure_1arg_func: a constant c becomes the function t -> c (for every t), a one-argument function g stays t -> g(t) (same value at
    every t, evaluated at the argument it is called with), and a function that does not accept exactly one argument is refused with ValueError.
    This is how constants and time-functions reach the same time-dependent driver (C03: constants wrapped into functions of time)."""
    oid = 'C03/Misc.py:ensure_1arg_func'
    fn = 'dadi/Misc.py::ensure_1arg_func'

    @guarded(oid, fn)
    def go():
        out = []
        c, t = z3.Reals('c t')
        ex = Executor()
        f = ex.func('dadi/Misc.py', 'ensure_1arg_func')
        paths = ex.run(f, [c], {})
        if len(paths) != 1 or paths[0].outcome != 'return':
            out.append(struct(oid + '.constant', False, 'expected one returning path: %r' % paths[:2], fn, undecided=True))
        else:
            sub = ex.explore(lambda e: e.call(paths[0].value, [t], {}))
            ok = len(sub) == 1 and sub[0].outcome == 'return'
            out.append(prove_eq(oid + '.constant', list(paths[0].pc) + (list(sub[0].pc) if ok else []), sub[0].value if ok else z3.RealVal(0), c, fn) if ok
                       else struct(oid + '.constant', False, 'wrapped constant does not evaluate: %r' % sub[:2], fn))
        g = uf('g')
        seen = []

        def gfun(x):
            seen.append(x)
            return g(to_real(exact(x)))
        paths = ex.run(f, [PyFn(gfun, 'g')], {})
        if len(paths) != 1 or paths[0].outcome != 'return':
            out.append(struct(oid + '.function', False, 'expected one returning path: %r' % paths[:2], fn, undecided=True))
        else:
            sub = ex.explore(lambda e: e.call(paths[0].value, [t], {}))
            ok = len(sub) == 1 and sub[0].outcome == 'return'
            out.append(prove_eq(oid + '.function', list(sub[0].pc) if ok else [], sub[0].value if ok else z3.RealVal(0), g(t), fn) if ok
                       else struct(oid + '.function', False, 'wrapped function does not evaluate: %r' % sub[:2], fn))
        # a two-argument function: calling it with one argument is a TypeError in Python -> ValueError
        mod = ModInfo.load('dadi/Misc.py')
        two = Closure(ast.parse('lambda a, b: a').body[0].value, None, mod)
        two.defaults = ([], [])
        paths = ex.run(f, [two], {})
        ok = len(paths) == 1 and paths[0].outcome == 'raise' and 'ValueError' in repr(paths[0])
        out.append(struct(oid + '.refuses-two-argument-function', ok, 'raises ValueError: %r' % paths[:1], fn))
        return out
    return go()


def c06_phi_reorder(K):
    """PhiManip.reorder_pops(phi, neworder) (1-based): axis k of the result is population neworder[k] of the input, i.e.
    result[j_0..j_{K-1}] = phi[i] with i[neworder[k]-1] = j_k, for every permutation of K populations on a grid with a different length per axis;
    anything that is not a permutation of 1..K is refused.  No value is changed, dropped or duplicated."""
    oid = 'C06/PhiManip.py:reorder_pops/%dD' % K
    fn = 'dadi/PhiManip.py::reorder_pops'

    @guarded(oid, fn)
    def go():
        out = []
        shape = tuple(range(2, 2 + K))
        f0 = {i: z3.Real('phi' + '_'.join(map(str, i))) for i in itertools.product(*[range(s) for s in shape])}
        for perm in itertools.permutations(range(1, K + 1)):
            phi = _nd_build(shape, lambda i: f0[i])
            ex = Executor()
            f = ex.func('dadi/PhiManip.py', 'reorder_pops')
            paths = ex.run(f, [phi, VList(list(perm))], {})
            tag = '%s.%s' % (oid, ''.join(map(str, perm)))
            if len(paths) != 1 or paths[0].outcome != 'return':
                out.append(struct(tag, False, 'expected one returning path: %r' % paths[:2], fn))
                continue
            res = paths[0].value
            new_shape = tuple(shape[p - 1] for p in perm)
            got_shape = ex.list_method(res, 'shape') if isinstance(res, VList) else None
            ok = got_shape == new_shape
            bad = None
            if ok:
                for j in itertools.product(*[range(s) for s in new_shape]):
                    i = [0] * K
                    for k, p in enumerate(perm):
                        i[p - 1] = j[k]
                    if _nd_get(res, j) is not f0[tuple(i)]:
                        ok, bad = False, (j, tuple(i))
                        break
            out.append(struct(tag, ok, 'axis k of the result is population neworder[k]' if ok else 'shape %s (expected %s), first wrong entry %s' % (got_shape, new_shape, bad), fn))
        for badorder in ([1] * K, list(range(K)), list(range(1, K)) if K > 1 else [2]):
            phi = _nd_build(shape, lambda i: f0[i])
            ex = Executor()
            f = ex.func('dadi/PhiManip.py', 'reorder_pops')
            paths = ex.run(f, [phi, VList(list(badorder))], {})
            out.append(struct('%s.refuses.%s' % (oid, ''.join(map(str, badorder))), len(paths) == 1 and paths[0].outcome == 'raise', 'neworder %s raises' % badorder, fn))
        return out
    return go()


def c06_remove_filter(K, tokeep=None, popnum=None):
    """PhiManip.remove_pop(phi, xx, popnum) = trapezoid integration over that population's axis (weights of xx), all other axes untouched;
    PhiManip.filter_pops(phi, xx, tokeep) = the same for every population not kept (any order of `tokeep`).  Every phi value and grid point symbolic;
    the remaining trapezoid mass is the original one (when every axis shares the grid xx)."""
    what = 'filter_pops.keep%s' % '_'.join(map(str, tokeep)) if tokeep is not None else 'remove_pop.%d' % popnum
    oid = 'C06/PhiManip.py:%s/%dD' % (what, K)
    fname = 'filter_pops' if tokeep is not None else 'remove_pop'
    fn = 'dadi/PhiManip.py::' + fname

    @guarded(oid, fn)
    def go():
        G = 3
        xs = reals('x', G)
        hy = [xs[i] < xs[i + 1] for i in range(G - 1)]
        shape = (G,) * K
        f0 = {i: z3.Real('phi' + '_'.join(map(str, i))) for i in itertools.product(*[range(G)] * K)}
        phi = _nd_build(shape, lambda i: f0[i])
        ex = Executor(policy=lambda fr: 'inline' if fr.qualname in ('remove_pop', 'filter_pops', 'trapz') else 'abstract')
        f = ex.func('dadi/PhiManip.py', fname)
        grid = VList(list(xs), 'ndarray')
        paths = ex.run(f, [phi, grid, VList(list(tokeep)) if tokeep is not None else popnum], {}, base_pc=hy)
        if len(paths) != 1 or paths[0].outcome != 'return':
            return [struct(oid, False, 'expected one returning path: %r' % paths[:2], fn, undecided=True)]
        res = paths[0].value
        drop = sorted(set(range(K)) - {t - 1 for t in tokeep}) if tokeep is not None else [popnum - 1]
        keep = [a for a in range(K) if a not in drop]
        new_shape = tuple(G for _ in keep)
        got_shape = (ex.list_method(res, 'shape') if isinstance(res, VList) else ())
        out = [struct(oid + '.shape', got_shape == new_shape, 'shape %s (got %s)' % (new_shape, got_shape), fn)]
        if got_shape != new_shape:
            return out
        w = _trapz_weights(xs)
        pc = hy + list(paths[0].pc)
        mass_new = z3.RealVal(0)
        for j in itertools.product(*[range(G)] * len(keep)):
            want = z3.RealVal(0)
            for i in f0:
                if tuple(i[a] for a in keep) == j:
                    t = f0[i]
                    for a in drop:
                        t = t * w[i[a]]
                    want = want + t
            got = _nd_get(res, j) if keep else res
            out.append(prove_eq('%s.entry%s' % (oid, '_'.join(map(str, j)) or 'scalar'), pc, got, want, fn))
            tj = to_real(exact(got))
            for a_ in j:
                tj = tj * w[a_]
            mass_new = mass_new + tj
        mass_old = z3.RealVal(0)
        for i, v in f0.items():
            t = v
            for a_ in i:
                t = t * w[a_]
            mass_old = mass_old + t
        out.append(prove_eq(oid + '.mass-conserved', pc, mass_new, mass_old, fn))
        return out
    return go()


def c16_apply_event():
    """Demes._apply_event: which numerical operation each graph event becomes, with which arguments, and the deme order afterwards
    (the new deme of a split / branch / admixture / merge always goes last, the parent's slot keeps the first child; removed demes are removed
    by their index at that moment, counted from 1; more than five demes and unknown events are refused)."""
    oid = 'C16/Demes.py:_apply_event'
    fn = 'dadi/Demes/Demes.py::_apply_event'

    @guarded(oid, fn)
    def go():
        out = []

        def run(ids, event):
            calls = []

            def pol(fr):
                q = fr.qualname
                if q in ('_split_phi', '_admix_new_pop_phi', '_admix_phi'):
                    def h(ex_, f_, a, kw):
                        calls.append((q, [list(x.items) if isinstance(x, VList) else x for x in a]))
                        return Tm('phi_after_' + q)
                    return h
                return 'inline' if q == '_apply_event' else 'abstract'

            def ah(ex_, fref, a, kw, ctx):
                nm = fref.qualname if isinstance(fref, FuncRef) else vrepr(fref)
                if 'remove_pop' in nm:
                    calls.append(('remove_pop', list(a)))
                    return Tm('phi_after_remove%d' % len(calls))
                return NotImplemented
            ex = Executor(policy=pol)
            ex.abstract_hook = ah
            f = ex.func('dadi/Demes/Demes.py', '_apply_event')
            phi, xx = Tm('phi'), Tm('xx')
            pid = VList(list(ids))
            paths = ex.run(f, [phi, xx, pid, event, Tm('interval'), Tm('sample_sizes'), Tm('demes_present')], {})
            return paths, calls, phi, xx
        p1, p2 = z3.Reals('prop1 prop2')

        def ids_of(v):
            return list(v.items) if isinstance(v, VList) else v
        cases = [
            ('marginalize', ['A', 'B', 'C'], ('marginalize', 'B'), [('remove_pop', lambda a, phi, xx: a[0] is phi and a[1] is xx and a[2] == 2)], ['A', 'C']),
            ('split', ['A', 'B', 'C'], ('split', 'A', VList(['A1', 'A2'])), [('_split_phi', lambda a, phi, xx: a[0] is phi and a[1] is xx and a[2] == ['A', 'B', 'C'] and a[3] == 'A' and a[4] == ['A1', 'B', 'C', 'A2'])], ['A1', 'B', 'C', 'A2']),
            ('rename', ['A', 'B', 'C'], ('split', 'B', VList(['Z'])), [], ['A', 'Z', 'C']),
            ('branch', ['A', 'B', 'C'], ('branch', 'B', 'D'), [('_split_phi', lambda a, phi, xx: a[0] is phi and a[2] == ['A', 'B', 'C'] and a[3] == 'B' and a[4] == ['A', 'B', 'C', 'D'])], ['A', 'B', 'C', 'D']),
            ('admix', ['A', 'B', 'C'], ('admix', VList(['C', 'A']), VList([p1, p2]), 'D'),
             [('_admix_new_pop_phi', lambda a, phi, xx: a[0] is phi and a[1] is xx and a[2][0] is p1 and a[2][1] is p2 and a[3] == ['A', 'B', 'C'] and a[4] == ['C', 'A'] and a[5] == ['A', 'B', 'C', 'D'])], ['A', 'B', 'C', 'D']),
            ('merge', ['A', 'B', 'C'], ('merge', VList(['A', 'C']), VList([p1, p2]), 'D'),
             [('_admix_new_pop_phi', lambda a, phi, xx: a[0] is phi and a[3] == ['A', 'B', 'C'] and a[4] == ['A', 'C'] and a[5] == ['A', 'B', 'C', 'D']),
              ('remove_pop', lambda a, phi, xx: a[1] is xx and a[2] == 1), ('remove_pop', lambda a, phi, xx: a[1] is xx and a[2] == 2)], ['B', 'D']),
            ('pulse', ['A', 'B', 'C'], ('pulses', VList(['C', 'A']), 'B', VList([p1, p2])),
             [('_admix_phi', lambda a, phi, xx: a[0] is phi and a[1] is xx and a[2][0] is p1 and a[2][1] is p2 and a[3] == ['A', 'B', 'C'] and a[4] == ['C', 'A'] and a[5] == 'B')], ['A', 'B', 'C']),
        ]
        for name, ids, ev, want_calls, want_ids in cases:
            paths, calls, phi, xx = run(ids, ev)
            tag = '%s.%s' % (oid, name)
            if len(paths) != 1 or paths[0].outcome != 'return':
                out.append(struct(tag, False, 'expected one returning path: %r' % paths[:2], fn, undecided=True))
                continue
            rphi, rids = paths[0].value
            ok_calls = [c[0] for c in calls] == [w[0] for w in want_calls] and all(w[1](c[1], phi, xx) for c, w in zip(calls, want_calls))
            out.append(struct(tag + '.operation', bool(ok_calls), 'operations %s with the documented arguments (got %s)' % ([w[0] for w in want_calls], [(c[0], [vrepr(x) for x in c[1]][2:]) for c in calls]), fn))
            out.append(struct(tag + '.order', ids_of(rids) == want_ids, 'deme order afterwards %s (got %s)' % (want_ids, ids_of(rids)), fn))
            last = calls[-1] if calls else None
            ok_phi = (rphi is phi) if not calls else (isinstance(rphi, Tm) and rphi.op.startswith('phi_after_'))
            out.append(struct(tag + '.density', bool(ok_phi), 'returns the density produced by the last operation', fn))
        paths, calls, _, _ = run(['A', 'B', 'C', 'D', 'E'], ('split', 'A', VList(['A1', 'A2'])))
        out.append(struct(oid + '.refuses-sixth-deme', len(paths) == 1 and paths[0].outcome == 'raise' and not calls, 'a split that would create a sixth deme raises before touching phi', fn))
        paths, calls, _, _ = run(['A'], ('teleport', 'A'))
        out.append(struct(oid + '.refuses-unknown-event', len(paths) == 1 and paths[0].outcome == 'raise', 'unknown event type raises', fn))
        return out
    return go()


def c14_from_file_wiring():
    """Spectrum.from_file on the very header text that the to_file contract shows is written ('# hello' / '3 4 <folded|unfolded> "A b" "C"'), the pre-1.3
    header ('3 4') and a label-free new header: comments without '#', shape (3, 4), the folded flag, labels split on the quotes (blanks inside kept),
    data and mask each = fromstring(<their own line>, count=12, sep=' ').reshape(3, 4), handed to Spectrum(data, mask, mask_corners, data_folded, pop_ids);
    no mask line / no flag in the old format gives mask None, unfolded, no labels; the file is closed; '.gz' opens gzip in text mode.
    Together with the to_file contract: shape, folding, labels and comments survive the round trip whatever the data."""
    oid = 'C14/Spectrum_mod.py:Spectrum.from_file'
    fn = 'dadi/Spectrum_mod.py::Spectrum.from_file'

    @guarded(oid, fn)
    def go():
        out = []
        cases = [('new.folded', ['# hello\n', '#  second  \n', '3 4 folded "A b" "C"\n', 'DATA LINE \n', 'MASK LINE\n', ''], dict(shape=(3, 4), folded=True, ids=['A b', 'C'], mask=True, comments=['hello', 'second'])),
                 # labels are what stands between the quotes, verbatim: leading / trailing blanks and an all-blank label included
                 ('new.labels-with-outer-blanks', ['3 4 unfolded " north" "south  "\n', 'DATA LINE\n', 'MASK LINE\n', ''], dict(shape=(3, 4), folded=False, ids=[' north', 'south  '], mask=True, comments=[])),
                 ('new.blank-label', ['3 4 folded " " "x"\n', 'DATA LINE\n', 'MASK LINE\n', ''], dict(shape=(3, 4), folded=True, ids=[' ', 'x'], mask=True, comments=[])),
                 # a comment is the line without its ONE leading '#', stripped of outer blanks: further '#' characters belong to the text
                 ('new.hash-in-comment', ['## run 7 ##\n', '#CHROM POS\n', '3 4 unfolded\n', 'DATA LINE\n', 'MASK LINE\n', ''], dict(shape=(3, 4), folded=False, ids=None, mask=True, comments=['# run 7 ##', 'CHROM POS'])),
                 ('new.unfolded.nolabels', ['3 4 unfolded\n', 'DATA LINE\n', 'MASK LINE\n', ''], dict(shape=(3, 4), folded=False, ids=None, mask=True, comments=[])),
                 ('old', ['# c\n', '3 4\n', 'DATA LINE\n', ''], dict(shape=(3, 4), folded=False, ids=None, mask=False, comments=['c']))]
        for gz in (False, True):
            for name, lines, want in cases:
                tag = '%s.%s.%s' % (oid, name, 'gz' if gz else 'plain')
                log, opened, made = [], [], []
                it = iter(lines)
                fid = Tm('fid')
                fid.attrs['readline'] = PyFn(lambda: next(it, ''), 'fid.readline')
                fid.attrs['close'] = PyFn(lambda: log.append('close'), 'fid.close')

                def ah(ex_, fref, a, kw, ctx):
                    nm = vrepr(fref)
                    if 'fromstring' in nm:
                        t = Tm('parsed(%s)' % a[0])
                        t.attrs['__src__'] = (a[0], dict(kw))

                        def reshape(*shp):
                            r = Tm('reshaped(%s)' % a[0])
                            r.attrs['__src__'] = (a[0], dict(kw), tuple(exact(x) for x in shp))
                            return r
                        t.attrs['reshape'] = PyFn(reshape, 'reshape')
                        return t
                    if 'gzip' in nm and 'open' in nm:
                        opened.append(('gzip', list(a)))
                        return fid
                    if nm.endswith('prod') or 'numpy.prod' in nm or 'prod(' in nm:
                        import math as _m
                        return _m.prod(int(exact(x)) for x in ex_.iterate(a[0]))
                    if (isinstance(fref, ClassRef) and fref.node.name == 'Spectrum') or (isinstance(fref, Tm) and 'Spectrum' in fref.op):
                        made.append((list(a), dict(kw)))
                        return Tm('fs')
                    return NotImplemented
                ex = Executor()
                ex.abstract_hook = ah
                ex.builtins['open'] = PyFn(lambda *a, **k: (opened.append(('open', list(a))), fid)[1], 'open')
                f = ex.func('dadi/Spectrum_mod.py', 'Spectrum.from_file')
                mc = Tm('mask_corners')
                paths = ex.run(f, ['x.fs.gz' if gz else 'x.fs'], dict(mask_corners=mc, return_comments=True))
                if len(paths) != 1 or paths[0].outcome != 'return' or len(made) != 1:
                    out.append(struct(tag, False, 'expected one returning path constructing one Spectrum: %r' % paths[:2], fn, undecided=True))
                    continue
                a, kw = made[0]
                fs, comments = paths[0].value
                out.append(struct(tag + '.open', opened == [('gzip' if gz else 'open', ['x.fs.gz' if gz else 'x.fs', 'rt' if gz else 'r'])] and log == ['close'], 'opened %s, closed once' % opened, fn))
                out.append(struct(tag + '.comments', list(ex.iterate(comments)) == want['comments'], 'comments %s' % list(ex.iterate(comments)), fn))
                d = a[0]
                src = d.attrs.get('__src__') if isinstance(d, Tm) else None
                okd = src is not None and src[0] == 'DATA LINE' and src[1].get('count') == 12 and src[1].get('sep') == ' ' and src[2] == want['shape']
                out.append(struct(tag + '.data', bool(okd), 'data = fromstring(data line, count=12, sep=" ").reshape%s: %s' % (want['shape'], src), fn))
                mk = a[1] if len(a) > 1 else kw.get('mask')
                if want['mask']:
                    msrc = mk.attrs.get('__src__') if isinstance(mk, Tm) else None
                    okm = msrc is not None and msrc[0] == 'MASK LINE' and msrc[1].get('count') == 12 and msrc[2] == want['shape']
                else:
                    okm = mk is None
                out.append(struct(tag + '.mask', bool(okm), 'mask from its own line (or None in the old format): %s' % vrepr(mk), fn))
                got_ids = kw.get('pop_ids')
                got_ids = list(ex.iterate(got_ids)) if got_ids is not None else None
                okf = kw.get('data_folded') is want['folded'] and got_ids == want['ids'] and (a[2] if len(a) > 2 else kw.get('mask_corners')) is mc
                out.append(struct(tag + '.metadata', bool(okf), 'data_folded=%s, pop_ids=%s, mask_corners passed through (got %s, %s)' % (want['folded'], want['ids'], kw.get('data_folded'), got_ids), fn))
        return out
    return go()


def c10_scramble(ns):
    """Spectrum.scramble_pop_ids on an unfolded spectrum of sample sizes ns (every entry symbolic; _lncomb uninterpreted):
         out[idx] = exp( sum_i lncomb(n_i, idx_i) - lncomb(N, D) ) * sum_{idx': |idx'| = D} f[idx'],   D = |idx| = sum of idx, N = sum of ns
    i.e. chromosomes are pooled by their total derived count and re-dealt to the populations hypergeometrically."""
    ns = tuple(ns)
    oid = 'C10/Spectrum_mod.py:Spectrum.scramble_pop_ids/ns' + '_'.join(map(str, ns))
    fn = 'dadi/Spectrum_mod.py::Spectrum.scramble_pop_ids'

    @guarded(oid, fn)
    def go():
        shape = tuple(k + 1 for k in ns)
        P = len(ns)
        N = sum(ns)
        f0 = {i: z3.Real('f' + '_'.join(map(str, i))) for i in itertools.product(*[range(s) for s in shape])}
        data = _nd_build(shape, lambda i: f0[i])
        lnc = uf('lncomb', 2)

        def gh(ex_, obj, name, ctx):
            if obj is data:
                if name == 'folded':
                    return False
                if name == 'sample_sizes':
                    return VList(list(ns), 'ndarray')
                if name in ('ndim', 'Npop'):
                    return P
                if name == '_total_per_entry':
                    return PyFn(lambda: _nd_build(shape, lambda i: sum(i)), '_total_per_entry')
                if name == '_counts_per_entry':
                    return PyFn(lambda: _nd_build(shape + (P,), lambda i: i[-1] if False else i[:P][i[P]]), '_counts_per_entry')
            return NotImplemented

        def pol(fr):
            if fr.qualname == '_lncomb':
                return lambda ex_, f_, a, kw: lnc(to_real(exact(a[0])), to_real(exact(a[1])))
            return 'inline' if fr.qualname == 'Spectrum.scramble_pop_ids' else 'abstract'

        def ah(ex_, fref, a, kw, ctx):
            if (isinstance(fref, ClassRef) and fref.node.name == 'Spectrum') or (isinstance(fref, Tm) and 'Spectrum' in fref.op):
                return a[0]
            return NotImplemented
        ex = Executor(policy=pol, getattr_hook=gh)
        ex.abstract_hook = ah
        fr = ex.func('dadi/Spectrum_mod.py', 'Spectrum.scramble_pop_ids')
        data.attrs['layout'] = 'any'          # the spectrum may be a view with any memory layout (transposed, Fortran-ordered, ...)
        paths = ex.run(fr, [data], dict(mask_corners=False))
        if not paths or any(p.outcome != 'return' for p in paths) or len(paths) > 2:
            return [struct(oid, False, 'expected returning paths only (one, or one per memory layout): %r' % paths[:2], fn, undecided=True)]
        out = []
        exp = uf('exp')
        for pi, p in enumerate(paths):
            o = oid if pi == 0 else '%s.layout%d' % (oid, pi)
            res = p.value
            got_shape = ex.list_method(res, 'shape') if isinstance(res, VList) else None
            out.append(struct(o + '.shape', got_shape == shape, 'same shape (got %s)' % (got_shape,), fn))
            if got_shape != shape:
                continue
            for idx in f0:
                D = sum(idx)
                pooled = sum((f0[j] for j in f0 if sum(j) == D), z3.RealVal(0))
                arg = sum((lnc(z3.RealVal(ns[i]), z3.RealVal(idx[i])) for i in range(P)), z3.RealVal(0)) - lnc(z3.RealVal(N), z3.RealVal(D))
                out.append(prove_eq('%s.entry%s' % (o, '_'.join(map(str, idx))), list(p.pc), _nd_get(res, idx), exp(arg) * pooled, fn,
                                    finding_key='C10/scramble/value'))
        return out
    return go()


def c14_array_file_wiring():
    """Numerics.array_to_file / array_from_file (the generic writer/reader): comments ('# ' + stripped text), one line with every extent of data.shape,
    masked arrays written through .filled(), the entries by data.tofile(fid, ' ', '%.<precision>g') (numpy writes in logical order), a final newline;
    a file name is opened and closed, an open file object is used as it is and left open.  The reader strips the comments, reads the extents from the
    first non-comment line, then count = prod(shape) numbers with sep=' ' and reshapes to that shape; comments returned on request."""
    oid = 'C14/Numerics.py:array_file'
    out = []
    fnw, fnr = 'dadi/Numerics.py::array_to_file', 'dadi/Numerics.py::array_from_file'

    @guarded(oid, fnw)
    def go():
        import os as _os
        for given_name in (True, False):
            for masked in (False, True):
                tag = '%s.to_file.%s.%s' % (oid, 'name' if given_name else 'fileobj', 'masked' if masked else 'plain')
                log, opened = [], []
                fid = Tm('fid')
                fid.attrs['write'] = PyFn(lambda s_: log.append(('write', s_)), 'fid.write')
                fid.attrs['close'] = PyFn(lambda: log.append(('close',)), 'fid.close')
                data = Tm('data')
                data.attrs['shape'] = (2, 3)

                def tofile(*a, _who='data'):
                    log.append(('tofile', _who, list(a)))
                data.attrs['tofile'] = PyFn(tofile, 'data.tofile')
                if masked:
                    filled = Tm('filled')
                    filled.attrs['tofile'] = PyFn(lambda *a: log.append(('tofile', 'filled', list(a))), 'filled.tofile')
                    filled.attrs['shape'] = (2, 3)
                    data.attrs['filled'] = PyFn(lambda: filled, 'data.filled')

                def ah(ex_, fref, a, kw, ctx):
                    return NotImplemented
                ex = Executor()
                ex.abstract_hook = ah
                ex.builtins['open'] = PyFn(lambda *a, **k: (opened.append(list(a)), fid)[1], 'open')

                def hasattr_(o, n):
                    if o is fid or isinstance(o, Tm):
                        return n in o.attrs
                    return hasattr(o, n) if not isinstance(o, str) else hasattr('', n)
                ex.builtins['hasattr'] = PyFn(hasattr_, 'hasattr')
                f = ex.func('dadi/Numerics.py', 'array_to_file')
                paths = ex.run(f, [data, 'arr.txt' if given_name else fid], dict(precision=17, comment_lines=VList([' note '])))
                if len(paths) != 1 or paths[0].outcome != 'return':
                    out.append(struct(tag, False, 'expected one returning path: %r' % paths[:2], fnw, undecided=True))
                    continue
                nl = '<os.linesep>'
                piece = lambda v: v if isinstance(v, str) else (nl if 'linesep' in vrepr(v) else '<%s>' % vrepr(v))
                tf = [x for x in log if x[0] == 'tofile']
                k = [i for i, x in enumerate(log) if x[0] == 'tofile']
                before = ''.join(piece(x[1]) for x in log[:k[0]] if x[0] == 'write') if k else None
                after = ''.join(piece(x[1]) for x in log[k[0] + 1:] if x[0] == 'write') if k else None
                out.append(struct(tag + '.header', before == '# note' + nl + '2 3 ' + nl and after == nl, 'comment, extents line, entries, final newline (before %r, after %r)' % (before, after), fnw))
                okt = len(tf) == 1 and tf[0][1] == ('filled' if masked else 'data') and tf[0][2][0] is fid and tf[0][2][1:] == [' ', '%.17g']
                out.append(struct(tag + '.entries', bool(okt), "%s.tofile(fid, ' ', '%%.17g')" % ('data.filled()' if masked else 'data'), fnw))
                closes = [x for x in log if x[0] == 'close']
                out.append(struct(tag + '.open-close', (opened == [['arr.txt', 'w']] and len(closes) == 1) if given_name else (not opened and not closes), 'a name is opened for writing and closed; a file object is left open', fnw))
        for given_name in (True, False):
            tag = '%s.from_file.%s' % (oid, 'name' if given_name else 'fileobj')
            lines = iter(['# a\n', '#b \n', '2 3\n'])
            log, opened, reads = [], [], []
            fid = Tm('fid')
            fid.attrs['readline'] = PyFn(lambda: next(lines, ''), 'fid.readline')
            fid.attrs['read'] = PyFn(lambda *a: '', 'fid.read')
            fid.attrs['close'] = PyFn(lambda: log.append('close'), 'fid.close')

            def ah(ex_, fref, a, kw, ctx):
                nm = vrepr(fref)
                if 'fromfile' in nm:
                    reads.append((list(a), dict(kw)))
                    t = Tm('flat')
                    t.attrs['reshape'] = PyFn(lambda *shp: (reads.append(('reshape', tuple(exact(x) for x in shp))), Tm('shaped'))[1], 'reshape')
                    return t
                return NotImplemented
            ex = Executor()
            ex.abstract_hook = ah
            ex.builtins['open'] = PyFn(lambda *a, **k: (opened.append(list(a)), fid)[1], 'open')
            ex.builtins['hasattr'] = PyFn(lambda o, n: (n in o.attrs) if isinstance(o, Tm) else hasattr(o, n), 'hasattr')
            f = ex.func('dadi/Numerics.py', 'array_from_file')
            paths = ex.run(f, ['arr.txt' if given_name else fid], dict(return_comments=True))
            if len(paths) != 1 or paths[0].outcome != 'return':
                out.append(struct(tag, False, 'expected one returning path: %r' % paths[:2], fnr, undecided=True))
                continue
            val, comments = paths[0].value
            okr = len(reads) == 2 and reads[0][0][0] is fid and exact(reads[0][1].get('count')) == 6 and reads[0][1].get('sep') == ' ' and reads[1] == ('reshape', (2, 3))
            out.append(struct(tag + '.entries', bool(okr), "fromfile(fid, count=6, sep=' ').reshape(2, 3): %s" % (reads,), fnr))
            out.append(struct(tag + '.comments', list(ex.iterate(comments)) == ['a', 'b'] and isinstance(val, Tm) and val.op == 'shaped', 'comments without # and blanks: %s' % list(ex.iterate(comments)), fnr))
            out.append(struct(tag + '.open-close', (opened == [['arr.txt', 'r']] and log == ['close']) if given_name else (not opened and not log), 'a name is opened for reading and closed; a file object is left open', fnr))
        return out
    return go()


def c11_anscombe():
    """Anscombe_Poisson_residual(model, data) per entry (model m > 0, data d > 0; x^p uninterpreted):
         3/2 * ( (m^(2/3) - m^(-1/3)/9) - (d^(2/3) - d^(-1/3)/9) ) / m^(1/6)      -- positive where the model exceeds the data, as the linear residual;
    with mask=c the entry is masked iff (m <= c and d <= c) or d == 0."""
    oid = 'C11/Inference.py:Anscombe_Poisson_residual'
    fn = 'dadi/Inference.py::Anscombe_Poisson_residual'

    @guarded(oid, fn)
    def go():
        m, d, c = z3.Reals('m d cut')
        hy = [m > 0, d > 0]
        pw = uf('pow', 2)
        q = lambda a, b: z3.Q(a, b)
        want = q(3, 2) * ((pw(m, q(2, 3)) - pw(m, q(-1, 3)) / 9) - (pw(d, q(2, 3)) - pw(d, q(-1, 3)) / 9)) / pw(m, q(1, 6))
        hy = hy + [pw(m, q(1, 6)) > 0]          # a positive base has a positive power (instance of the axiom used)
        ex = Executor()
        f = ex.func('dadi/Inference.py', 'Anscombe_Poisson_residual')
        out = []
        p = ex.run(f, [m, d], {}, base_pc=hy)
        if len(p) != 1 or p[0].outcome != 'return' or not is_scalar(exact(p[0].value)):
            out.append(struct(oid + '.formula', False, 'expected one returning path with a scalar: %r' % p[:2], fn, undecided=True))
        else:
            out.append(prove_eq(oid + '.formula', hy + list(p[0].pc), p[0].value, want, fn))
        p = ex.run(f, [m, d], dict(mask=c), base_pc=hy)
        ok = len(p) == 1 and p[0].outcome == 'return'
        v = p[0].value if ok else None
        inner = v
        neg = False
        if isinstance(inner, Tm) and inner.op == 'neg':
            inner, neg = inner.args[0], True
        okm = isinstance(inner, Tm) and 'masked_where' in inner.op and len(inner.args) == 2
        if not okm:
            out.append(struct(oid + '.mask', False, 'result is not masked_where(cond, residual): %s' % vrepr(v)[:200], fn))
        else:
            cond, val = inner.args
            cond = cond if isinstance(cond, z3.ExprRef) else z3.BoolVal(bool(cond))
            out.append(prove(oid + '.mask', hy + list(p[0].pc), cond == z3.Or(z3.And(m <= c, d <= c), d == 0), fn))
            sval = -to_real(exact(val)) if neg else to_real(exact(val))
            out.append(prove_eq(oid + '.masked-value', hy + list(p[0].pc), sval, want, fn))
        return out
    return go()


def c05_admix_props(K):
    """Spectrum._from_phi_KD_admix_props on a 2-point grid per axis (all grid points, phi values and the K x K proportion matrix A symbolic), sample
    sizes all 1:  entry idx = tensor trapezoid rule of  prod_p  B(1, idx_p; sum_q A[p][q] x_q)  phi   where B(n, d; u) = C(n,d) u^d (1-u)^(n-d)
    -- sampled individual p draws from population q with probability A[p][q]."""
    oid = 'C05/Spectrum_mod.py:Spectrum._from_phi_%dD_admix_props' % K
    fn = 'dadi/Spectrum_mod.py::Spectrum._from_phi_%dD_admix_props' % K

    @guarded(oid, fn)
    def go():
        G = 2
        ns = (1,) * K
        grids = [reals('%s_' % GRIDS[a], G) for a in range(K)]
        hy = [g[0] < g[1] for g in grids]
        A = [[z3.Real('A%d%d' % (p, q)) for q in range(K)] for p in range(K)]
        f0 = {i: z3.Real('phi' + '_'.join(map(str, i))) for i in itertools.product(*[range(G)] * K)}
        phi = _nd_build((G,) * K, lambda i: f0[i])

        def ah(ex_, fref, a, kw, ctx):
            if (isinstance(fref, ClassRef) and fref.node.name == 'Spectrum') or (isinstance(fref, Tm) and 'Spectrum' in fref.op):
                return a[0]
            return NotImplemented
        ex = Executor(policy=lambda fr: 'inline' if fr.qualname == 'Spectrum._from_phi_%dD_admix_props' % K else 'abstract')
        ex.abstract_hook = ah
        f = ex.func('dadi/Spectrum_mod.py', 'Spectrum._from_phi_%dD_admix_props' % K)
        ap = tuple(tuple(r) for r in A)
        paths = ex.run(f, list(ns) + [VList(list(g), 'ndarray') for g in grids] + [phi], dict(mask_corners=False, admix_props=ap), base_pc=hy)
        if len(paths) != 1 or paths[0].outcome != 'return':
            return [struct(oid, False, 'expected one returning path: %r' % paths[:2], fn, undecided=True)]
        res = paths[0].value
        shape = tuple(n + 1 for n in ns)
        got_shape = ex.list_method(res, 'shape') if isinstance(res, VList) else None
        out = [struct(oid + '.shape', got_shape == shape, 'shape %s (got %s)' % (shape, got_shape), fn)]
        if got_shape != shape:
            return out
        w = [_trapz_weights(g) for g in grids]
        for idx in itertools.product(*[range(s) for s in shape]):
            want = z3.RealVal(0)
            for gp in f0:
                t = f0[gp]
                for a in range(K):
                    t = t * w[a][gp[a]]
                for p in range(K):
                    u = sum((A[p][q] * grids[q][gp[q]] for q in range(K)), z3.RealVal(0))
                    t = t * (u if idx[p] == 1 else (1 - u))
                want = want + t
            out.append(prove_eq('%s.entry%s' % (oid, '_'.join(map(str, idx))), hy + list(paths[0].pc), _nd_get(res, idx), want, fn, z3_first_ms=500))
        return out
    return go()


def c06_new_pop_exec(q, G=2):
    """PhiManip constructors phi_2D_to_3D_admix / phi_3D_to_4D / phi_4D_to_5D executed on a 2-point-per-axis grid, helper answered by an abstract
    result (bracket indices concrete and different per grid point, fractions / normalisation symbolic):
      * helper gets phi, the fractions of populations 1..K-1 in population order (the last one implied), the K grids in order and the new grid;
      * new phi[i.., j] = frac_lower*norm at j = lower bracket of grid point i.., frac_upper*norm at the upper bracket, 0 elsewhere
        (every existing grid point keeps its own bracket: no index is transposed)."""
    oid = 'C06/PhiManip.py:%s/exec%s' % (q, '' if G == 2 else '.G%d' % G)
    fn = 'dadi/PhiManip.py::' + q

    @guarded(oid, fn)
    def go():
        K = {'phi_2D_to_3D_admix': 2, 'phi_3D_to_4D': 3, 'phi_4D_to_5D': 4}[q]
        shape = (G,) * K
        f0 = {i: z3.Real('phi' + '_'.join(map(str, i))) for i in itertools.product(*[range(G)] * K)}
        phi = _nd_build(shape, lambda i: f0[i])
        fr = [z3.Real('f%d' % (k + 1)) for k in range(K - 1)]
        grids = [VList(reals('%s_' % GRIDS[a], G), 'ndarray') for a in range(K + 1)]
        import random as _random
        _r = _random.Random(20261004 + 89 * K)       # bracket indices in general position (fixed pseudo-random table)
        low = {i: _r.randrange(G) for i in sorted(f0)}
        up = {i: (low[i] + 1) % G for i in f0}
        FL = {i: z3.Real('fl' + '_'.join(map(str, i))) for i in f0}
        FU = {i: z3.Real('fu' + '_'.join(map(str, i))) for i in f0}
        NM = {i: z3.Real('nm' + '_'.join(map(str, i))) for i in f0}
        helper = []

        def pol(frf):
            if frf.qualname.endswith('_admixture_intermediates'):
                def h(ex_, f_, a, kw):
                    helper.append((frf.qualname, list(a)))
                    return (_nd_build(shape, lambda i: low[i]), _nd_build(shape, lambda i: up[i]), _nd_build(shape, lambda i: FL[i]),
                            _nd_build(shape, lambda i: FU[i]), _nd_build(shape, lambda i: NM[i]))
                return h
            return 'inline' if frf.qualname == q else 'abstract'
        ex = Executor(policy=pol)
        f = ex.func('dadi/PhiManip.py', q)
        paths = ex.run(f, [phi] + fr + grids, {})
        if len(paths) != 1 or paths[0].outcome != 'return' or len(helper) != 1:
            return [struct(oid, False, 'expected one returning path with one helper call: %r helper=%s' % (paths[:2], [h[0] for h in helper]), fn, undecided=True)]
        out = []
        pc = list(paths[0].pc)
        hn, ha = helper[0]
        names = {2: '_two_pop', 3: '_three_pop', 4: '_four_pop'}
        out.append(struct(oid + '.helper', hn == names[K] + '_admixture_intermediates' and ha[0] is phi, 'helper %s on phi' % hn, fn))
        fargs, gargs = ha[1:K], ha[K:]
        out.append(struct(oid + '.helper-grids', len(gargs) == K + 1 and all(gargs[a] is grids[a] for a in range(K + 1)), 'the K grids in population order, then the new grid', fn))
        for k in range(K - 1):
            out.append(prove_eq('%s.helper-fraction%d' % (oid, k + 1), pc, fargs[k], fr[k], fn))
        res = paths[0].value
        new_shape = shape + (G,)
        got_shape = ex.list_method(res, 'shape') if isinstance(res, VList) else None
        out.append(struct(oid + '.shape', got_shape == new_shape, 'shape %s (got %s)' % (new_shape, got_shape), fn))
        if got_shape != new_shape:
            return out
        for i in f0:
            for j in range(G):
                want = z3.RealVal(0)
                if j == low[i]:
                    want = want + FL[i] * NM[i]
                if j == up[i]:
                    want = want + FU[i] * NM[i]
                out.append(prove_eq('%s.entry%s' % (oid, '_'.join(map(str, i + (j,)))), pc, _nd_get(res, i + (j,)), want, fn, finding_key='C06/new-pop-exec/%s' % q))
        return out
    return go()


def c18_subsample_draw():
    """LowPass.subsample_genotypes_1D: the random reordering of the called genotypes.  Library axioms (numpy.random.Generator documentation):
    permuted(x, axis=1) permutes every row independently and returns a new array; shuffle(x, axis=1) and permutation(x, axis=1) apply ONE
    permutation of the columns to all rows.  Contract on every random call site of the function (at least one): it is rng.permuted(loci, axis=1)
    -- an independent draw of individuals at every locus -- and its result is what gets sliced.  Mechanical extraction: the call expression only,
    evaluated with `loci_with_calls` an opaque array; other free names make the obligation undecided."""
    oid = 'C18/LowPass.py:subsample_genotypes_1D/draw'
    fn = 'dadi/LowPass/LowPass.py::subsample_genotypes_1D'
    out = []
    mod = ModInfo.load('dadi/LowPass/LowPass.py')
    node = mod.funcs.get('subsample_genotypes_1D')
    if node is None:
        return [struct(oid, False, 'function not found', fn, undecided=True)]
    rnd = ('permuted', 'shuffle', 'permutation', 'choice', 'choices', 'sample', 'integers', 'randint', 'random')
    sites = [c for c in ast.walk(node) if isinstance(c, ast.Call) and isinstance(c.func, ast.Attribute) and c.func.attr in rnd]
    out.append(struct(oid + '.sites', len(sites) >= 1, '%d random call(s) in the function' % len(sites), fn, finding_key='C18/subsample-draw'))
    for si, call in enumerate(sites):
        o = '%s.site%d' % (oid, si)
        m = call.func.attr
        kws = {k.arg: k.value for k in call.keywords}
        axis = kws.get('axis', call.args[1] if len(call.args) > 1 else None)
        axis_v = axis.value if isinstance(axis, ast.Constant) else None
        if m == 'permuted':
            ok = axis_v == 1 and len(call.args) >= 1 and 'out' not in kws
            out.append(struct(o, ok, 'rng.permuted(loci, axis=1): every locus permuted independently' if ok else 'permuted with axis=%r' % (axis_v,), fn,
                              finding_key='C18/subsample-draw'))
        elif m in ('shuffle', 'permutation'):
            out.append(struct(o, False, 'rng.%s applies one permutation of the individuals to every locus: the loci are not subsampled independently' % m, fn,
                              finding_key='C18/subsample-draw'))
        else:
            out.append(struct(o, False, 'a draw this contract does not cover: %s' % m, fn, undecided=True))
    # the value that is sliced to n_subsampling // 2 columns is the permuted array
    perm_names = set()
    for st in ast.walk(node):
        if isinstance(st, ast.Assign) and isinstance(st.value, ast.Call) and isinstance(st.value.func, ast.Attribute) and st.value.func.attr == 'permuted':
            perm_names |= {t.id for t in st.targets if isinstance(t, ast.Name)}
    appended = [c.args[0] for c in ast.walk(node) if isinstance(c, ast.Call) and isinstance(c.func, ast.Attribute) and c.func.attr == 'append' and c.args]

    def base_name(e):
        while isinstance(e, ast.Subscript):
            e = e.value
        if isinstance(e, ast.Call) and isinstance(e.func, ast.Attribute) and e.func.attr == 'permuted':
            return '<permuted>'
        return e.id if isinstance(e, ast.Name) else None
    inputs = {c.args[0].id for c in sites if c.args and isinstance(c.args[0], ast.Name)}
    if appended:
        bases = [base_name(a) for a in appended]
        okb = all(b in perm_names | {'<permuted>'} for b in bases)
        stale = [b for b in bases if b in inputs and b not in perm_names]
        out.append(struct(oid + '.uses-permuted', okb, 'the collected columns are taken from the permuted array' if okb else
                          ('columns are taken from %s, the array handed to the random call, not from its permuted result' % stale if stale else
                           'cannot tell where the collected columns %s come from' % bases), fn, finding_key='C18/subsample-draw',
                          undecided=(not okb and not stale)))
    return out


def c18_part_inbreeding():
    """LowPass.part_inbreeding_probability(parts, F) for 0 < F < 1 (BetaBinomln uninterpreted): partition i with genotype counts (n00, n01, n11) of n
    individuals has weight   n!/(n00! n01! n11!) * p00^n00 p01^n01 p11^n11,   p_g = exp(BetaBinomln(g, 2, alpha, beta)),
    alpha = p (1-F)/F, beta = (1-p)(1-F)/F, p = (2 n11 + n01)/(2n)  (weight 1 for the monomorphic partitions); the result is the weights normalised
    to sum to one.  The multinomial coefficient counts the orderings of the individuals and must be there."""
    oid = 'C18/LowPass.py:part_inbreeding_probability'
    fn = 'dadi/LowPass/LowPass.py::part_inbreeding_probability'

    @guarded(oid, fn)
    def go():
        import math
        out = []
        Fx = z3.Real('F')
        hy = [Fx > 0, Fx < 1]
        BB = uf('BetaBinomln', 4)
        exp = uf('exp')
        for name, parts in (('n2.k2', [[0, 2], [1, 1]]), ('n3.k3', [[0, 1, 2], [1, 1, 1]]), ('n3.k2', [[0, 0, 2], [0, 1, 1]]), ('n2.k0', [[0, 0]])):
            def pol(fr):
                if fr.qualname == 'BetaBinomln':
                    return lambda ex_, f_, a, kw: BB(*[to_real(exact(x)) for x in a])
                return 'inline' if fr.qualname == 'part_inbreeding_probability' else 'abstract'
            ex = Executor(policy=pol)
            f = ex.func('dadi/LowPass/LowPass.py', 'part_inbreeding_probability')
            paths = ex.run(f, [VList([VList(list(p_)) for p_ in parts]), Fx], {}, base_pc=hy)
            tag = '%s.%s' % (oid, name)
            if len(paths) != 1 or paths[0].outcome != 'return':
                out.append(struct(tag, False, 'expected one returning path: %r' % paths[:2], fn, undecided=True))
                continue
            res = ex.iterate(paths[0].value)
            ws = []
            for p_ in parts:
                n = len(p_)
                n00, n01, n11 = p_.count(0), p_.count(1), p_.count(2)
                if sum(p_) == 0 or sum(p_) == 2 * n:
                    ws.append(z3.RealVal(1))
                    continue
                pf = z3.Q(2 * n11 + n01, 2 * n)
                al, be = pf * ((1 - Fx) / Fx), (1 - pf) * ((1 - Fx) / Fx)
                pg = [exp(BB(z3.RealVal(g), z3.RealVal(2), al, be)) for g in range(3)]
                coef = math.factorial(n) // (math.factorial(n00) * math.factorial(n01) * math.factorial(n11))
                ws.append(coef * _pw(pg[0], n00) * _pw(pg[1], n01) * _pw(pg[2], n11))
            tot = sum(ws, z3.RealVal(0))
            out.append(struct(tag + '.length', len(res) == len(parts), 'one probability per partition', fn))
            for i in range(min(len(res), len(parts))):
                out.append(prove_eq('%s.partition%d' % (tag, i), hy + list(paths[0].pc) + [tot != 0], res[i], ws[i] / tot, fn))
        return out
    return go()


def c17_vourlaki_mixture():
    """Vourlaki2022.Vourlaki_mixture(params, ns, s1, s2, theta, pts) as a linear combination of cached quantities (coefficients compared exactly):
         theta * [ (1-w)(1-c) m5 + (1-w) c (1-cp) m6 + w ((1-c) + c cp) S[g+,g+]
                   + (1-w) c cp ( trapz_g pdf(-g) S[g, g+] + S[g_0, g+] W_del + S[g_-1, g+] W_neu )           (pop 1 negative, pop 2 positive)
                   + w c (1-cp) ( trapz_g pdf(-g) S[g+, g] + S[g+, g_0] W_del + S[g+, g_-1] W_neu ) ]         (pop 1 positive, pop 2 negative)
       with w = ppos_wild, c = pchange, cp = pchange_pos, m5 = s1.integrate([alpha,beta], gamma pdf, theta 1), m6 = s2.integrate(..., biv_ind_gamma,
       exterior_int=True), W_del = int_{-g_0}^{inf} gamma pdf, W_neu = int_0^{-g_-1} gamma pdf: each tail weight goes with ITS OWN block of spectra."""
    oid = 'C17/Vourlaki2022.py:Vourlaki_mixture'
    fn = 'dadi/DFE/Vourlaki2022.py::Vourlaki_mixture'

    @guarded(oid, fn)
    def go():
        quads = {}

        def ah(ex_, fref, a, kw, ctx):
            nm = vrepr(fref)
            if 'quad' in nm:
                W = z3.Real('W%d' % len(quads))
                quads[W.decl().name()] = (vrepr(a[0]), vrepr(a[1]), vrepr(a[2]), vrepr(kw.get('args')))
                t = Tm('quadres')
                t.attrs['__items__'] = [W, Tm('err')]
                t.attrs['__len__'] = 2
                return t
            return NotImplemented
        ex = Executor()
        ex.abstract_hook = ah
        f = ex.func('dadi/DFE/Vourlaki2022.py', 'Vourlaki_mixture')
        al, be, w, gp, c, cp = [z3.Real(n_) for n_ in 'alpha beta ppos_wild gamma_pos pchange pchange_pos'.split()]
        s1, s2 = Tm('s1'), Tm('s2')
        g = reals('g', 2)
        s2.attrs['neg_gammas'] = VList(list(g), 'ndarray')
        theta = z3.Real('theta')
        paths = ex.run(f, [(al, be, w, gp, c, cp), None, s1, s2, theta, None], {})
        rets = [p for p in paths if p.outcome == 'return']
        if len(rets) != 1:
            return [struct(oid, False, 'expected one returning path: %r' % paths[:3], fn, undecided=True)]
        lf = linear_form(rets[0].value)
        pc = list(rets[0].pc)
        out = []
        EQ = 'cmp:Eq(attr:gammas(s2), gamma_pos)'
        NP = 'call:lib:numpy.squeeze(getitem(attr:spectra(s2), (slice(None, 2, None), %s)))' % EQ      # pop 1 negative, pop 2 positive
        PN = 'call:lib:numpy.squeeze(getitem(attr:spectra(s2), (%s, slice(None, 2, None))))' % EQ      # pop 1 positive, pop 2 negative
        wdel = [n_ for n_, q in quads.items() if 'PDFs.gamma' in q[0] and q[1] == vrepr(-g[0]) and q[2] == 'float:inf' and q[3] == '[alpha, beta]']
        wneu = [n_ for n_, q in quads.items() if 'PDFs.gamma' in q[0] and q[1] == '0' and q[2] == vrepr(-g[1]) and q[3] == '[alpha, beta]']
        out.append(struct(oid + '.tail-integrals', len(wdel) == 1 and len(wneu) == 1 and len(quads) == 2, 'W_del = quad(gamma pdf, -g_0, inf), W_neu = quad(gamma pdf, 0, -g_-1), args [alpha, beta]: %s' % quads, fn))
        if len(wdel) != 1 or len(wneu) != 1:
            return out
        Wd, Wn = z3.Real(wdel[0]), z3.Real(wneu[0])
        A7, A4 = theta * (1 - w) * c * cp, theta * w * c * (1 - cp)
        roles = [
            ('m5', lambda k: k.startswith('call:attr:integrate(s1)([alpha, beta], None, <func dadi.DFE.PDFs.gamma>, 1, None'), theta * (1 - w) * (1 - c)),
            ('m6', lambda k: k.startswith('call:attr:integrate(s2)([alpha, beta], None, <func dadi.DFE.PDFs.biv_ind_gamma>, 1, None') and "('kw', 'exterior_int', True)" in k, theta * (1 - w) * c * (1 - cp)),
            ('both-positive', lambda k: k == 'getitem(getitem(attr:spectra(s2), (%s, %s)), 0)' % (EQ, EQ), theta * w * ((1 - c) + c * cp)),
            ('neg-pos.trapz', lambda k: k.startswith('call:lib:numpy.trapz(op:Mult(') and NP in k and PN not in k and 'PDFs.gamma([-1*g0, -1*g1], [alpha, beta])' in k, A7),
            ('neg-pos.deleterious-tail', lambda k: k == 'getitem(%s, 0)' % NP, A7 * Wd),
            ('neg-pos.neutral-tail', lambda k: k == 'getitem(%s, -1)' % NP, A7 * Wn),
            ('pos-neg.trapz', lambda k: k.startswith('call:lib:numpy.trapz(op:Mult(') and PN in k and NP not in k and 'PDFs.gamma([-1*g0, -1*g1], [alpha, beta])' in k, A4),
            ('pos-neg.deleterious-tail', lambda k: k == 'getitem(%s, 0)' % PN, A4 * Wd),
            ('pos-neg.neutral-tail', lambda k: k == 'getitem(%s, -1)' % PN, A4 * Wn),
        ]
        used = set()
        for name, pred, want in roles:
            ks = [k for k in lf if pred(k)]
            if len(ks) != 1:
                out.append(struct('%s.%s' % (oid, name), False, 'expected exactly one term of this kind, found %d: %s' % (len(ks), [k[:120] for k in ks]), fn))
                continue
            used.add(ks[0])
            out.append(prove_eq('%s.%s' % (oid, name), pc, lf[ks[0]][1], want, fn))
        extra = [k for k in lf if k not in used]
        out.append(struct(oid + '.no-other-terms', not extra, 'no further terms' if not extra else 'unexpected terms: %s' % [k[:120] for k in extra], fn))
        return out
    return go()


def _bind_method_call(t, relpath, qual):
    """bind the arguments of an opaque method-call term (positional values and ('kw', name, value) triples) to the formal parameters of the real
    method `qual` of `relpath` (self dropped); parameters not given get their default from the source (constants only)."""
    mod = ModInfo.load(relpath)
    node = mod.funcs[qual]
    formals = [a.arg for a in node.args.args][1:]
    defaults = node.args.defaults
    dflt = {}
    for a, dv in zip(formals[len(formals) - len(defaults):], defaults):
        dflt[a] = dv.value if isinstance(dv, ast.Constant) else Tm('default:' + ast.dump(dv)[:40])
    pos = [x for x in t.args if not (isinstance(x, tuple) and len(x) == 3 and x[0] == 'kw')]
    kws = {x[1]: x[2] for x in t.args if isinstance(x, tuple) and len(x) == 3 and x[0] == 'kw'}
    if len(pos) > len(formals) or set(kws) - set(formals) or set(kws) & set(formals[:len(pos)]):
        raise Unsupported('call does not fit the signature of %s: %s' % (qual, vrepr(t)[:120]))
    b = dict(dflt)
    b.update(zip(formals, pos))
    b.update(kws)
    missing = [f_ for f_ in formals if f_ not in b]
    if missing:
        raise Unsupported('call of %s leaves %s unbound' % (qual, missing))
    return b


def c17_mixture_functions():
    """Cache2D_mod.mixture / mixture_symmetric_point_pos / mixture_point_pos (2 shared pdf parameters, everything symbolic):
         result = (1 - p2d) * s1.<1-D integral> + p2d * s2.<2-D integral>          (exact linear combination, nothing else)
    and every argument reaches the *formal parameter it is meant for* in the real signatures of the cache methods (bound by name from the source):
      1-D part: params = the shared parameters (+ [ppos1, gamma_pos1] for the point-mass variants), ns None, the univariate distribution, theta,
                Npos = 1 / exterior_int forwarded;
      2-D part: params = shared + [rho] (+ the point-mass parameters in the documented order), the bivariate distribution, theta, and for
                integrate_point_pos the keyword rho = the correlation parameter (it selects the quadrant weights), pts None."""
    oid = 'C17/Cache2D_mod.py:mixtures'
    out = []
    C1, C2 = 'dadi/DFE/Cache1D_mod.py', 'dadi/DFE/Cache2D_mod.py'
    for fname in ('mixture', 'mixture_symmetric_point_pos', 'mixture_point_pos'):
        fn = 'dadi/DFE/Cache2D_mod.py::' + fname
        o = '%s.%s' % (oid, fname)
        try:
            ex = Executor()
            f = ex.func(C2, fname)
            a_, b_ = z3.Reals('mu sigma')
            rho, pp1, gp1, pp2, gp2, p2d, pp, gp = z3.Reals('rho ppos1 gamma_pos1 ppos2 gamma_pos2 p2d ppos gamma_pos')
            theta = z3.Real('theta')
            ext = z3.Bool('exterior_int')
            s1, s2, d1, d2 = Tm('s1'), Tm('s2'), Tm('sel_dist1'), Tm('sel_dist2')
            if fname == 'mixture':
                params = [a_, b_, rho, p2d]
                kw = dict(exterior_int=ext)
                want1 = ('Cache1D.integrate', dict(params=[a_, b_], ns=None, sel_dist=d1, theta=theta, exterior_int=ext))
                want2 = ('Cache2D.integrate', dict(params=[a_, b_, rho], ns=None, sel_dist=d2, theta=theta, exterior_int=ext))
            elif fname == 'mixture_symmetric_point_pos':
                params = [a_, b_, rho, pp, gp, p2d]
                kw = {}
                want1 = ('Cache1D.integrate_point_pos', dict(params=[a_, b_, pp, gp], ns=None, sel_dist=d1, theta=theta, Npos=1))
                want2 = ('Cache2D.integrate_symmetric_point_pos', dict(params=[a_, b_, rho, pp, gp], ns=None, biv_seldist=d2, theta=theta))
            else:
                params = [a_, b_, rho, pp1, gp1, pp2, gp2, p2d]
                kw = {}
                want1 = ('Cache1D.integrate_point_pos', dict(params=[a_, b_, pp1, gp1], ns=None, sel_dist=d1, theta=theta, Npos=1))
                want2 = ('Cache2D.integrate_point_pos', dict(params=[a_, b_, rho, pp1, gp1, pp2, gp2], ns=None, biv_seldist=d2, theta=theta, rho=rho))
            paths = ex.run(f, [VList(list(params), 'ndarray'), Tm('ns'), s1, s2, d1, d2, theta, Tm('pts')], kw)
            rets = [p for p in paths if p.outcome == 'return']
            if len(rets) != 1 or len(paths) != 1:
                out.append(struct(o, False, 'expected one returning path: %r' % paths[:2], fn, undecided=True))
                continue
            p = rets[0]
            calls = [e[2] for e in p.log if e[0] == 'call' and isinstance(e[2], Tm)]
            c1 = [t for t in calls if t.op.endswith('(s1)') and 'attr:' in t.op]
            c2 = [t for t in calls if t.op.endswith('(s2)') and 'attr:' in t.op]
            if len(c1) != 1 or len(c2) != 1:
                out.append(struct(o + '.calls', False, 'expected one call on each cache, got %s / %s' % ([t.op for t in c1], [t.op for t in c2]), fn, finding_key='C17/mixtures/' + fname))
                continue
            for tag, t, (qual, want), rp in (('1d', c1[0], want1, C1), ('2d', c2[0], want2, C2)):
                meth = qual.split('.')[1]
                bad = []
                if 'attr:%s(' % meth not in t.op:
                    bad.append('calls %s, expected %s' % (t.op, meth))
                else:
                    try:
                        b = _bind_method_call(t, rp, qual)
                    except KeyError:
                        out.append(struct('%s.%s' % (o, tag), False, 'method %s not found in %s' % (qual, rp), fn, undecided=True))
                        continue
                    goals = []
                    for k, w in want.items():
                        g = b.get(k)
                        if isinstance(w, list):
                            items = ex.iterate(g) if isinstance(g, (VList, list, tuple)) else None
                            if items is None or len(items) != len(w):
                                bad.append('%s is %s, expected %d values' % (k, vrepr(g)[:60], len(w)))
                            else:
                                goals += [(to_real(exact(x)) == y, '%s[%d]' % (k, i)) for i, (x, y) in enumerate(zip(items, w))]
                        elif isinstance(w, z3.ExprRef):
                            g = exact(g)
                            if isinstance(g, bool):
                                g = z3.BoolVal(g)
                            if not isinstance(g, z3.ExprRef) or z3.is_bool(g) != z3.is_bool(w):
                                bad.append('%s is %s' % (k, vrepr(g)[:40]))
                            else:
                                goals.append(((g == w) if z3.is_bool(w) else (to_real(g) == w), k))
                        elif w is None:
                            if g is not None:
                                bad.append('%s is %s, expected None' % (k, vrepr(g)[:40]))
                        elif isinstance(w, int):
                            if exact(g) != w:
                                bad.append('%s is %s, expected %r' % (k, vrepr(g)[:40], w))
                        elif g is not w:
                            bad.append('%s is %s, expected %s' % (k, vrepr(g)[:40], vrepr(w)))
                    mm = discharge(goals, list(p.pc))
                    if mm:
                        bad.append(mm)
                out.append(struct('%s.%s-arguments' % (o, tag), not bad, '; '.join(bad)[:400] or '%s(%s) each bound to its formal parameter' % (qual, ', '.join(sorted(want))), fn,
                                  finding_key='C17/mixtures/' + fname))
            lf = linear_form(p.value)
            k1 = [k for k in lf if lf[k][0] is c1[0] or k == vrepr(c1[0])]
            k2 = [k for k in lf if lf[k][0] is c2[0] or k == vrepr(c2[0])]
            if len(lf) != 2 or len(k1) != 1 or len(k2) != 1:
                out.append(struct(o + '.combination', False, 'result is not a combination of exactly the two integrals: %s' % [k[:60] for k in lf], fn, finding_key='C17/mixtures/' + fname))
                continue
            out.append(prove_eq(o + '.weight-1d', list(p.pc), lf[k1[0]][1], 1 - p2d, fn, finding_key='C17/mixtures/' + fname))
            out.append(prove_eq(o + '.weight-2d', list(p.pc), lf[k2[0]][1], p2d, fn, finding_key='C17/mixtures/' + fname))
        except (Unsupported, PyRaise) as e:
            out.append(struct(o, False, 'outside the modelled subset: %r' % (e,), fn, undecided=True))
    return out


def c16_check_linear():
    """Demes.IntegrationNonConst.check_linear on a recorded history of 5 time points (times t0 < .. < t4 symbolic, t0 NOT assumed 0; two populations):
    for a population whose recorded sizes lie exactly on the line through its first and last size, every size the function predicts for a checked
    step equals the recorded one (so the epoch is exported as linear); numpy.allclose is abstract and its two arguments are compared exactly;
    the steps checked lie strictly inside the history."""
    oid = 'C16/Demes/__init__.py:IntegrationNonConst.check_linear'
    fn = 'dadi/Demes/__init__.py::IntegrationNonConst.check_linear'

    @guarded(oid, fn)
    def go():
        n = 5
        ts = reals('t', n)
        A, B = z3.Reals('N_first N_last')
        other = reals('M', n)
        hy = [ts[i] < ts[i + 1] for i in range(n - 1)] + [A > 0, B > 0]
        lin = [A + (B - A) * (ts[i] - ts[0]) / (ts[n - 1] - ts[0]) for i in range(n)]
        lin[0], lin[n - 1] = A, B
        hist = VList([VList([ts[i], VList([lin[i], other[i]]), VList([])]) for i in range(n)])
        me = Tm('self')
        me.attrs.update(history=hist, duration=ts[n - 1] - ts[0])
        seen = []

        def ah(ex_, fref, a, kw, ctx):
            if 'allclose' in vrepr(fref):
                seen.append((a[0], a[1]))
                return True
            return NotImplemented
        ex = Executor()
        ex.abstract_hook = ah
        f = ex.func('dadi/Demes/__init__.py', 'IntegrationNonConst.check_linear')
        paths = ex.run(f, [me], {}, base_pc=hy)
        if len(paths) != 1 or paths[0].outcome != 'return':
            return [struct(oid, False, 'expected one returning path: %r' % paths[:2], fn, undecided=True)]
        pc = hy + list(paths[0].pc)
        mine = [(a, b) for a, b in seen if any(isinstance(exact(b), z3.ExprRef) and exact(b).eq(l) for l in lin)]
        out = [struct(oid + '.steps', len(mine) >= 2, '%d predictions compared with recorded sizes of the linear population' % len(mine), fn, finding_key='C16/check_linear')]
        goals = [(to_real(exact(a)) == to_real(exact(b)), 'predicted size at a checked step == recorded size') for a, b in mine]
        mm = discharge(goals, pc)
        out.append(struct(oid + '.prediction', mm is None, mm or 'for an exactly linear history every prediction equals the recorded size (whatever the first time stamp)', fn,
                          finding_key='C16/check_linear'))
        return out
    return go()


def c16_size_at():
    """DemesUtil._size_at(t, N0, N1, t0, t1, f) for t0 > t >= t1 (demes time runs backwards: the epoch starts at t0 with size N0 and ends at t1 with N1):
         constant    -> N0 (N0 == N1 asserted)
         exponential -> N0 * exp( log(N1/N0) * (t0 - t)/(t0 - t1) )
         linear      -> N0 + (N1 - N0) * (t0 - t)/(t0 - t1)
       so that the size is N0 at the epoch's start and N1 at its end (both end-point values are obligations of their own: they pin the direction in
       which the backwards time axis is read); any other size function is refused."""
    oid = 'C16/DemesUtil.py:_size_at'
    fn = 'dadi/Demes/DemesUtil.py::_size_at'

    @guarded(oid, fn)
    def go():
        t, N0, N1, t0, t1 = z3.Reals('t N0 N1 t0 t1')
        hy = [t0 > t1, t1 >= 0, t <= t0, t >= t1, N0 > 0, N1 > 0]
        E, L = uf('exp'), uf('log')
        out = []
        frac = (t0 - t) / (t0 - t1)
        for fname_, want, extra in (('constant', N0, [N0 == N1]), ('exponential', N0 * E(L(N1 / N0) * frac), []), ('linear', N0 + (N1 - N0) * frac, [])):
            ex = Executor()
            f = ex.func('dadi/Demes/DemesUtil.py', '_size_at')
            paths = ex.run(f, [t, N0, N1, t0, t1, fname_], {}, base_pc=hy + extra)
            rets = [p for p in paths if p.outcome == 'return']
            o = '%s.%s' % (oid, fname_)
            if len(rets) != 1 or len(paths) != 1:
                out.append(struct(o, False, 'expected one returning path: %r' % paths[:2], fn, undecided=True))
                continue
            p = rets[0]
            pc = hy + extra + list(p.pc)
            out.append(prove_eq(o + '.value', pc, p.value, want, fn, finding_key='C16/_size_at/' + fname_))
            if fname_ != 'constant':
                # end points (exp(0) = 1 and exp(log x) = x are the axioms used for the exponential form)
                ax = [E(z3.RealVal(0)) == 1, E(L(N1 / N0)) == N1 / N0]
                v0 = z3.substitute(to_real(exact(p.value)), (t, t0))
                v1 = z3.substitute(to_real(exact(p.value)), (t, t1))
                out.append(prove_eq(o + '.at-start', pc + ax, z3.simplify(v0), N0, fn, finding_key='C16/_size_at/' + fname_))
                out.append(prove_eq(o + '.at-end', pc + ax, z3.simplify(v1), N1, fn, finding_key='C16/_size_at/' + fname_))
        ex = Executor()
        f = ex.func('dadi/Demes/DemesUtil.py', '_size_at')
        paths = ex.run(f, [t, N0, N1, t0, t1, 'quadratic'], {}, base_pc=hy)
        out.append(struct(oid + '.other-refused', len(paths) == 1 and paths[0].outcome == 'raise', 'an unknown size function raises', fn))
        return out
    return go()


def c16_shift_deme_time():
    """DemesUtil._shift_deme_time(d, t) for a deme with two epochs (start S > E1 > E2 >= 0, every number symbolic, 0 < t < S), _size_at abstract
    (every call recorded).  On every path:
      * start_time becomes S - t; other keys are carried over;
      * epochs are kept, in order, up to and including the first one whose end time is <= t; each kept epoch's end time becomes max(0, end - t);
      * that last epoch's end size becomes _size_at(t, its start_size, its end_size, ITS OWN start time, its original end time, its size_function),
        where an epoch's own start time is the deme's start for the first epoch and the ORIGINAL end time of the previous epoch otherwise
        (not the shifted one);  epochs that end after t keep their sizes."""
    oid = 'C16/DemesUtil.py:_shift_deme_time'
    fn = 'dadi/Demes/DemesUtil.py::_shift_deme_time'

    @guarded(oid, fn)
    def go():
        S, E1, E2, t = z3.Reals('S E1 E2 t')
        hy = [S > E1, E1 > E2, E2 >= 0, t > 0, t < S]
        sz = {(i, w): z3.Real('%s_size%d' % (w, i)) for i in (1, 2) for w in ('start', 'end')}
        calls = []

        def pol(fr):
            if fr.qualname == '_size_at':
                def h(ex_, f_, a, kw):
                    r = z3.Real('size_at_%d' % (len(calls) + 1))
                    calls.append((list(a), r))
                    return r
                return h
            return 'inline' if fr.qualname == '_shift_deme_time' else 'abstract'
        ex = Executor(policy=pol, max_paths=64)
        f = ex.func('dadi/Demes/DemesUtil.py', '_shift_deme_time')
        other = Tm('name_value')

        def thunk(e):
            del calls[:]
            ep = [VDict({'start_size': sz[(i, 'start')], 'end_size': sz[(i, 'end')], 'end_time': (E1, E2)[i - 1], 'size_function': 'f%d' % i}) for i in (1, 2)]
            d = VDict({'name': other, 'start_time': S, 'epochs': VList(ep)})
            r = e.apply(f.node, None, f.mod, [d, t], {}, '_shift_deme_time')
            return r, [(list(a), rr) for a, rr in calls]
        paths = ex.explore(thunk, base_pc=hy)
        out = []
        rets = [p for p in paths if p.outcome == 'return']
        out.append(struct(oid + '.paths', len(rets) == len(paths) and len(rets) >= 3, '%d paths, all returning' % len(paths), fn, undecided=len(rets) != len(paths)))
        from vf import smt
        starts = {1: S, 2: E1}
        ends = {1: E1, 2: E2}
        for k, p in enumerate(rets):
            r, cs = p.value
            pc = list(hy) + list(p.pc)
            o = '%s.path%d' % (oid, k)
            if not isinstance(r, VDict) or not isinstance(r.d.get('epochs'), VList):
                out.append(struct(o, False, 'result is not a deme dictionary: %s' % vrepr(r)[:100], fn))
                continue
            # which epochs must survive on this path
            first_ends = smt.check(pc, E1 <= t, timeout_ms=3000, use_cli=False)['status'] == 'proved'
            first_open = smt.check(pc, E1 > t, timeout_ms=3000, use_cli=False)['status'] == 'proved'
            second_ends = smt.check(pc, E2 <= t, timeout_ms=3000, use_cli=False)['status'] == 'proved'
            second_open = smt.check(pc, E2 > t, timeout_ms=3000, use_cli=False)['status'] == 'proved'
            if not (first_ends or first_open) or (first_open and not (second_ends or second_open)):
                out.append(struct(o, False, 'the path does not decide where t falls', fn, undecided=True))
                continue
            keep = [1] if first_ends else [1, 2]
            last_cut = 1 if first_ends else (2 if second_ends else None)
            eps_ = r.d['epochs'].items
            ok_n = len(eps_) == len(keep) and all(isinstance(e_, VDict) for e_ in eps_)
            goals = [(to_real(exact(r.d.get('start_time', 0))) == S - t, 'start_time == S - t')]
            okk = r.d.get('name') is other
            if ok_n:
                for i, e_ in zip(keep, eps_):
                    want_end = z3.RealVal(0) if i == last_cut else ends[i] - t
                    goals.append((to_real(exact(e_.d['end_time'])) == want_end, 'epoch %d end_time' % i))
                    goals.append((to_real(exact(e_.d['start_size'])) == sz[(i, 'start')], 'epoch %d start_size kept' % i))
                    okk = okk and e_.d.get('size_function') == 'f%d' % i
                    if i == last_cut:
                        mine = [c for c in cs if c[1] is e_.d['end_size'] or (isinstance(e_.d['end_size'], z3.ExprRef) and c[1].eq(e_.d['end_size']))]
                        if len(mine) != 1 or len(mine[0][0]) != 6:
                            goals.append((z3.BoolVal(False), 'epoch %d end_size is the result of one _size_at call' % i))
                        else:
                            a = mine[0][0]
                            goals += [(to_real(exact(a[0])) == t, 'size at the slice time t'), (to_real(exact(a[1])) == sz[(i, 'start')], '_size_at start_size of epoch %d' % i),
                                      (to_real(exact(a[2])) == sz[(i, 'end')], '_size_at end_size of epoch %d' % i),
                                      (to_real(exact(a[3])) == starts[i], '_size_at start time = the epoch\'s own (unshifted) start'),
                                      (to_real(exact(a[4])) == ends[i], '_size_at end time = the epoch\'s original end'),
                                      (z3.BoolVal(a[5] == 'f%d' % i), '_size_at size_function of epoch %d' % i)]
                    else:
                        goals.append((to_real(exact(e_.d['end_size'])) == sz[(i, 'end')], 'epoch %d end_size kept' % i))
            mm = discharge(goals, pc) if ok_n else 'kept %d epochs, expected %s' % (len(eps_), keep)
            out.append(struct(o + ('.cut-in-epoch%s' % last_cut if last_cut else '.no-cut'), mm is None and okk, mm or ('other keys not carried over' if not okk else
                              'start time, kept epochs, shifted end times, end size at the slice time from the epoch\'s own time span'), fn, finding_key='C16/_shift_deme_time'))
        return out
    return go()


def c16_integration_event(K):
    """Event recording in the numerical layer (mechanism 5 of C16): what Integration.{one..five}_pops append to dadi.Demes.cache.
    For every T > initial_t (initial_t symbolic, not just 0) and every deme_ids value:
      * all parameters scalar (K = 1..3): exactly one IntegrationConst(duration = T - initial_t, start_sizes = [nu_1..nu_K],
        mig = [m_12, m_13, .., m_K(K-1)] row by row, deme_ids = the caller's) is appended before the constant-parameter integrator runs;
      * parameters functions of time, one time step (K = 1..5): exactly one IntegrationNonConst(history, deme_ids = the caller's) is appended;
        the history has one entry per time point, entry = [t, [nu_k(t)], [m_ij(t) row by row]]; the last time stamp minus the first is
        T - initial_t (this difference is what the event's duration becomes and what Demes.output turns into generations) and the sizes
        and rates of the first / last entry are those at initial_t / T."""
    name = {1: 'one_pop', 2: 'two_pops', 3: 'three_pops', 4: 'four_pops', 5: 'five_pops'}[K]
    oid = 'C16/Integration.py:%s/event-recorded' % name
    fn = 'dadi/Integration.py::' + name

    @guarded(oid, fn)
    def go():
        sfx = (lambda k: '') if K == 1 else (lambda k: str(k))
        T, t0 = z3.Reals('T t0')
        hy = [T > t0]
        ids = Tm('deme_ids')
        out = []
        pairs = [(i, j) for i in range(1, K + 1) for j in range(1, K + 1) if i != j]

        def policy(fr):
            if fr.qualname == 'ensure_1arg_func':
                return lambda ex_, f_, a, k_: a[0] if not is_scalar(exact(a[0])) else PyFn(lambda t, _c=a[0]: _c, 'const')
            if fr.qualname == '_compute_dt':
                def cdt(ex_, f_, a, k_):
                    d = ex_.ctx.fresh('dt')
                    ex_.ctx.pc.append(d >= T - t0)
                    ex_.ctx.pc.append(d > 0)
                    return d
                return cdt
            return 'abstract'

        def events(p):
            ev = [t for e in p.log if e[0] == 'call' and 'dadi.Demes.Integration' in str(e[1]) for t in [e[2]]]
            app = [e for e in p.log if e[0] == 'mutate' and e[2] == 'append' and isinstance(e[1], VList) and e[1].items and any(e[1].items[-1] is t for t in ev)]
            return ev, app

        def kwof(t):
            return {x[1]: x[2] for x in t.args if isinstance(x, tuple) and x and x[0] == 'kw'}

        def lst(v):
            return list(v.items) if isinstance(v, VList) else list(v)
        for mode in (['const'] if K <= 3 else []) + ['functions']:
            o = '%s.%s' % (oid, mode)
            ex = Executor(policy=policy, max_paths=64)
            ex.module_overrides[('dadi.Integration', 'cuda_enabled')] = False
            ex.module_overrides[('dadi.Integration', 'use_delj_trick')] = z3.Bool('use_delj_trick')
            f = ex.func('dadi/Integration.py', name)
            kw = dict(initial_t=t0, deme_ids=ids)
            fs = {}

            def val(nm):
                if mode == 'const':
                    fs[nm] = z3.Real(nm)
                    return fs[nm]
                g = uf(nm + '_of_t')
                fs[nm] = g
                return PyFn(lambda t, _g=g: _g(to_real(t)), nm + '_f')
            for k in range(1, K + 1):
                kw['nu' + sfx(k)] = val('nu' + sfx(k))
            for i, j in pairs:
                kw['m%d%d' % (i, j)] = val('m%d%d' % (i, j))
            at = (lambda nm, tt: fs[nm]) if mode == 'const' else (lambda nm, tt: fs[nm](tt))
            paths = ex.run(f, [Tm('phi'), Tm('xx'), T], kw, base_pc=hy)
            rets = [p for p in paths if p.outcome == 'return']
            if not rets:
                out.append(struct(o, False, 'no returning path: %r' % paths[:2], fn, undecided=True))
                continue
            for pi, p in enumerate(rets):
                op = '%s.path%d' % (o, pi)
                ev, app = events(p)
                want_cls = 'IntegrationConst' if mode == 'const' else 'IntegrationNonConst'
                one = len(ev) == 1 and want_cls in ev[0].op and len(app) == 1
                out.append(struct(op + '.one-event', one, 'exactly one %s constructed and appended to the event log (constructed: %s, appended: %d)'
                                  % (want_cls, [t.op for t in ev], len(app)), fn, finding_key='C16/event-recording/%s' % name))
                if not one:
                    continue
                d = kwof(ev[0])
                pos = [x for x in ev[0].args if not (isinstance(x, tuple) and x and x[0] == 'kw')]
                goals = []
                ok_ids = d.get('deme_ids') is ids
                if mode == 'const':
                    if 'duration' not in d and pos:
                        d['duration'] = pos[0]
                    try:
                        goals.append((to_real(exact(d['duration'])) == T - t0, 'duration == T - initial_t'))
                        sz = lst(d['start_sizes'])
                        goals.append((z3.BoolVal(len(sz) == K), '%d start sizes' % K))
                        for k, x in zip(range(1, K + 1), sz):
                            goals.append((to_real(exact(x)) == at('nu' + sfx(k), t0), 'start_sizes[%d] == nu%s' % (k - 1, sfx(k))))
                        if K > 1:
                            mg = lst(d['mig'])
                            goals.append((z3.BoolVal(len(mg) == len(pairs)), '%d migration rates' % len(pairs)))
                            for (i, j), x in zip(pairs, mg):
                                goals.append((to_real(exact(x)) == at('m%d%d' % (i, j), t0), 'mig entry == m%d%d' % (i, j)))
                    except (KeyError, TypeError, AttributeError) as e_:
                        goals.append((z3.BoolVal(False), 'event fields: %r' % (e_,)))
                else:
                    try:
                        hist = lst(d['history'] if 'history' in d else pos[0])
                        rows = [lst(r) for r in hist]
                        goals.append((z3.BoolVal(len(rows) >= 2), 'history has a first and a last time point'))
                        goals.append((to_real(exact(rows[-1][0])) - to_real(exact(rows[0][0])) == T - t0, 'history[-1].t - history[0].t == T - initial_t'))
                        for r, tt, lab in ((rows[0], t0, 'first'), (rows[-1], T, 'last')):
                            sz, mg = lst(r[1]), lst(r[2])
                            goals.append((z3.BoolVal(len(sz) == K and len(mg) == len(pairs)), '%s entry: %d sizes and %d rates' % (lab, K, len(pairs))))
                            for k, x in zip(range(1, K + 1), sz):
                                goals.append((to_real(exact(x)) == at('nu' + sfx(k), tt), '%s sizes[%d] == nu%s at that time' % (lab, k - 1, sfx(k))))
                            for (i, j), x in zip(pairs, mg):
                                goals.append((to_real(exact(x)) == at('m%d%d' % (i, j), tt), '%s rates: m%d%d at that time' % (lab, i, j)))
                        for ri, r in enumerate(rows[1:-1]):
                            tt = to_real(exact(r[0]))
                            for k, x in zip(range(1, K + 1), lst(r[1])):
                                goals.append((to_real(exact(x)) == at('nu' + sfx(k), tt), 'entry %d sizes at its own time stamp' % (ri + 1)))
                    except (KeyError, TypeError, AttributeError, IndexError) as e_:
                        goals.append((z3.BoolVal(False), 'event fields: %r' % (e_,)))
                mm = discharge(goals, list(hy) + list(p.pc))
                out.append(struct(op + '.fields', mm is None and ok_ids,
                                  mm or ('deme_ids is not the caller\'s' if not ok_ids else
                                         ('IntegrationConst(duration = T - initial_t, start_sizes, mig row by row, deme_ids)' if mode == 'const' else
                                          'IntegrationNonConst(history spanning T - initial_t with the sizes and rates at initial_t and T, deme_ids)')),
                                  fn, finding_key='C16/event-recording/%s/%s' % (name, mode)))
        return out
    return go()


def c16_export_names():
    """Demes.output(): how deme names are carried down the event log when an event has none of its own (the loop over (older, younger) pairs):
       Split -> fresh names, one more than before; Remove(k) -> the older names without the k-th (1-based); Reorder(neworder) -> name k of the younger
       event is the older name number neworder[k] (the same convention as PhiManip.reorder_pops: axis k of the result is population neworder[k]);
       an integration directly after an integration starts a new era of fresh names; otherwise the names are inherited unchanged; explicit names win."""
    oid = 'C16/Demes/__init__.py:output/name-inheritance'
    fn = 'dadi/Demes/__init__.py::output'

    @guarded(oid, fn)
    def go():
        from vf.pyvc import Env, PathCtx
        mod = ModInfo.load('dadi/Demes/__init__.py')
        node = mod.funcs['output']
        loop = None
        for st in ast.walk(node):
            if isinstance(st, ast.For) and isinstance(st.target, ast.Tuple) and [getattr(e, 'id', None) for e in st.target.elts] == ['older', 'younger']:
                loop = st
                break
        if loop is None:
            return [struct(oid, False, 'no loop over (older, younger) found in output()', fn, undecided=True)]
        C = lambda n: ClassRef(mod, mod.classes[n])
        mk = lambda cls, **at: VObj(cls, __class__=C(cls), **at)
        ev = [mk('Initiation', duration=Tm('inf'), deme_ids=VList(['anc'])),
              mk('Split', duration=0, deme_ids=VList(['A', 'B']), proportions=VList([1])),
              mk('Split', duration=0, deme_ids=None, proportions=VList([1, 0])),                       # -> fresh names, 3 of them
              mk('IntegrationConst', duration=z3.RealVal(1), deme_ids=VList(['X', 'Y', 'Z'])),           # explicit names win
              mk('Reorder', duration=0, deme_ids=None, neworder=VList([2, 3, 1])),                     # non self-inverse permutation
              mk('IntegrationConst', duration=z3.RealVal(1), deme_ids=None),                          # inherits from the Reorder (older.duration == 0)
              mk('Remove', duration=0, deme_ids=None, removed=2),
              mk('IntegrationConst', duration=z3.RealVal(1), deme_ids=None),
              mk('IntegrationConst', duration=z3.RealVal(2), deme_ids=None)]                          # integration right after an integration: new era
        ex = Executor()
        ex.ctx = PathCtx([], [], ex)
        env = Env(None, mod)
        env.vars.update(cache=VList(list(ev)), era=1)
        ex.exec_stmt(loop, env, mod)
        ids = [list(ex.iterate(e.attrs['deme_ids'])) if e.attrs['deme_ids'] is not None else None for e in ev]
        out = []
        exp = {2: lambda v: v is not None and len(v) == 3 and len(set(v)) == 3 and not (set(v) & {'A', 'B'}),
               3: lambda v: v == ['X', 'Y', 'Z'],
               4: lambda v: v == ['Y', 'Z', 'X'],
               5: lambda v: v == ['Y', 'Z', 'X'],
               6: lambda v: v == ['Y', 'X'],
               7: lambda v: v == ['Y', 'X'],
               8: lambda v: v is not None and len(v) == 2 and not (set(v) & {'X', 'Y', 'Z'})}
        what = {2: 'split without names: three fresh names', 3: 'explicit names kept', 4: 'Reorder([2,3,1]): names (Y, Z, X)', 5: 'integration after the reorder inherits (Y, Z, X)',
                6: 'Remove(2) drops the second name', 7: 'integration inherits (Y, X)', 8: 'second consecutive integration: fresh names for a new era'}
        for k in sorted(exp):
            out.append(struct('%s.event%d' % (oid, k), bool(exp[k](ids[k])), '%s (got %s)' % (what[k], ids[k]), fn))
        return out
    return go()


def c20_integrator_alias(K, const_params=False):
    """Integration.{one..five}_pops never let the caller's density or grid reach code that writes or assumes a layout, and never hand the caller's
    density back: on every path (T < initial_t refused, T == initial_t, T > initial_t; all parameters functions of time, or all constants)
      * every callee that updates its density argument in place (the influx functions, the compiled kernels, the constant-parameter drivers) receives
        an object derived from phi.copy(), never the argument itself;
      * every grid those callees receive is numpy.ascontiguousarray(xx, ...) of the argument, never the argument itself;
      * the returned object is not the caller's array.
    (Semantic version of the earlier syntactic check: it follows the objects, so it does not care where in the function - or in which helper - the copy is made.)"""
    name = {1: 'one_pop', 2: 'two_pops', 3: 'three_pops', 4: 'four_pops', 5: 'five_pops'}[K]
    oid = 'C20/Integration.py:%s/%s' % (name, 'alias.const' if const_params else 'alias')
    fn = 'dadi/Integration.py::' + name

    @guarded(oid, fn)
    def go():
        sfx = (lambda k: '') if K == 1 else (lambda k: str(k))
        T, t0 = z3.Reals('T t0')
        kw = {}

        def tf(nm):
            if const_params:
                return z3.Real(nm)
            f_ = uf(nm + '_of_t')
            return PyFn(lambda t, _f=f_: _f(to_real(t)), nm + '_f')
        for k in range(1, K + 1):
            for base in ('nu', 'gamma', 'h'):
                kw[base + sfx(k)] = tf(base + sfx(k))
            for j in range(1, K + 1):
                if j != k:
                    kw['m%d%d' % (k, j)] = tf('m%d%d' % (k, j))
        kw['theta0'] = tf('theta0')
        kw['initial_t'] = t0
        writers = []

        def policy(fr):
            q = fr.qualname
            if q == 'ensure_1arg_func':
                return lambda ex_, f_, a, k_: a[0] if not is_scalar(exact(a[0])) else PyFn(lambda t, _c=a[0]: _c, 'const')
            if q == '_compute_dt':
                def cdt(ex_, f_, a, k_):
                    d = ex_.ctx.fresh('dt')
                    ex_.ctx.pc += [d > T - t0, d > 0]
                    return d
                return cdt
            if q.startswith('_inject_mutations_') or q.endswith('_const_params'):
                def wr(ex_, f_, a, k_, _q=q):
                    writers.append((_q, list(a), dict(k_)))
                    return a[0] if _q.startswith('_inject') else Tm('result_of_' + _q)
                return wr
            return 'abstract'

        def ah(ex_, fref, a, kw_, ctx):
            nm = vrepr(fref)
            if 'implicit_' in nm:
                writers.append((nm, list(a), dict(kw_)))
                return Tm('swept')
            return NotImplemented
        phi, xx = Tm('phi_in'), Tm('xx_in')
        copies = []
        def _copy(*a, **k):
            copies.append(1)
            order = a[0] if a else k.get('order', 'C')
            # ndarray.copy() defaults to order='C': a fresh C-contiguous array; any other order keeps or imposes another layout
            return Tm('phi_copy%d' % len(copies)) if order == 'C' else Tm('phi_copy_order_%s' % order, phi)
        phi.attrs['copy'] = PyFn(_copy, 'phi.copy')
        ex = Executor(policy=policy, max_paths=64)
        ex.abstract_hook = ah
        ex.module_overrides[('dadi.Integration', 'cuda_enabled')] = False
        f = ex.func('dadi/Integration.py', name)
        results = []

        def thunk(e):
            del writers[:]
            v = e.apply(f.node, None, f.mod, [phi, xx, T], dict(kw), name)
            return v, list(writers)
        paths = ex.explore(thunk, base_pc=[t0 >= 0] + ([z3.Real('nu' + sfx(k)) > 0 for k in range(1, K + 1)] if const_params else []))
        out = []
        rets = [p for p in paths if p.outcome == 'return']
        if not rets:
            return [struct(oid, False, 'no returning path: %r' % paths[:2], fn, undecided=True)]

        def mentions(t, target):
            if t is target:
                return True
            if isinstance(t, Tm):
                return any(mentions(a, target) for a in t.args)
            if isinstance(t, (VList,)):
                return any(mentions(a, target) for a in t.items)
            if isinstance(t, (tuple, list)):
                return any(mentions(a, target) for a in t)
            return False
        bad_phi, bad_xx, bad_ret, nwrites = [], [], [], 0
        for p in rets:
            v, ws = p.value
            if v is phi:
                bad_ret.append(str(p.pc)[:120])
            for (q, a, k_) in ws:
                nwrites += 1
                if a and (a[0] is phi or mentions(a[0], phi)):
                    # the caller's array itself, or something built from it other than phi.copy() (numpy.array(phi) keeps a Fortran / transposed
                    # layout, ascontiguousarray(phi) may return phi itself): not the fresh C-contiguous copy the kernels need
                    bad_phi.append('%s <- %s' % (q, vrepr(a[0])[:50]))
                for x in list(a[1:]) + list(k_.values()):
                    if x is xx:
                        bad_xx.append(q)
                    elif isinstance(x, Tm) and mentions(x, xx) and 'ascontiguousarray' not in vrepr(x) and 'diff' not in x.op:
                        bad_xx.append(q + ' (derived without ascontiguousarray: %s)' % vrepr(x)[:60])
        out.append(struct(oid + '.writers-get-a-copy', not bad_phi and nwrites > 0, 'every in-place callee works on a copy (%d calls on %d paths)' % (nwrites, len(rets)) if not bad_phi else 'the caller\'s array is handed to %s' % sorted(set(bad_phi)), fn,
                          finding_key='C20/%s/works-on-callers-array' % name))
        out.append(struct(oid + '.contiguous-grid', not bad_xx and nwrites > 0, 'every grid handed on is ascontiguousarray(xx)' if not bad_xx else 'the caller\'s grid object reaches %s' % sorted(set(bad_xx))[:4], fn,
                          finding_key='C20/%s/noncontiguous-grid' % name))
        out.append(struct(oid + '.returns-fresh', not bad_ret, 'no path returns the caller\'s array' if not bad_ret else 'the caller\'s array is returned when %s' % bad_ret[:2], fn,
                          finding_key='C20/%s/returns-callers-array' % name))
        return out
    return go()


def c20_cov_dist_order():
    """LowPass.compute_cov_dist(data_dict, pop_ids): the returned dictionary lists the populations in the order of pop_ids (its values are later zipped
    positionally with per-population sample sizes and inbreeding coefficients by make_low_pass_func_GATK_multisample), and nothing in it is produced
    by iterating over a set - an order that depends on the interpreter's string hash seed.  numpy calls abstract; two populations given in
    non-alphabetical order, two data entries."""
    oid = 'C20/LowPass.py:compute_cov_dist/order'
    fn = 'dadi/LowPass/LowPass.py::compute_cov_dist'

    @guarded(oid, fn)
    def go():
        ex = Executor(policy=lambda fr: 'inline' if fr.qualname == 'compute_cov_dist' else 'abstract')
        f = ex.func('dadi/LowPass/LowPass.py', 'compute_cov_dist')
        pops = ['YRI', 'CEU']
        dd = VDict({'s%d' % i: VDict({'coverage': VDict({p: Tm('depths_%s_%d' % (p, i)) for p in pops})}) for i in range(2)})
        paths = ex.run(f, [dd, VList(list(pops))], {})
        rets = [p for p in paths if p.outcome == 'return']
        if len(rets) != 1 or len(paths) != 1 or not isinstance(rets[0].value, VDict):
            return [struct(oid, False, 'expected one path returning a dictionary: %r' % paths[:2], fn, undecided=True)]
        p = rets[0]
        unordered = [e for e in p.log if e[0] == 'unordered-iteration']
        keys = list(p.value.d.keys())
        out = [struct(oid + '.no-set-iteration', not unordered, 'no loop runs over a set' if not unordered else
                      'a loop runs over a set of %d elements at %s: its order depends on the hash seed' % (unordered[0][2], unordered[0][1]), fn,
                      finding_key='C20/compute_cov_dist/order'),
               struct(oid + '.keys-in-pop_ids-order', keys == pops, 'populations listed in the order of pop_ids (got %s)' % keys, fn,
                      finding_key='C20/compute_cov_dist/order')]
        ok_src = all(('depths_%s_' % k) in vrepr(v) and not any(('depths_%s_' % o) in vrepr(v) for o in pops if o != k) for k, v in p.value.d.items())
        out.append(struct(oid + '.own-depths', ok_src, 'each population\'s distribution is computed from its own depths', fn, finding_key='C20/compute_cov_dist/order'))
        return out
    return go()


def c20_integrator_frame_semantic():
    out = []
    for K in (1, 2, 3, 4, 5):
        out += c20_integrator_alias(K, False)
        if K <= 3:
            out += c20_integrator_alias(K, True)
    return out
