"""Sidecar contracts for dadi/integration_shared.c and dadi/tridiag.c (the repository files are untouched).

A contract is (requires, transformer).  The transformer is the function's strongest postcondition in
closed form: given the actual argument arrays (closures) it installs the output arrays.  It is used
  * at call sites (callers are verified against the contract, not the callee body), and
  * by `verify_*`, which symbolically executes the real body (loops by the invariants below) and proves
    that the resulting arrays equal the transformer's arrays pointwise at a skolem index.
Ghost state: the Thomas algorithm gets per-call ghost functions BH (pivot history), UF (u after the
forward sweep), G (gam), U (solution), defined by the recurrences the code computes.
"""
import z3
from fractions import Fraction
from vf.cvc import CExec, State, Arr, Ptr, Oblig, ite, toreal, uf, CUnsupported, func_params, func_body, IntS, RealS

SHARED = 'dadi/integration_shared.c'
TRIDIAG = 'dadi/tridiag.c'
HALF = z3.RealVal(Fraction(1, 2))


def rd(st, p):
    """reader closure for a 1-D pointer argument (offset applied)"""
    a = st.arrs[p.aid]
    fn, off = a.fn, p.off
    if a.shape:
        from vf.cvc import digits
        return lambda k: fn(tuple(digits(z3.simplify(off + k), a.shape)))
    return lambda k: fn(z3.simplify(off + k))


def need_len(ex, st, p, n, what):
    a = st.arrs[p.aid]
    if a.shape is None and a.length is not None:
        ex.obligs.append(Oblig('callee-requires', list(st.pc), z3.Or(n <= 0, p.off + n <= a.length), what))
        ex.obligs.append(Oblig('callee-requires', list(st.pc), p.off >= 0, what + ' (offset)'))


def wr(st, p, newfn, note='contract'):
    """install newfn (indexed by callee-relative k) into the storage behind pointer p"""
    a = st.arrs[p.aid]
    off = p.off
    old = a.fn
    if a.shape:
        raise CUnsupported('contract output into an N-d view needs wr_line')
    a.fn = lambda t, _o=old: newfn(z3.simplify(t - off), lambda k: _o(z3.simplify(k + off)))
    a.writes.append((note, list(st.pc)))


# ---------------------------------------------------------------- map-loop helpers
def c_compute_dx(ex, st, args):
    xx, N, dx = args
    need_len(ex, st, xx, N, 'compute_dx: len(xx) >= N')
    need_len(ex, st, dx, N - 1, 'compute_dx: len(dx) >= N-1')
    X = rd(st, xx)
    wr(st, dx, lambda k, old: ite(z3.And(k >= 0, k < N - 1), X(k + 1) - X(k), old(k)))


def c_compute_xInt(ex, st, args):
    xx, N, xi = args
    need_len(ex, st, xx, N, 'compute_xInt: len(xx) >= N')
    need_len(ex, st, xi, N - 1, 'compute_xInt: len(xInt) >= N-1')
    X = rd(st, xx)
    wr(st, xi, lambda k, old: ite(z3.And(k >= 0, k < N - 1), HALF * (X(k + 1) + X(k)), old(k)))


def c_compute_dfactor(ex, st, args):
    dx, N, df = args
    ex.obligs.append(Oblig('callee-requires', list(st.pc), N >= 2, 'compute_dfactor: N >= 2'))
    need_len(ex, st, dx, N - 1, 'compute_dfactor: len(dx) >= N-1')
    need_len(ex, st, df, N, 'compute_dfactor: len(dfactor) >= N')
    D = rd(st, dx)
    wr(st, df, lambda k, old: ite(k == N - 1, 2 / D(N - 2), ite(k == 0, 2 / D(0),
                                  ite(z3.And(k >= 1, k < N - 1), 2 / (D(k) + D(k - 1)), old(k)))))


def delj_value(M, V, D):
    """Chang-Cooper weight as computed by compute_delj from (MInt_k, VInt_k, dx_k); exp uninterpreted."""
    w = 2 * M * D
    e = uf('exp')(w / V)
    return ite(z3.And(e != 1, w != 0), (-e * w + e * V - V) / (w - e * w), HALF)


def c_compute_delj(ex, st, args):
    dx, MInt, VInt, N, delj, flag = args
    for p, nm in ((dx, 'dx'), (MInt, 'MInt'), (VInt, 'VInt'), (delj, 'delj')):
        need_len(ex, st, p, N - 1, 'compute_delj: len(%s) >= N-1' % nm)
    D, M, V = rd(st, dx), rd(st, MInt), rd(st, VInt)
    wr(st, delj, lambda k, old: ite(z3.And(k >= 0, k < N - 1), ite(flag == 0, HALF, delj_value(M(k), V(k), D(k))), old(k)))


def abc_closed(D, DF, DJ, M, V, dt, N):
    """closed forms of compute_abc_nobc; at(k), ct(k) are the two temporaries of iteration k"""
    at = lambda k: M(k) * DJ(k) + V(k) / (2 * D(k))
    ct = lambda k: -M(k) * (1 - DJ(k)) + V(k + 1) / (2 * D(k))
    a = lambda k: ite(k == 0, z3.RealVal(0), -DF(k) * at(k - 1))
    c = lambda k: ite(k == N - 1, z3.RealVal(0), -DF(k) * ct(k))
    b = lambda k: 1 / dt + ite(k <= N - 2, DF(k) * at(k), z3.RealVal(0)) + ite(k >= 1, DF(k) * ct(k - 1), z3.RealVal(0))
    return a, b, c, at, ct


def c_compute_abc_nobc(ex, st, args):
    dx, df, dj, MInt, V, dt, N, a, b, c = args
    ex.obligs.append(Oblig('callee-requires', list(st.pc), N >= 1, 'compute_abc_nobc: N >= 1'))
    for p, n_, nm in ((dx, N - 1, 'dx'), (df, N, 'dfactor'), (dj, N - 1, 'delj'), (MInt, N - 1, 'MInt'), (V, N, 'V'), (a, N, 'a'), (b, N, 'b'), (c, N, 'c')):
        need_len(ex, st, p, n_, 'compute_abc_nobc: len(%s)' % nm)
    fa, fb, fc, _, _ = abc_closed(rd(st, dx), rd(st, df), rd(st, dj), rd(st, MInt), rd(st, V), toreal(dt), N)
    inr = lambda k: z3.And(k >= 0, k < N)
    wr(st, a, lambda k, old: ite(inr(k), fa(k), old(k)))
    wr(st, b, lambda k, old: ite(inr(k), fb(k), old(k)))
    wr(st, c, lambda k, old: ite(inr(k), fc(k), old(k)))


# ---------------------------------------------------------------- Thomas algorithm
class Thomas:
    """Ghost functions of one call of tridiag_premalloc on (a, b, c, r, n)."""
    _n = 0

    def __init__(self, A, B, C, R, n):
        Thomas._n += 1
        i = Thomas._n
        self.A, self.B, self.C, self.R, self.n = A, B, C, R, n
        self.BH = z3.Function('BH!%d' % i, IntS, RealS)
        self.UF = z3.Function('UF!%d' % i, IntS, RealS)
        self.G = z3.Function('G!%d' % i, IntS, RealS)
        self.U = z3.Function('U!%d' % i, IntS, RealS)
        self.solv = z3.Bool('pivots_nonzero!%d' % i)      # ghost: forall q in [0,n). BH(q) != 0

    def defs_at(self, q):
        """the recurrences exactly as the code computes them (division form), instantiated at q"""
        A, B, C, R, n = self.A, self.B, self.C, self.R, self.n
        BH, UF, G, U = self.BH, self.UF, self.G, self.U
        return [
            z3.Implies(q == 0, z3.And(BH(q) == B(q), UF(q) == R(q) / BH(q))),
            z3.Implies(z3.And(q >= 1, q <= n - 1), z3.And(G(q) == C(q - 1) / BH(q - 1), BH(q) == B(q) - A(q) * G(q),
                                                          UF(q) == (R(q) - A(q) * UF(q - 1)) / BH(q))),
            z3.Implies(q == n - 1, U(q) == UF(q)),
            z3.Implies(z3.And(q >= 0, q <= n - 2), U(q) == UF(q) - G(q + 1) * U(q + 1)),
            z3.Implies(z3.And(self.solv, q >= 0, q <= n - 1), BH(q) != 0),
        ]

    def nodiv_at(self, q):
        """the division-free part of defs_at(q)"""
        A, B, n = self.A, self.B, self.n
        BH, UF, G, U = self.BH, self.UF, self.G, self.U
        return [
            z3.Implies(q == 0, BH(q) == B(q)),
            z3.Implies(z3.And(q >= 1, q <= n - 1), BH(q) == B(q) - A(q) * G(q)),
            z3.Implies(q == n - 1, U(q) == UF(q)),
            z3.Implies(z3.And(q >= 0, q <= n - 2), U(q) == UF(q) - G(q + 1) * U(q + 1)),
            z3.Implies(z3.And(self.solv, q >= 0, q <= n - 1), BH(q) != 0),
        ]

    def row(self, k):
        """row k of the tridiagonal system for the solution U"""
        A, B, C, R, n, U = self.A, self.B, self.C, self.R, self.n, self.U
        lhs = B(k) * U(k) + ite(k >= 1, A(k) * U(k - 1), z3.RealVal(0)) + ite(k <= n - 2, C(k) * U(k + 1), z3.RealVal(0))
        return lhs == R(k)

    def row_fact(self, k):
        """the exported postcondition instance: pivots non-zero ==> row k holds (0 <= k < n)"""
        return z3.Implies(z3.And(self.solv, k >= 0, k < self.n), self.row(k))


def c_tridiag_premalloc(ex, st, args):
    a, b, c, r, u, n = args
    ex.obligs.append(Oblig('callee-requires', list(st.pc), n >= 1, 'tridiag_premalloc: n >= 1'))
    for p, nm in ((a, 'a'), (b, 'b'), (c, 'c'), (r, 'r'), (u, 'u')):
        need_len(ex, st, p, n, 'tridiag_premalloc: len(%s) >= n' % nm)
    g = st.env.get('gam')
    if not isinstance(g, Ptr):
        ex.obligs.append(Oblig('callee-requires', list(st.pc), z3.BoolVal(False), 'tridiag_premalloc: global gam allocated (tridiag_malloc called)'))
        return None
    need_len(ex, st, g, n, 'tridiag_premalloc: len(gam) >= n')
    # u may alias r? the contract requires u and r distinct (reads of r after writes of u)
    if u.aid == r.aid:
        ex.obligs.append(Oblig('callee-requires', list(st.pc), z3.BoolVal(False), 'tridiag_premalloc: u must not alias r'))
    for p, nm in ((a, 'a'), (b, 'b'), (c, 'c')):
        if p.aid == u.aid:
            # same storage is allowed only if the ranges are disjoint; dadi never does this
            ex.obligs.append(Oblig('callee-requires', list(st.pc), z3.BoolVal(False), 'tridiag_premalloc: u must not alias %s' % nm))
    T = Thomas(rd(st, a), rd(st, b), rd(st, c), rd(st, r), n)
    ex.__dict__.setdefault('thomas', []).append(T)
    ua = st.arrs[u.aid]
    if ua.shape:
        from vf.cvc import digits
        off, old, shape = u.off, ua.fn, ua.shape
        # u is a contiguous slice of an N-d array: &phi[base]; the slice runs along the last axis
        base = digits(z3.simplify(off), shape)

        def newfn(t, _old=old):
            k = z3.simplify(t[-1] - base[-1])
            same = z3.And(*[x == y for x, y in zip(t[:-1], base[:-1])]) if len(t) > 1 else z3.BoolVal(True)
            return ite(z3.And(same, k >= 0, k < n), T.U(k), _old(t))
        ua.fn = newfn
        ua.writes.append((tuple(base[:-1]) + ('slice',), list(st.pc)))
        ex.obligs.append(Oblig('in-bounds', list(st.pc), z3.And(base[-1] >= 0, base[-1] + n <= shape[-1]), 'tridiag slice within last axis'))
        for d, e in zip(base[:-1], shape[:-1]):
            ex.obligs.append(Oblig('in-bounds', list(st.pc), z3.And(d >= 0, d < e), 'tridiag slice digit'))
    else:
        wr(st, u, lambda k, old: ite(z3.And(k >= 0, k < n), T.U(k), old(k)))
    wr(st, g, lambda k, old: ite(z3.And(k >= 1, k < n), T.G(k), old(k)))
    return None


def c_tridiag_malloc(ex, st, args):
    (n,) = args
    p = st.new_arr('gam', length=n)
    st.env['gam'] = p
    return None


def c_tridiag_free(ex, st, args):
    return None


def c_tridiag(ex, st, args):
    a, b, c, r, u, n = args
    c_tridiag_malloc(ex, st, [n])
    c_tridiag_premalloc(ex, st, args)
    return None


CONTRACTS = dict(compute_dx=c_compute_dx, compute_xInt=c_compute_xInt, compute_dfactor=c_compute_dfactor,
                 compute_delj=c_compute_delj, compute_abc_nobc=c_compute_abc_nobc, tridiag_premalloc=c_tridiag_premalloc,
                 tridiag_malloc=c_tridiag_malloc, tridiag_free=c_tridiag_free, tridiag=c_tridiag)
