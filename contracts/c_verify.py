"""Verification of the sidecar contracts of integration_shared.c / tridiag.c against the real bodies, and
the lemmas over those contracts (flux form of compute_abc_nobc; row equations of the Thomas algorithm)."""
import time
import z3
from fractions import Fraction
from vf.cvc import (CExec, State, Arr, Ptr, Oblig, ite, toreal, uf, CUnsupported, func_params, func_body, load_c,
                    IntS, RealS)
from vf.core import R
from vf import smt
from vf.helpers import prove, prove_eq
from contracts import c_shared as CS


def init_state(fd, shapes=None):
    """Fresh symbolic inputs for a C function: scalars by name, every pointer a distinct array with a ghost length."""
    st = State()
    lens = {}
    for name, ty in func_params(fd):
        if '*' in ty or '[' in ty:
            if shapes and name in shapes:
                shp = tuple(z3.Int(s) for s in shapes[name])
                st.env[name] = st.new_arr(name, shape=shp)
            else:
                n = z3.Int('len_' + name)
                lens[name] = n
                st.env[name] = st.new_arr(name, length=n)
        elif ty == 'double':
            st.env[name] = z3.Real(name)
        elif ty == 'int':
            st.env[name] = z3.Int(name)
        else:
            raise CUnsupported('parameter type %s' % ty)
    return st, lens


def arr_eq_obligs(oid, fn, body_st, con_st, hyps, extra_inst=None, only=None, timeout_ms=20000):
    """pointwise equality of every array of the two states at a skolem index"""
    out = []
    k = z3.Int('k!sk')
    for aid, a in body_st.arrs.items():
        b = con_st.arrs.get(aid)
        if b is None:
            continue      # local temporary (malloc'd inside the body)
        if only and a.name not in only:
            continue
        if a.shape:
            ks = tuple(z3.Int('k%d!sk' % i) for i in range(len(a.shape)))
            lhs, rhs = a.fn(ks), b.fn(ks)
            inst = extra_inst(ks) if extra_inst else []
        else:
            lhs, rhs = a.fn(k), b.fn(k)
            inst = extra_inst(k) if extra_inst else []
        out.append(prove('%s/post.%s' % (oid, a.name), list(hyps) + inst, lhs == rhs, func=fn, timeout_ms=timeout_ms,
                         inst=['k', 'k-1', 'k+1']))
    return out


def bounds_obligs(oid, fn, ex, hyps, extra_inst=None):
    out = []
    seen = set()
    n = 0
    for ob in ex.obligs:
        key = (ob.kind, str(ob.goal), str(ob.hyps))
        if key in seen:
            continue
        seen.add(key)
        n += 1
        inst = extra_inst(None) if extra_inst else []
        out.append(prove('%s/%s.%d' % (oid, ob.kind, n), list(hyps) + list(ob.hyps) + inst, ob.goal, func=fn, timeout_ms=10000))
        out[-1]['detail'] = ob.where + ': ' + out[-1]['detail']
    return out


def requires_of(fname, st):
    """The contract's own requires clauses = the callee-requires obligations its transformer emits."""
    ex = CExec([CS.SHARED, CS.TRIDIAG])
    fd = ex.funcs[fname][1]
    s2 = st.fork()
    args = [s2.env[n] for n, _ in func_params(fd)]
    CS.CONTRACTS[fname](ex, s2, args)
    req = [z3.Implies(z3.And(*o.hyps) if o.hyps else z3.BoolVal(True), o.goal) for o in ex.obligs if o.kind == 'callee-requires']
    return req, s2, ex


# ---------------------------------------------------------------- generic contract check (map-loop functions)
def verify_simple(fname, relpath):
    oid = 'C02/%s:%s' % (relpath.split('/')[-1], fname)
    fn = '%s::%s' % (relpath, fname)
    t0 = time.time()
    try:
        ex = CExec([CS.SHARED, CS.TRIDIAG], contracts={k: v for k, v in CS.CONTRACTS.items() if k != fname})
        fd = ex.funcs[fname][1]
        st0, lens = init_state(fd)
        req, con_st, _ = requires_of(fname, st0)
        hyps = req + [n >= 0 for n in lens.values()]
        outs = ex.exec_block(func_body(fd)['inner'], [st0.fork()])
        res = []
        for i, s in enumerate(outs):
            h = hyps + list(s.pc)
            res += arr_eq_obligs('%s.path%d' % (oid, i), fn, s, con_st, h)
        res += bounds_obligs(oid, fn, ex, hyps)
        res.append(R(oid + '/cover', 'proof', 'proved' if smt.sat(hyps) else 'vacuous', backend='z3', detail='requires satisfiable', func=fn, cover=True))
        return res
    except CUnsupported as e:
        return [R(oid, 'proof', 'undecided', detail='outside the C subset: %s' % e, func=fn, seconds=time.time() - t0)]


# ---------------------------------------------------------------- invariant loops
def inv_loop(ex, st, node, inv, scalars_inv=None, inst=None, tag=''):
    """Generic inductive-invariant rule.  inv(v, entry) -> {aid: closure}; scalars_inv(v) -> {name: term}.
    Emits init / preserve obligations into ex.obligs and returns the exit state."""
    var, lo, hi, step, body = ex.loop_header(node, st)
    entry = st.fork()
    k = z3.Int('k!inv')
    ins = lambda v: (inst(v, k) if inst else [])
    # init
    I0 = inv(lo, entry)
    for aid, f in I0.items():
        ex.obligs.append(Oblig('inv-init' + tag, list(st.pc) + ins(lo), f(k) == entry.arrs[aid].fn(k), 'invariant holds on entry (%s)' % entry.arrs[aid].name))
    if scalars_inv:
        for nm, t in scalars_inv(lo).items():
            ex.obligs.append(Oblig('inv-init' + tag, list(st.pc) + ins(lo), toreal(entry.env[nm]) == t, 'scalar invariant on entry (%s)' % nm))
    # preserve
    v = z3.FreshConst(IntS, var)
    cur = entry.fork()
    rng = [v >= lo, v < hi] if step == 1 else [v <= lo, v >= hi]
    cur.pc += rng
    cur.env[var] = v
    Iv = inv(v, entry)
    for aid, f in Iv.items():
        cur.arrs[aid].fn = f
    if scalars_inv:
        for nm, t in scalars_inv(v).items():
            cur.env[nm] = t
    outs = ex.exec_stmt(body, cur)
    if len(outs) != 1:
        raise CUnsupported('invariant loop body forks')
    post = outs[0]
    nxt = v + step
    In = inv(nxt, entry)
    for aid, f in In.items():
        ex.obligs.append(Oblig('inv-preserve' + tag, list(post.pc) + ins(v) + ins(nxt), post.arrs[aid].fn(k) == f(k), 'invariant preserved (%s)' % entry.arrs[aid].name))
    for aid, a in post.arrs.items():
        if aid not in In and a.fn is not cur.arrs[aid].fn:
            raise CUnsupported('array %s modified in the loop but not covered by the invariant' % a.name)
    if scalars_inv:
        for nm, t in scalars_inv(nxt).items():
            ex.obligs.append(Oblig('inv-preserve' + tag, list(post.pc) + ins(v) + ins(nxt), toreal(post.env[nm]) == t, 'scalar invariant preserved (%s)' % nm))
    # exit
    if step == 1:
        vexit = ite(hi > lo, hi, lo)
    else:
        vexit = ite(lo >= hi, hi - 1, lo)
    Ie = inv(vexit, entry)
    for aid, f in Ie.items():
        st.arrs[aid].fn = f
        st.arrs[aid].writes.append(('loop', list(st.pc)))
    st.env[var] = vexit
    if scalars_inv:
        for nm, t in scalars_inv(vexit).items():
            st.env[nm] = t
    for nm, val in post.env.items():
        if isinstance(val, z3.ExprRef) and nm != var and nm in cur.env and isinstance(cur.env[nm], z3.ExprRef) and not cur.env[nm].eq(val) \
                and not (scalars_inv and nm in scalars_inv(v)):
            st.env[nm] = z3.FreshConst(val.sort(), nm + '_after_loop')
    return [st]


def verify_abc():
    fname, relpath = 'compute_abc_nobc', CS.SHARED
    oid = 'C02/integration_shared.c:compute_abc_nobc'
    fn = '%s::%s' % (relpath, fname)
    try:
        state = {}

        def handler(ex, st, node, ordinal):
            if ordinal != 2:
                return NotImplemented
            e = st
            D, DF, DJ, M, V = (CS.rd(e, e.env[n]) for n in ('dx', 'dfactor', 'delj', 'MInt', 'V'))
            dt, N = toreal(e.env['dt']), e.env['N']
            _, _, _, at, ct = CS.abc_closed(D, DF, DJ, M, V, dt, N)
            ida, idb, idc = (e.env[n].aid for n in ('a', 'b', 'c'))

            def inv(v, entry):
                ea, eb, ec = entry.arrs[ida].fn, entry.arrs[idb].fn, entry.arrs[idc].fn
                return {
                    ida: lambda k: ite(z3.And(k >= 1, k <= v), -DF(k) * at(k - 1), ea(k)),
                    idc: lambda k: ite(z3.And(k >= 0, k < v), -DF(k) * ct(k), ec(k)),
                    idb: lambda k: eb(k) + ite(z3.And(k >= 0, k < v), DF(k) * at(k), z3.RealVal(0)) + ite(z3.And(k >= 1, k <= v), DF(k) * ct(k - 1), z3.RealVal(0)),
                }
            return inv_loop(ex, st, node, inv)
        ex = CExec([CS.SHARED, CS.TRIDIAG], contracts={}, loop_handler=handler)
        fd = ex.funcs[fname][1]
        st0, lens = init_state(fd)
        req, con_st, _ = requires_of(fname, st0)
        hyps = req + [n >= 0 for n in lens.values()]
        outs = ex.exec_block(func_body(fd)['inner'], [st0.fork()])
        res = []
        for i, s in enumerate(outs):
            res += arr_eq_obligs('%s.path%d' % (oid, i), fn, s, con_st, hyps + list(s.pc))
        res += bounds_obligs(oid, fn, ex, hyps)
        res.append(R(oid + '/cover', 'proof', 'proved' if smt.sat(hyps) else 'vacuous', backend='z3', detail='requires satisfiable', func=fn, cover=True))
        return res
    except CUnsupported as e:
        return [R(oid, 'proof', 'undecided', detail='outside the C subset: %s' % e, func=fn)]


def flux_lemma():
    """Lemma over the contract of compute_abc_nobc: for every vector u and row k,
         a_k u_{k-1} + b_k u_k + c_k u_{k+1} = u_k/dt + Delta_k (F_{k+1/2}(u) - F_{k-1/2}(u)),
       F_{j+1/2}(u) = M_j (d_j u_j + (1-d_j) u_{j+1}) - (V_{j+1} u_{j+1} - V_j u_j)/(2 dx_j),  F_{-1/2} = F_{N-1/2} = 0."""
    oid = 'C02/integration_shared.c:compute_abc_nobc/lemma.flux-form'
    fn = CS.SHARED + '::compute_abc_nobc'
    f = lambda n: z3.Function(n, IntS, RealS)
    D, DF, DJ, M, V, U = (f(n) for n in ('dx', 'Delta', 'delj', 'M', 'V', 'u'))
    dt, N, k = z3.Real('dt'), z3.Int('N'), z3.Int('k')
    a, b, c, _, _ = CS.abc_closed(D, DF, DJ, M, V, dt, N)
    F = lambda j: M(j) * (DJ(j) * U(j) + (1 - DJ(j)) * U(j + 1)) - (V(j + 1) * U(j + 1) - V(j) * U(j)) / (2 * D(j))
    out = []
    for case, cond in (('first', [k == 0, N >= 2]), ('interior', [k >= 1, k <= N - 2]), ('last', [k == N - 1, N >= 2]), ('single', [k == 0, N == 1])):
        Fr = ite(k <= N - 2, F(k), z3.RealVal(0))
        Fl = ite(k >= 1, F(k - 1), z3.RealVal(0))
        lhs = b(k) * U(k) + ite(k >= 1, a(k) * U(k - 1), z3.RealVal(0)) + ite(k <= N - 2, c(k) * U(k + 1), z3.RealVal(0))
        rhs = U(k) / dt + DF(k) * (Fr - Fl)
        hy = cond + [dt != 0, D(k) != 0, D(k - 1) != 0]
        # resolve the ite's under the case condition, then normalise
        lhs_s, rhs_s = _resolve(lhs, hy), _resolve(rhs, hy)
        out.append(prove_eq('%s.%s' % (oid, case), hy, lhs_s, rhs_s, func=fn, timeout_ms=30000))
    # canary: wrong sign of the diffusion term must be refuted
    Fbad = lambda j: M(j) * (DJ(j) * U(j) + (1 - DJ(j)) * U(j + 1)) + (V(j + 1) * U(j + 1) - V(j) * U(j)) / (2 * D(j))
    hy = [k >= 1, k <= N - 2, dt != 0, D(k) != 0, D(k - 1) != 0]
    lhs = _resolve(b(k) * U(k) + a(k) * U(k - 1) + c(k) * U(k + 1), hy)
    rhs = U(k) / dt + DF(k) * (Fbad(k) - Fbad(k - 1))
    out.append(prove(oid + '.canary', hy, lhs == rhs, func=fn, canary=True, timeout_ms=20000))
    return out


def _resolve(e, hyps):
    """Replace every If(c, x, y) whose condition is decided by hyps."""
    def rec(t):
        if z3.is_app(t) and t.decl().kind() == z3.Z3_OP_ITE:
            c, x, y = t.children()
            s = z3.Solver()
            s.set('timeout', 3000)
            s.add(*hyps)
            s.push()
            s.add(z3.Not(c))
            if s.check() == z3.unsat:
                return rec(x)
            s.pop()
            s.add(c)
            if s.check() == z3.unsat:
                return rec(y)
            return z3.If(c, rec(x), rec(y))
        if z3.is_app(t) and t.num_args() > 0:
            ch = [rec(c) for c in t.children()]
            return t.decl()(*ch)
        return t
    return rec(e)


# ---------------------------------------------------------------- Thomas algorithm
def verify_tridiag_premalloc():
    fname, relpath = 'tridiag_premalloc', CS.TRIDIAG
    oid = 'C02/tridiag.c:tridiag_premalloc'
    fn = '%s::%s' % (relpath, fname)
    try:
        holder = {}

        def ghost(st):
            if 'T' not in holder:
                holder['T'] = CS.Thomas(*(CS.rd(st, st.env[n]) for n in ('a', 'b', 'c', 'r')), st.env['n'])
            return holder['T']

        def handler(ex, st, node, ordinal):
            T = ghost(st)
            idg, idu = st.env['gam'].aid, st.env['u'].aid
            n = st.env['n']
            if ordinal == 1:
                def inv(v, entry):
                    eg, eu = entry.arrs[idg].fn, entry.arrs[idu].fn
                    return {idg: lambda k: ite(z3.And(k >= 1, k < v), T.G(k), eg(k)),
                            idu: lambda k: ite(z3.And(k >= 0, k < v), T.UF(k), eu(k))}
                return inv_loop(ex, st, node, inv, scalars_inv=lambda v: {'bet': T.BH(v - 1)},
                                inst=lambda v, k: _tinst(T, [v, v - 1, k, z3.IntVal(0)]), tag='.fwd')
            if ordinal == 2:
                def inv(v, entry):
                    eu = entry.arrs[idu].fn
                    return {idu: lambda k: ite(z3.And(k > v, k <= n - 1), T.U(k), eu(k))}
                return inv_loop(ex, st, node, inv, inst=lambda v, k: _tinst(T, [v, v + 1, k, n - 1]), tag='.bwd')
            return NotImplemented
        ex = CExec([CS.SHARED, CS.TRIDIAG], contracts={}, loop_handler=handler)
        fd = ex.funcs[fname][1]
        st0, lens = init_state(fd)
        g = st0.new_arr('gam', length=z3.Int('len_gam'))
        st0.env['gam'] = g
        lens['gam'] = z3.Int('len_gam')
        # the contract's requires (run the transformer on a copy; it creates its own ghost functions)
        exc = CExec([CS.SHARED, CS.TRIDIAG])
        con_st = st0.fork()
        CS.c_tridiag_premalloc(exc, con_st, [con_st.env[n] for n, _ in func_params(fd)])
        Tc = exc.thomas[0]
        req = [z3.Implies(z3.And(*o.hyps) if o.hyps else z3.BoolVal(True), o.goal) for o in exc.obligs if o.kind == 'callee-requires']
        hyps = req + [n_ >= 0 for n_ in lens.values()]
        body = st0.fork()
        outs = ex.exec_block(func_body(fd)['inner'], [body])
        T = holder['T']
        # identify the contract's ghost functions with the verification's (same recurrences on the same inputs)
        k = z3.Int('k!sk')
        link = [Tc.U(k) == T.U(k), Tc.G(k) == T.G(k)]
        res = []
        for i, s in enumerate(outs):
            h = hyps + list(s.pc) + link
            res += arr_eq_obligs('%s.path%d' % (oid, i), fn, s, con_st, h, extra_inst=lambda kk: _tinst(T, [kk] if kk is not None else []))
        res += bounds_obligs(oid, fn, ex, hyps, extra_inst=lambda kk: [])
        res.append(R(oid + '/cover', 'proof', 'proved' if smt.sat(hyps) else 'vacuous', backend='z3', detail='requires satisfiable', func=fn, cover=True))
        return res
    except CUnsupported as e:
        return [R(oid, 'proof', 'undecided', detail='outside the C subset: %s' % e, func=fn)]


def _tinst(T, terms):
    out = []
    for t in terms:
        out += T.defs_at(t)
    return out


def thomas_lemma():
    """Lemma over the ghost recurrences: pivots non-zero ==> every row of the tridiagonal system holds.
    The product forms of the recurrences are used as *definitions* of b_k, c_k, c_{k-1}, r_k, u_k, u_{k-1}
    (substituted into the goal), which leaves a polynomial identity for the ring normaliser."""
    from vf import polyring
    oid = 'C02/tridiag.c:tridiag_premalloc/lemma.rows'
    fn = CS.TRIDIAG + '::tridiag_premalloc'
    f = lambda n: z3.Function(n, IntS, RealS)
    n, k = z3.Int('n'), z3.Int('k')
    T = CS.Thomas(f('a'), f('b'), f('c'), f('r'), n)
    A, B, C, Rr, BH, UF, G, U = T.A, T.B, T.C, T.R, T.BH, T.UF, T.G, T.U
    out = []
    for case, cond in (('single', [n == 1, k == 0]), ('first', [n >= 2, k == 0]), ('interior', [k >= 1, k <= n - 2]), ('last', [n >= 2, k == n - 1])):
        inst = []
        for q in (k - 1, k, k + 1):
            inst += T.nodiv_at(q)
        prod = _product_forms(T, [k - 1, k, k + 1])
        hy = cond + [T.solv] + inst + prod
        row = _resolve(T.row(k), cond)
        lhs, rhs = row.children()
        # definitions available under `cond` (each is one of the hypotheses, checked below)
        defs = []
        if case in ('interior', 'last'):
            defs += [(U(k - 1), UF(k - 1) - G(k) * U(k)), (B(k), BH(k) + A(k) * G(k)), (Rr(k), UF(k) * BH(k) + A(k) * UF(k - 1))]
        else:
            defs += [(B(k), BH(k)), (Rr(k), UF(k) * BH(k))]
        if case in ('first', 'interior'):
            defs += [(C(k), G(k + 1) * BH(k)), (U(k), UF(k) - G(k + 1) * U(k + 1))]
        else:
            defs += [(U(k), UF(k))]
        t0 = time.time()
        ok_defs = all(smt.check(hy, x == e, timeout_ms=10000, use_cli=False)['status'] == 'proved' for x, e in defs)
        l2, r2 = lhs, rhs
        for x, e in defs:
            l2, r2 = z3.substitute(l2, (x, e)), z3.substitute(r2, (x, e))
        for x, e in defs:   # second pass: definitions may mention earlier-defined atoms
            l2, r2 = z3.substitute(l2, (x, e)), z3.substitute(r2, (x, e))
        st, info = polyring.decide_eq(hy, l2, r2) if ok_defs else ('undecided', dict(reason='a definition is not implied by the hypotheses'))
        if st == 'proved':
            out.append(R('%s.%s' % (oid, case), 'proof', 'proved', backend='z3+polyring', seconds=time.time() - t0,
                         detail='%d definitions implied by the recurrences (z3), substituted; remaining identity is 0 in normal form' % len(defs),
                         func=fn, inst=['k-1', 'k', 'k+1'], trusted=['vf/polyring.py exact rational-function normaliser']))
        else:
            out.append(prove('%s.%s' % (oid, case), hy, row, func=fn, timeout_ms=60000, inst=['k-1', 'k', 'k+1']))
    # canary: the transposed system (a and c exchanged) must be refuted
    hy = [k >= 1, k <= n - 2, T.solv] + T.nodiv_at(k - 1) + T.nodiv_at(k) + T.nodiv_at(k + 1) + _product_forms(T, [k - 1, k, k + 1])
    bad = T.B(k) * T.U(k) + T.C(k) * T.U(k - 1) + T.A(k) * T.U(k + 1) == T.R(k)
    out.append(prove(oid + '.canary', hy, bad, func=fn, canary=True, timeout_ms=30000))
    return out


def _product_forms(T, terms):
    """x = c/d and d != 0  ==>  x*d = c : consequences of the division-form definitions (field axioms), added so the
    NRA goal contains no division."""
    out = []
    n = T.n
    for q in terms:
        out.append(z3.Implies(z3.And(T.solv, q == 0, q <= n - 1), T.UF(q) * T.BH(q) == T.R(q)))
        out.append(z3.Implies(z3.And(T.solv, q >= 1, q <= n - 1), z3.And(T.G(q) * T.BH(q - 1) == T.C(q - 1),
                                                                        T.UF(q) * T.BH(q) == T.R(q) - T.A(q) * T.UF(q - 1))))
    return out


def product_forms_sound():
    """The product forms used by thomas_lemma follow from the division-form definitions (checked, not assumed)."""
    oid = 'C02/tridiag.c:tridiag_premalloc/lemma.product-forms'
    fn = CS.TRIDIAG + '::tridiag_premalloc'
    f = lambda n: z3.Function(n, IntS, RealS)
    n, q = z3.Int('n'), z3.Int('q')
    T = CS.Thomas(f('a'), f('b'), f('c'), f('r'), n)
    hy = _tinst(T, [q, q - 1])
    goal = z3.And(*_product_forms(T, [q]))
    return [prove(oid, hy, goal, func=fn, timeout_ms=20000)]


def verify_tridiag():
    """tridiag(a,b,c,r,u,n) = tridiag_malloc(n); tridiag_premalloc(a,b,c,r,u,n); tridiag_free()  (wiring against the callee contracts)"""
    oid = 'C02/tridiag.c:tridiag'
    fn = CS.TRIDIAG + '::tridiag'
    try:
        ex = CExec([CS.SHARED, CS.TRIDIAG], contracts={k: v for k, v in CS.CONTRACTS.items() if k != 'tridiag'})
        fd = ex.funcs['tridiag'][1]
        st0, lens = init_state(fd)
        n = st0.env['n']
        hyps = [n >= 1] + [l >= n for l in lens.values()]
        st = st0.fork()
        st.pc = list(hyps)
        outs = ex.exec_block(func_body(fd)['inner'], [st])
        calls = [(c[1], c[2]) for c in ex.trace if c[0] == 'call']
        names = [c[0] for c in calls]
        ok = names == ['tridiag_malloc', 'tridiag_premalloc', 'tridiag_free'] and len(outs) == 1
        detail = 'calls: %s' % names
        if ok:
            margs = calls[0][1]
            pargs = calls[1][1]
            want = [st0.env[p] for p, _ in func_params(fd)]
            ok = margs[0].eq(n) and all((isinstance(a, Ptr) and isinstance(w, Ptr) and a.aid == w.aid and z3.is_true(z3.simplify(a.off == w.off))) or
                                        (isinstance(a, z3.ExprRef) and a.eq(w)) for a, w in zip(pargs, want))
            detail += '; arguments forwarded in order'
        res = [R(oid + '/wiring', 'struct', 'proved' if ok else 'refuted', backend='ast', detail=detail, func=fn)]
        res += bounds_obligs(oid, fn, ex, hyps)
        return res
    except CUnsupported as e:
        return [R(oid, 'proof', 'undecided', detail='outside the C subset: %s' % e, func=fn)]


def rowmajor_lemmas():
    """Mixed-radix index maps are injective on in-range digits (justifies the N-d digit view of flattened arrays)."""
    out = []
    for nd in (2, 3, 4, 5):
        ext = [z3.Int('E%d' % i) for i in range(nd)]
        d1 = [z3.Int('p%d' % i) for i in range(nd)]
        d2 = [z3.Int('q%d' % i) for i in range(nd)]

        def lin(d):
            t = d[0]
            for i in range(1, nd):
                t = t * ext[i] + d[i]
            return t
        hy = [e >= 1 for e in ext[1:]]
        for d in (d1, d2):
            hy += [z3.And(x >= 0, x < e) for x, e in list(zip(d, ext))[1:]]
        # induction on the number of digits: prove the step  a*E + x == b*E + y, 0<=x,y<E  ==> a==b and x==y  once,
        a, b, x, y, E = z3.Ints('a b x y E')
        if nd == 2:
            out.append(prove('C02/LEMMA.rowmajor.step', [E >= 1, x >= 0, x < E, y >= 0, y < E, a * E + x == b * E + y], z3.And(a == b, x == y),
                             func='vf/cvc.py::digits', timeout_ms=20000))
        out.append(prove('C02/LEMMA.rowmajor.%d' % nd, hy + [lin(d1) == lin(d2)], z3.And(*[p == q for p, q in zip(d1, d2)]),
                         func='vf/cvc.py::digits', timeout_ms=30000))
    return out


# ---------------------------------------------------------------- lemmas for C03 / C04 over the contract of compute_abc_nobc
def conservation_lemma():
    """C04: with trapezoid weights w_k = 1/Delta_k the weighted column sums of the assembled operator vanish,
         w_{j-1} c_{j-1} + w_j (b_j - 1/dt) + w_{j+1} a_{j+1} = 0     for every column j,
    hence  sum_k w_k (A u)_k = sum_k w_k u_k / dt  for every u: a step changes trapezoid mass only through the absorbing terms."""
    oid = 'C04/integration_shared.c:compute_abc_nobc/lemma.column-sums'
    fn = CS.SHARED + '::compute_abc_nobc'
    f = lambda n: z3.Function(n, IntS, RealS)
    D, DF, DJ, M, V = (f(n) for n in ('dx', 'Delta', 'delj', 'M', 'V'))
    dt, N, j = z3.Real('dt'), z3.Int('N'), z3.Int('j')
    a, b, c, _, _ = CS.abc_closed(D, DF, DJ, M, V, dt, N)
    w = lambda k: 1 / DF(k)
    out = []
    for case, cond in (('first', [j == 0, N >= 2]), ('interior', [j >= 1, j <= N - 2]), ('last', [j == N - 1, N >= 2])):
        hy = cond + [dt != 0, D(j) != 0, D(j - 1) != 0, DF(j) != 0, DF(j - 1) != 0, DF(j + 1) != 0]
        total = w(j) * (b(j) - 1 / dt) + ite(j >= 1, w(j - 1) * c(j - 1), z3.RealVal(0)) + ite(j <= N - 2, w(j + 1) * a(j + 1), z3.RealVal(0))
        out.append(prove_eq('%s.%s' % (oid, case), hy, _resolve(total, hy), z3.RealVal(0), func=fn, timeout_ms=30000))
    # canary: with the wrong weights (w_k = Delta_k) the sums do not vanish
    hy = [j >= 1, j <= N - 2, dt != 0, D(j) != 0, D(j - 1) != 0, DF(j) != 0, DF(j - 1) != 0, DF(j + 1) != 0]
    bad = DF(j) * (b(j) - 1 / dt) + DF(j - 1) * c(j - 1) + DF(j + 1) * a(j + 1)
    out.append(prove(oid + '.canary', hy, _resolve(bad, hy) == 0, func=fn, canary=True, timeout_ms=20000))
    return out


def dfactor_weights_lemma():
    """C04: Delta_k (compute_dfactor's contract) times the trapezoid weight w_k equals one at every node incl. both ends."""
    oid = 'C04/integration_shared.c:compute_dfactor/lemma.trapezoid-weights'
    fn = CS.SHARED + '::compute_dfactor'
    ex = CExec([CS.SHARED])
    st = State()
    N = z3.Int('N')
    st.env['dx'] = st.new_arr('dx', length=N - 1)
    st.env['dfactor'] = st.new_arr('dfactor', length=N)
    CS.c_compute_dfactor(ex, st, [st.env['dx'], N, st.env['dfactor']])
    DF, D = CS.rd(st, st.env['dfactor']), CS.rd(st, st.env['dx'])
    k = z3.Int('k')
    out = []
    for case, cond, wk in (('first', [k == 0], D(0) / 2), ('interior', [k >= 1, k <= N - 2], (D(k) + D(k - 1)) / 2), ('last', [k == N - 1], D(N - 2) / 2)):
        hy = cond + [N >= 2, D(k) > 0, D(k - 1) > 0, D(0) > 0, D(N - 2) > 0]
        out.append(prove_eq('%s.%s' % (oid, case), hy, _resolve(DF(k), hy) * wk, z3.RealVal(1), func=fn, timeout_ms=20000))
    return out


def scaling_lemmas():
    """C03: re-expressing a step relative to another reference size c (sizes, dt times c; rates divided by c) divides the whole
    linear system by c: V(x; c nu) = V/c, M(x; m/c, gamma/c, h) = M/c, delj unchanged, (a,b,c)(M/c, V/c, c dt) = (a,b,c)/c."""
    oid = 'C03/integration_shared.c'
    out = []
    f = lambda n: z3.Function(n, IntS, RealS)
    D, DF, DJ, M, V = (f(n) for n in ('dx', 'Delta', 'delj', 'M', 'V'))
    dt, N, k, c = z3.Real('dt'), z3.Int('N'), z3.Int('k'), z3.Real('c')
    a0, b0, c0, _, _ = CS.abc_closed(D, DF, DJ, M, V, dt, N)
    a1, b1, c1, _, _ = CS.abc_closed(D, DF, DJ, lambda q: M(q) / c, lambda q: V(q) / c, c * dt, N)
    fn = CS.SHARED + '::compute_abc_nobc'
    for nm, x0, x1 in (('a', a0, a1), ('b', b0, b1), ('c', c0, c1)):
        for case, cond in (('first', [k == 0, N >= 2]), ('interior', [k >= 1, k <= N - 2]), ('last', [k == N - 1, N >= 2])):
            hy = cond + [c != 0, dt != 0, D(k) != 0, D(k - 1) != 0]
            out.append(prove_eq('%s:compute_abc_nobc/lemma.rescale.%s.%s' % (oid, nm, case), hy, _resolve(x1(k), hy), _resolve(x0(k), hy) / c, func=fn, timeout_ms=30000))
    # delj invariant
    Mk, Vk, Dk = z3.Reals('M V D')
    hy = [c != 0, Vk != 0]
    lhs, rhs = CS.delj_value(Mk / c, Vk / c, Dk), CS.delj_value(Mk, Vk, Dk)
    # the two exp arguments are equal as rational functions: add the congruence instance, then split on the (now identical) guard
    from vf.helpers import _congruence_lemmas
    lem = _congruence_lemmas(hy, lhs, rhs)
    e = CS.uf('exp')(2 * Mk * Dk / Vk)
    for case, cond in (('regular', [e != 1, 2 * Mk * Dk != 0]), ('degenerate', [z3.Or(e == 1, 2 * Mk * Dk == 0)])):
        h2 = hy + lem + cond
        out.append(prove_eq('%s:compute_delj/lemma.rescale-invariant.%s' % (oid, case), h2, _resolve(lhs, h2), _resolve(rhs, h2), func=CS.SHARED + '::compute_delj', timeout_ms=30000))
    # V and M from the real C functions
    ex = CExec([CS.SHARED])
    x, nu, beta, g, h = z3.Reals('x nu beta gamma h')
    ys = z3.Reals('y z a b')
    ms = z3.Reals('m1 m2 m3 m4')
    for name, args, sargs in (('Vfunc', [x, nu], [x, c * nu]), ('Vfunc_beta', [x, nu, beta], [x, c * nu, beta])):
        fd = ex.funcs[name][1]
        v0, v1 = ex.inline_scalar(fd, args), ex.inline_scalar(fd, sargs)
        out.append(prove_eq('%s:%s/lemma.rescale' % (oid, name), [c != 0, nu != 0, beta != 0], v1, v0 / c, func=CS.SHARED + '::' + name, timeout_ms=20000))
    for K in range(1, 6):
        name = 'Mfunc%dD' % K
        fd = ex.funcs[name][1]
        o, m = list(ys[:K - 1]), list(ms[:K - 1])
        v0 = ex.inline_scalar(fd, [x] + o + m + [g, h])
        v1 = ex.inline_scalar(fd, [x] + o + [mi / c for mi in m] + [g / c, h])
        out.append(prove_eq('%s:%s/lemma.rescale' % (oid, name), [c != 0], v1, v0 / c, func=CS.SHARED + '::' + name, timeout_ms=20000))
    return out


# ---------------------------------------------------------------- C17: compiled bivariate lognormal density
def verify_biv_ind_gamma():
    """DFE/PDFs.c:biv_ind_gamma: output[i*m+j] = g(x_i; a1, b1) * g(y_j; a2, b2),   g(x; a, b) = x^(a-1) exp(-x/b) / (b^a Gamma(a)),
       (a1, a2, b1, b2) = (p0, p0, p1, p1) for 2 or 3 parameters, (p0, p1, p2, p3) for 4 or 5: each marginal normalised with ITS OWN shape and scale.
       pow, exp and gamma_func (the file's Lanczos evaluation of the gamma function; its accuracy is a bounded matter) are uninterpreted."""
    rel = 'dadi/DFE/PDFs.c'
    oid = 'C17/PDFs.c:biv_ind_gamma'
    fn = rel + '::biv_ind_gamma'
    try:
        # gamma_func (Lanczos series in the same file) by contract: an uninterpreted function of its argument
        ex = CExec([rel], contracts={'gamma_func': lambda ex_, st_, args: CS.uf('gamma_func')(toreal(args[0]))})
        fd = ex.funcs['biv_ind_gamma'][1]
        st0, lens = init_state(fd, shapes={'output': ['n', 'm']})
        n, m, Np = st0.env['n'], st0.env['m'], st0.env['Nparams']
        hyps = [n >= 1, m >= 1, lens['xx'] >= n, lens['yy'] >= m, lens['params'] >= Np, z3.Or(Np == 2, Np == 3, Np == 4, Np == 5)]
        st = st0.fork()
        st.pc = list(hyps)
        outs = ex.exec_block(func_body(fd)['inner'], [st])
        res = []
        if not outs or len(outs) > 8:
            return [R(oid, 'proof', 'undecided', detail='%d paths' % len(outs), func=fn)]
        X, Y, P = CS.rd(st0, st0.env['xx']), CS.rd(st0, st0.env['yy']), CS.rd(st0, st0.env['params'])
        i, j = z3.Ints('i!sk j!sk')
        POW, EXP, GAM = CS.uf('pow', 2), CS.uf('exp'), CS.uf('gamma_func')
        g = lambda x, a, b: POW(x, a - 1) * EXP(-x / b) / (POW(b, a) * GAM(a))
        for pi, s in enumerate(outs):
            out = s.arrs[st0.env['output'].aid]
            for Nv, (a1, a2, b1, b2) in ((2, (P(0), P(0), P(1), P(1))), (3, (P(0), P(0), P(1), P(1))), (4, (P(0), P(1), P(2), P(3))), (5, (P(0), P(1), P(2), P(3)))):
                h = hyps + list(s.pc) + [Np == Nv, i >= 0, i < n, j >= 0, j < m]
                from vf import smt as _smt
                if _smt.sat(h, timeout_ms=3000) is False:
                    continue            # this path does not occur with that many parameters
                got = _resolve(out.fn((i, j)), h)
                res.append(prove_eq('%s/post.value.%dparams%s' % (oid, Nv, '' if len(outs) == 1 else '.path%d' % pi),
                                    h + [b1 != 0, b2 != 0, POW(b1, a1) * GAM(a1) != 0, POW(b2, a2) * GAM(a2) != 0], got, g(X(i), a1, b1) * g(Y(j), a2, b2),
                                    func=fn, timeout_ms=30000, finding_key='C17/PDFs.c/biv_ind_gamma'))
            h = hyps + list(s.pc) + [z3.Or(i < 0, i >= n, j < 0, j >= m)]
            res.append(prove('%s/frame%s' % (oid, '' if len(outs) == 1 else '.path%d' % pi), h, out.fn((i, j)) == st0.arrs[st0.env['output'].aid].fn((i, j)), func=fn, timeout_ms=20000))
        res += bounds_obligs(oid, fn, ex, hyps)
        return res
    except CUnsupported as e:
        return [R(oid, 'proof', 'undecided', detail='outside the C subset: %s' % e, func=fn)]


def verify_biv_lognormal():
    """DFE/PDFs.c:biv_lognormal: output[i*m+j] = exp(-q/2) / (2 pi s1 s2 sqrt(1-rho^2) x_i y_j),
       q = (dx^2 - 2 rho dx dy + dy^2)/(1-rho^2), dx = (log x_i - mu1)/s1, dy = (log y_j - mu2)/s2,
       (mu1,mu2,s1,s2,rho) = (p0,p0,p1,p1,p2) for 3 parameters, (p0,p1,p2,p3,p4) for 5   - the documented reference density of PDFs.biv_lognormal_py."""
    rel = 'dadi/DFE/PDFs.c'
    oid = 'C17/PDFs.c:biv_lognormal'
    fn = rel + '::biv_lognormal'
    try:
        ex = CExec([rel])
        fd = ex.funcs['biv_lognormal'][1]
        st0, lens = init_state(fd, shapes={'output': ['n', 'm']})
        n, m, Np = st0.env['n'], st0.env['m'], st0.env['Nparams']
        hyps = [n >= 1, m >= 1, lens['xx'] >= n, lens['yy'] >= m, lens['params'] >= Np, z3.Or(Np == 3, Np == 5)]
        st = st0.fork()
        st.pc = list(hyps)
        outs = ex.exec_block(func_body(fd)['inner'], [st])
        res = []
        if len(outs) != 1:
            return [R(oid, 'proof', 'undecided', detail='%d paths' % len(outs), func=fn)]
        s = outs[0]
        X, Y, P = CS.rd(st0, st0.env['xx']), CS.rd(st0, st0.env['yy']), CS.rd(st0, st0.env['params'])
        out = s.arrs[st0.env['output'].aid]
        i, j = z3.Ints('i!sk j!sk')
        LOG, EXP, SQRT = CS.uf('log'), CS.uf('exp'), CS.uf('sqrt')
        from fractions import Fraction
        PI = z3.RealVal(Fraction(repr(3.14159265358979323846264338327950288)))
        for Nv, (mu1, mu2, s1, s2, rho) in ((3, (P(0), P(0), P(1), P(1), P(2))), (5, (P(0), P(1), P(2), P(3), P(4)))):
            h = hyps + list(s.pc) + [Np == Nv, i >= 0, i < n, j >= 0, j < m]
            dxi = (LOG(X(i)) - mu1) / s1
            dyj = (LOG(Y(j)) - mu2) / s2
            q = (dxi * dxi - 2 * rho * dxi * dyj + dyj * dyj) / (1 - rho * rho)
            want = EXP(-q / 2) / (2 * PI * s1 * s2 * SQRT(1 - rho * rho) * X(i) * Y(j))
            got = _resolve(out.fn((i, j)), h)
            res.append(prove_eq('%s/post.value.%dparams' % (oid, Nv), h + [s1 != 0, s2 != 0, rho * rho != 1, X(i) != 0, Y(j) != 0, SQRT(1 - rho * rho) != 0], got, want,
                                func=fn, timeout_ms=30000))
        # frame: entries outside [0,n)x[0,m) untouched
        h = hyps + list(s.pc) + [z3.Or(i < 0, i >= n, j < 0, j >= m)]
        res.append(prove(oid + '/frame', h, out.fn((i, j)) == st0.arrs[st0.env['output'].aid].fn((i, j)), func=fn, timeout_ms=20000))
        res += bounds_obligs(oid, fn, ex, hyps)
        return res
    except CUnsupported as e:
        return [R(oid, 'proof', 'undecided', detail='outside the C subset: %s' % e, func=fn)]
