"""C13 bounded driver (E4): genotype data -> data dictionary -> spectrum -> statistics.

Everything dadi returns is compared with quantities computed directly from the synthetic genotype matrix
that the VCF / SNP file was written from: allele counts by explicit loops, hypergeometric projection and
folding in exact Fraction arithmetic, statistics by their textbook definitions (pairwise differences,
Watterson, Tajima 1989, Zeng 2006, Weir & Cockerham 1984).  No dadi code is used by an oracle.
All files are written into one tempfile.mkdtemp() directory per task, removed in a finally block.
"""
import os, gzip, math, shutil, tempfile, itertools, zipfile, random
from fractions import Fraction
from math import comb
from vf.core import Task
from vf.bounded import Driver

N = dict(quick=dict(vcf=150, sub=60, chunks=60, snpfile=60, stats=120, fst=80, dp0=24),
         thorough=dict(vcf=2000, sub=700, chunks=600, snpfile=600, stats=1500, fst=900, dp0=200))
NSLICE = 4


def tasks(tier):
    ts = [Task('props.bounded_C13:drv_vcf', name='C13/bounded/vcf_%d' % k, tier=tier, part=k, timeout=1500) for k in range(NSLICE)]
    for n in ['subsample', 'chunks', 'snpfile', 'stats1d', 'fst', 'dp0']:
        ts.append(Task('props.bounded_C13:drv_%s' % n, name='C13/bounded/%s' % n, tier=tier, timeout=1500))
    return ts


# =========================================================================================== synthetic data
BASES = 'ACGT'
CHROMS = ['chr1', 'chr_2', 'scaf.3_b', 'X', '2L_random.v1', 'NC_000001.11']
POPNAMES = ['YRI', 'CEU', 'pop_3', 'East.Asia', 'B']


def gen_dataset(rng, npop=None, nsites=None, missing=None, clean=False, max_ind=12, dp0=False):
    """A random genotype matrix with everything make_data_dict_vcf has to cope with.
    clean=True: every line is a PASS biallelic SNP with a usable ancestral allele."""
    npop = npop or rng.choice([1, 2, 2, 3])
    pops = rng.sample(POPNAMES, npop)
    nind = [rng.randint(2, max_ind if npop < 3 else min(max_ind, 6)) for _ in pops]
    samples = []                                     # (sample name, pop or None)
    for p, n in zip(pops, nind):
        samples += [('%s_s%d' % (p, k), p) for k in range(n)]
    if not clean and rng.random() < 0.5:
        samples += [('orphan%d' % k, None) for k in range(rng.randint(1, 2))]      # not in the popinfo file
    rng.shuffle(samples)
    nsites = nsites or rng.randint(12, 45)
    pmiss = missing if missing is not None else rng.choice([0.0, 0.05, 0.2, 0.5])
    chroms = rng.sample(CHROMS, rng.randint(1, 3))
    used = set()
    sites = []
    fmt = rng.choice(['GT', 'GT:DP', 'GT:AD:DP', 'DP:GT', 'GT:GQ']) if not dp0 else rng.choice(['GT:DP', 'DP:GT', 'GT:GQ:DP'])
    for _ in range(nsites):
        while True:
            c, pos = rng.choice(chroms), rng.randint(1, 3000)
            if (c, pos) not in used:
                used.add((c, pos))
                break
        ref, alt = rng.sample(BASES, 2)
        third = rng.choice([b for b in BASES if b not in (ref, alt)])
        r = rng.random()
        ref_t, alt_t = ref, alt
        if not clean:
            if r < 0.06:
                alt_t = rng.choice([alt + ',' + third, alt + 'T', '<DEL>', '*', 'N', '.'])
            elif r < 0.10:
                ref_t = rng.choice([ref + 'A', ref + alt, 'N'])
            elif r < 0.16:
                ref_t, alt_t = rng.choice([(ref.lower(), alt), (ref, alt.lower()), (ref.lower(), alt.lower())])
        filt = 'PASS' if clean else rng.choice(['PASS'] * 6 + ['.', '.', 'q10', 'LowQual', 'q10;s50', 'pass'])
        if clean:
            aa_tok = rng.choice([ref, alt])
        else:
            aa_tok = rng.choice([ref] * 5 + [alt] * 4 + [third, ref.lower(), alt.lower(), 'N', '.', '-', ref + alt, ref + '|||',
                                                        alt.lower() + '|x|y', None, None, ''])
        fields = []
        if rng.random() < 0.5:
            fields.append('DP=%d' % rng.randint(1, 99))
        if aa_tok is not None:
            fields.append('%s=%s' % ('AA' if clean else rng.choice(['AA', 'AA', 'AA', 'AA_ensembl', 'AA_chimp']), aa_tok))
        if rng.random() < 0.5:
            fields.append('AF=0.%d' % rng.randint(1, 9))
        if rng.random() < 0.2:
            fields.append('AAC=3')                   # starts with AA but is not the ancestral allele field
        rng.shuffle(fields)
        info = ';'.join(fields) if fields else '.'
        freq = rng.choice([rng.random(), rng.random() ** 3, 0.0, 1.0]) if rng.random() < 0.15 else rng.random()
        popshift = [rng.uniform(-0.3, 0.3) for _ in pops]
        gts = []
        for (name, pop) in samples:
            f = min(1.0, max(0.0, freq + (popshift[pops.index(pop)] if pop else 0.0)))
            a = [1 if rng.random() < f else 0 for _ in range(2)]
            miss = rng.random() < pmiss
            half = (not clean) and (not dp0) and rng.random() < 0.03
            gts.append(dict(a=a, miss=miss, half=half, sep=rng.choice('/|')))
        sites.append(dict(chrom=c, pos=pos, ref=ref_t, alt=alt_t, filt=filt, info=info, aa_tok=aa_tok, gts=gts))
    order = rng.choice(['sorted', 'shuffled'])
    if order == 'sorted':
        sites.sort(key=lambda s: (s['chrom'], s['pos']))
    return dict(pops=pops, nind=nind, samples=samples, sites=sites, fmt=fmt, dp0=dp0)


def sample_field(ds, g):
    """Text of one sample column.  A missing call is './.' (with DP 0 / AD 0,0 when those fields exist); in the dp0 data sets it is
    instead a *called* genotype whose DP is 0 (the style of recent GATK versions that dadi's reader says it recognises)."""
    a = g['a']
    if g['miss'] and not ds['dp0']:
        gt = '.' + g['sep'] + '.'
    elif g['half']:
        gt = '.' + g['sep'] + str(a[1])
    else:
        gt = str(a[0]) + g['sep'] + str(a[1])
    out = []
    for f in ds['fmt'].split(':'):
        if f == 'GT':
            out.append(gt)
        elif f == 'DP':
            out.append('0' if g['miss'] else '17')
        elif f == 'AD':
            out.append('0,0' if g['miss'] else '9,8')
        else:
            out.append('30')
    return ':'.join(out)


def called_alleles(g):
    """alleles (0/1) that were actually called for this sample at this site"""
    if g['miss']:
        return []
    if g['half']:
        return [g['a'][1]]
    return list(g['a'])


def write_vcf(path, ds, how='plain'):
    lines = ['##fileformat=VCFv4.2', '##INFO=<ID=AA,Number=1,Type=String,Description="Ancestral Allele">',
             '#CHROM\tPOS\tID\tREF\tALT\tQUAL\tFILTER\tINFO\tFORMAT\t' + '\t'.join(n for n, _ in ds['samples'])]
    for s in ds['sites']:
        cols = [s['chrom'], str(s['pos']), '.', s['ref'], s['alt'], '50', s['filt'], s['info'], ds['fmt']]
        cols += [sample_field(ds, g) for g in s['gts']]
        lines.append('\t'.join(cols))
    text = '\n'.join(lines) + '\n'
    write_text(path, text, how)
    return text


def write_text(path, text, how):
    if how == 'gz':
        with gzip.open(path, 'wt') as fh:
            fh.write(text)
    elif how == 'zip':
        with zipfile.ZipFile(path, 'w') as z:
            z.writestr('inner.txt', text)
    else:
        with open(path, 'w') as fh:
            fh.write(text)


def write_popinfo(path, ds, rng):
    style = rng.choice(['plain', 'header', 'swapped', 'comment'])
    rows = [(n, p) for n, p in ds['samples'] if p is not None]
    rng.shuffle(rows)
    lines = []
    if style == 'comment':
        lines.append('# sample assignments')
    if style == 'header':
        lines.append('sample\tpop')
    if style == 'swapped':
        lines.append('POP SAMPLE')
        lines += ['%s %s' % (p, n) for n, p in rows]
    else:
        lines += ['%s\t%s' % (n, p) for n, p in rows]
    if style == 'comment':
        lines.insert(2, '')
    with open(path, 'w') as fh:
        fh.write('\n'.join(lines) + '\n')
    return style


# =========================================================================================== oracles
def site_is_snp(s):
    return s['ref'].upper() in ('A', 'C', 'G', 'T') and s['alt'].upper() in ('A', 'C', 'G', 'T')


def site_passes(s, use_filter):
    return (not use_filter) or s['filt'] in ('PASS', '.')


def site_aa(s):
    """ancestral allele as a single upper-case base, or '-'"""
    t = s['aa_tok']
    if t is None:
        return '-'
    t = t.upper().split('|')[0]
    return t if t in ('A', 'C', 'G', 'T') else '-'


def site_counts(ds, s, pop):
    """(ref calls, alt calls) of one population by explicit counting"""
    r = a = 0
    for (name, p), g in zip(ds['samples'], s['gts']):
        if p != pop:
            continue
        for al in called_alleles(g):
            if al == 0:
                r += 1
            else:
                a += 1
    return r, a


def oracle_dd(ds, use_filter):
    dd = {}
    for s in ds['sites']:
        if not (site_passes(s, use_filter) and site_is_snp(s)):
            continue
        dd['%s_%d' % (s['chrom'], s['pos'])] = dict(segregating=(s['ref'].upper(), s['alt'].upper()), outgroup_allele=site_aa(s),
                                                    calls={p: site_counts(ds, s, p) for p in ds['pops']})
    return dd


def entries_from_dd(odd, pop_ids, polarized):
    """[(called per pop, derived per pop)] for the SNPs that can enter a spectrum; derived allele = the one that is not the outgroup
    allele, or (unpolarised, to be folded) the second allele"""
    out = []
    for k, e in odd.items():
        a1, a2 = e['segregating']
        og = e['outgroup_allele']
        pol = og != '-' and og in (a1, a2)
        if polarized and not pol:
            continue
        called = tuple(sum(e['calls'][p]) for p in pop_ids)
        if polarized and og == a2:
            der = tuple(e['calls'][p][0] for p in pop_ids)
        else:
            der = tuple(e['calls'][p][1] for p in pop_ids)
        out.append((k, called, der))
    return out


def hyper(to, frm, hits):
    """{j: P(j derived among `to` drawn without replacement from `frm` with `hits` derived)} exactly"""
    den = comb(frm, to)
    return {j: Fraction(comb(hits, j) * comb(frm - hits, to - j), den)
            for j in range(max(0, to - (frm - hits)), min(hits, to) + 1)}


def oracle_spectrum(entries, proj, polarized):
    """exact spectrum as {index tuple: Fraction} (dense), number of SNPs used"""
    shape = tuple(p + 1 for p in proj)
    fs = {idx: Fraction(0) for idx in itertools.product(*[range(s) for s in shape])}
    conf = {}
    nused = 0
    for k, called, der in entries:
        if any(c < p for c, p in zip(called, proj)):
            continue
        nused += 1
        conf[(called, der)] = conf.get((called, der), 0) + 1
    for (called, der), cnt in conf.items():
        ws = [hyper(p, c, h) for p, c, h in zip(proj, called, der)]
        for combo in itertools.product(*[list(w.items()) for w in ws]):
            idx = tuple(j for j, _ in combo)
            w = Fraction(cnt)
            for _, x in combo:
                w *= x
            fs[idx] += w
    if not polarized:
        fs = fold_exact(fs, proj)
    return fs, nused


def fold_exact(fs, proj):
    tot = sum(proj)
    out = {}
    for idx, v in fs.items():
        rev = tuple(p - i for p, i in zip(proj, idx))
        s = sum(idx)
        if 2 * s < tot:
            out[idx] = v + fs[rev]
        elif 2 * s == tot:
            out[idx] = (v + fs[rev]) / 2
        else:
            out[idx] = Fraction(0)
    return out


def folded_out_mask(proj):
    tot = sum(proj)
    return {idx: 2 * sum(idx) > tot for idx in itertools.product(*[range(p + 1) for p in proj])}


def compare_fs(numpy, got, want, tol):
    """max |got-want| over all entries (data, regardless of mask) and the worst index"""
    worst, widx = 0.0, None
    if tuple(got.shape) != tuple(max(i[k] for i in want) + 1 for k in range(len(next(iter(want))))):
        return float('inf'), 'shape %s' % (tuple(got.shape),)
    data = numpy.asarray(got.data)
    for idx, w in want.items():
        g = float(data[idx])
        e = abs(g - float(w))
        if not e <= worst:
            worst, widx = e, idx
    return worst, widx


def expected_mask(proj, polarized, mask_corners):
    m = {idx: False for idx in itertools.product(*[range(p + 1) for p in proj])}
    first, last = tuple(0 for _ in proj), tuple(proj)
    if mask_corners:
        m[first] = m[last] = True
    if not polarized:
        fo = folded_out_mask(proj)
        m2 = {}
        for idx in m:
            rev = tuple(p - i for p, i in zip(proj, idx))
            m2[idx] = m[idx] or m[rev] or fo[idx]
        m = m2
    return m


def mask_equal(numpy, got, want, free=()):
    gm = numpy.ma.getmaskarray(got)
    return all(bool(gm[idx]) == v for idx, v in want.items() if idx not in free)


def free_entries(proj, polarized, mask_corners):
    """entries whose mask the property does not fix: fold() always masks the 'absent' corner, also for mask_corners=False"""
    return () if (polarized or mask_corners) else (tuple(0 for _ in proj),)


def case_rng(d):
    """per-case generator drawn from d.rng; its seed is recorded in the case info so one case can be replayed on its own:
    ds = gen_dataset(random.Random(case_seed), ...) is the first draw of every case"""
    cs = d.rng.getrandbits(48)
    return cs, random.Random(cs)


def head(text, n=500):
    return text if len(text) <= n else text[:n] + '...[%d chars; regenerate from case_seed]' % len(text)


TOL = 2e-13   # absolute, per SNP contributing (weights come from exp(gammaln) in dadi: ~1e-14 relative each)


def choose_projection(rng, ds, pop_ids):
    proj = []
    for p in pop_ids:
        n2 = 2 * ds['nind'][ds['pops'].index(p)]
        cap = n2 if len(pop_ids) < 3 else min(n2, 7)
        proj.append(rng.choice([n2 if n2 <= cap else cap, rng.randint(1, cap), rng.randint(1, cap), 2, 1]))
    return proj


# =========================================================================================== VCF -> dd -> spectrum
def drv_vcf(tier, part):
    import numpy, dadi, warnings
    from dadi import Misc, Spectrum
    n = N[tier]['vcf']
    d = Driver('C13', 'vcf_%d' % part, bound=(
        'slice %d/%d of %d seeded synthetic VCFs: 1-3 populations x 2-12 diploids (2-6 for 3 pops), 12-45 sites on 1-3 chromosomes named with '
        '_ and ., samples of all populations interleaved plus samples absent from the popinfo file, missing calls ./. .|. (rate 0..0.5) and '
        'half calls, FORMAT GT / GT:DP / GT:AD:DP / DP:GT / GT:GQ, FILTER PASS . q10 LowQual, REF/ALT lower case, multi-character, '
        'multi-allelic, symbolic; AA= / AA_ensembl= / AA_chimp= equal to ref, alt, third base, lower case, N . - multi-base, A|||, absent; '
        'plain/.gz/.zip VCF; popinfo with/without header, swapped columns, comments; filter on/off; 4 (pop subset/order, projection, '
        'polarized, mask_corners) draws per VCF. Oracle: explicit allele counting + exact Fraction hypergeometric projection and folding; '
        'tolerance %.0e x (1 + #SNPs) absolute per entry') % (part, NSLICE, n, TOL))
    tmp = tempfile.mkdtemp(prefix='verif_c13_')
    try:
        for i in range(part, n, NSLICE):
            cs, rng = case_rng(d)
            ds = gen_dataset(rng)
            how = rng.choice(['plain', 'plain', 'gz', 'zip'])
            vcf = os.path.join(tmp, 'd%d.vcf' % i + {'plain': '', 'gz': '.gz', 'zip': '.zip'}[how])
            pin = os.path.join(tmp, 'd%d.popinfo.txt' % i)
            text = write_vcf(vcf, ds, how)
            pstyle = write_popinfo(pin, ds, rng)
            use_filter = rng.random() < 0.7
            base = dict(case_seed=cs, pops=ds['pops'], nind=ds['nind'], nsites=len(ds['sites']), fmt=ds['fmt'], filter=use_filter,
                        popinfo_style=pstyle, container=how, vcf_head=head(text))
            key0 = (i, tuple(ds['pops']), tuple(ds['nind']), len(ds['sites']), how, use_filter)
            try:
                with warnings.catch_warnings():
                    warnings.simplefilter('ignore')
                    dd = Misc.make_data_dict_vcf(vcf, pin, filter=use_filter)
            except Exception as e:
                d.case(key0 + ('parse',), False, dict(base, error=repr(e)), fail_key='vcf-parse-exception')
                continue
            finally:
                os.remove(vcf)
                os.remove(pin)
            odd = oracle_dd(ds, use_filter)

            # --- data dictionary content
            bad = None
            if set(dd) != set(odd):
                bad = dict(extra=sorted(set(dd) - set(odd))[:5], missing=sorted(set(odd) - set(dd))[:5])
            else:
                for k, e in odd.items():
                    g = dd[k]
                    gc = {p: tuple(int(x) for x in g['calls'].get(p, ())) for p in ds['pops']}
                    if tuple(g['segregating']) != e['segregating'] or g['outgroup_allele'] != e['outgroup_allele'] or gc != e['calls'] \
                            or set(g['calls']) != set(ds['pops']):
                        bad = dict(snp=k, got=dict(seg=list(g['segregating']), og=g['outgroup_allele'], calls=gc),
                                   want=dict(seg=list(e['segregating']), og=e['outgroup_allele'], calls=e['calls']))
                        break
            d.case(key0 + ('dd',), bad is None, dict(base, mismatch=bad), nontrivial=len(odd) > 0, fail_key='vcf-data-dict')
            if bad is not None:
                continue

            for rep in range(4):
                k = rng.randint(1, len(ds['pops']))
                pop_ids = rng.sample(ds['pops'], k)
                proj = choose_projection(rng, ds, pop_ids)
                polarized = rng.random() < 0.6
                mc = rng.random() < 0.6
                info = dict(base, pop_ids=pop_ids, projections=proj, polarized=polarized, mask_corners=mc)
                key = key0 + (tuple(pop_ids), tuple(proj), polarized, mc)

                # count dictionary
                ocd = {}
                for _, e in odd.items():
                    a1, a2 = e['segregating']
                    og = e['outgroup_allele']
                    pol = og != '-' and og in (a1, a2)
                    called = tuple(sum(e['calls'][p]) for p in pop_ids)
                    der = tuple(e['calls'][p][0 if (pol and og == a2) else 1] for p in pop_ids)
                    ocd[(called, der, pol)] = ocd.get((called, der, pol), 0) + 1

                def chk_cd():
                    cd = Misc.count_data_dict(dd, pop_ids)
                    gcd = {(tuple(int(x) for x in a), tuple(int(x) for x in b), bool(c)): int(v) for (a, b, c), v in cd.items()}
                    ok = gcd == ocd
                    return ok, (None if ok else dict(got=sorted(map(str, gcd.items()))[:6], want=sorted(map(str, ocd.items()))[:6]))
                d.check(key + ('cd',), chk_cd, info, fail_key='count-dict', nontrivial=len(odd) > 0)

                entries = entries_from_dd(odd, pop_ids, polarized)
                want, nused = oracle_spectrum(entries, proj, polarized)

                def chk_fs():
                    with warnings.catch_warnings():
                        warnings.simplefilter('ignore')
                        fs = Spectrum.from_data_dict(dd, pop_ids, proj, mask_corners=mc, polarized=polarized)
                    err, widx = compare_fs(numpy, fs, want, TOL)
                    tol = TOL * (1 + nused)
                    total = float(numpy.asarray(fs.data).sum())
                    res = dict(values=err <= tol, total=abs(total - nused) <= tol * max(1, len(want)) ** 0.5 + 1e-12 * nused,
                               mask=mask_equal(numpy, fs, expected_mask(proj, polarized, mc), free_entries(proj, polarized, mc)),
                               folded=bool(fs.folded) == (not polarized), pop_ids=list(fs.pop_ids) == list(pop_ids),
                               type=isinstance(fs, Spectrum))
                    return all(res.values()), dict(checks=res, max_abs_err=err, at=widx, total=total, usable_snps=nused,
                                                   got=None if widx is None or isinstance(widx, str) else float(numpy.asarray(fs.data)[widx]),
                                                   want=None if widx is None or isinstance(widx, str) else str(want[widx]))
                d.check(key + ('fs',), chk_fs, info, fail_key='spectrum-vs-direct-count', nontrivial=nused > 0)
    finally:
        shutil.rmtree(tmp, ignore_errors=True)
    return d.results()


# =========================================================================================== subsampling
def subset_sums(values, k):
    """set of sums reachable by choosing exactly k of the values"""
    reach = {0: {0}}
    for v in values:
        new = {}
        for c, sums in reach.items():
            new.setdefault(c, set()).update(sums)
            if c < k:
                new.setdefault(c + 1, set()).update(x + v for x in sums)
        reach = new
    return reach.get(k, set())


def drv_subsample(tier):
    import numpy, dadi, warnings
    from dadi import Misc, Spectrum
    n = N[tier]['sub']
    d = Driver('C13', 'subsample', bound=(
        '%d seeded synthetic VCFs (generator of the vcf tasks, missing rate 0..0.5, half calls) x subsample sizes 1..n_ind per population '
        '(a random subset of populations), seeds None/int: the SNP set is exactly the usable lines where every requested population has >= n '
        'fully called individuals; every SNP has exactly 2n calls per population and an alt count reachable by some n-subset of the called '
        'individuals (subset-sum oracle); populations not requested are absent; same seed => same dictionary; n = all individuals and no '
        'missing data => equals direct counts; spectrum at projection 2n has total = #SNPs kept (polarisable ones when polarized)') % n)
    tmp = tempfile.mkdtemp(prefix='verif_c13_')
    try:
        for i in range(n):
            cs, rng = case_rng(d)
            full = i % 4 == 0
            ds = gen_dataset(rng, missing=0.0 if full else None, clean=full and i % 8 == 0)
            vcf = os.path.join(tmp, 's%d.vcf' % i)
            pin = os.path.join(tmp, 's%d.popinfo.txt' % i)
            text = write_vcf(vcf, ds)
            write_popinfo(pin, ds, rng)
            use_filter = rng.random() < 0.7
            req = ds['pops'] if (full or rng.random() < 0.6) else rng.sample(ds['pops'], rng.randint(1, len(ds['pops'])))
            sub = {p: (ds['nind'][ds['pops'].index(p)] if full else rng.randint(1, ds['nind'][ds['pops'].index(p)])) for p in req}
            seed = rng.choice([None, rng.randint(0, 10 ** 6)])
            info = dict(case_seed=cs, pops=ds['pops'], nind=ds['nind'], subsample=sub, seed=seed, filter=use_filter, fmt=ds['fmt'],
                        vcf_head=head(text))
            key = (i, tuple(ds['pops']), tuple(ds['nind']), tuple(sorted(sub.items())), seed, use_filter)
            try:
                with warnings.catch_warnings():
                    warnings.simplefilter('ignore')
                    numpy.random.seed(rng.randint(0, 2 ** 31 - 1))
                    dd = Misc.make_data_dict_vcf(vcf, pin, subsample=sub, filter=use_filter, seed=seed)
                    dd2 = Misc.make_data_dict_vcf(vcf, pin, subsample=sub, filter=use_filter, seed=seed) if seed is not None else None
            except Exception as e:
                d.case(key + ('parse',), False, dict(info, error=repr(e)), fail_key='subsample-exception')
                continue
            finally:
                os.remove(vcf)
                os.remove(pin)
            # oracle: which SNPs must be present, and what their calls may be
            want_keys = {}
            for s in ds['sites']:
                if not (site_passes(s, use_filter) and site_is_snp(s)):
                    continue
                avail = {}
                for (name, p), g in zip(ds['samples'], s['gts']):
                    if p in sub and not g['miss'] and not g['half']:
                        avail.setdefault(p, []).append(sum(g['a']))
                if all(len(avail.get(p, [])) >= sub[p] for p in sub):
                    want_keys['%s_%d' % (s['chrom'], s['pos'])] = (s, avail)
            ok_keys = set(dd) == set(want_keys)
            d.case(key + ('snpset',), ok_keys, dict(info, extra=sorted(set(dd) - set(want_keys))[:5], missing=sorted(set(want_keys) - set(dd))[:5]),
                   nontrivial=len(want_keys) > 0, fail_key='subsample-snp-set')
            bad = None
            for k, e in dd.items():
                if k not in want_keys:
                    continue
                s, avail = want_keys[k]
                if set(e['calls']) != set(sub):
                    bad = dict(snp=k, got_pops=sorted(e['calls']), want_pops=sorted(sub))
                    break
                for p in sub:
                    r, a = (int(x) for x in e['calls'][p])
                    if r + a != 2 * sub[p] or r < 0 or a < 0:
                        bad = dict(snp=k, pop=p, calls=[r, a], want_total=2 * sub[p])
                        break
                    if a not in subset_sums(avail[p], sub[p]):
                        bad = dict(snp=k, pop=p, calls=[r, a], alt_counts_of_called_individuals=avail[p], n=sub[p])
                        break
                if bad:
                    break
                if tuple(e['segregating']) != (s['ref'].upper(), s['alt'].upper()) or e['outgroup_allele'] != site_aa(s):
                    bad = dict(snp=k, seg=list(e['segregating']), og=e['outgroup_allele'])
                    break
            d.case(key + ('calls',), bad is None, dict(info, mismatch=bad), nontrivial=len(want_keys) > 0, fail_key='subsample-exact-size')
            if seed is not None:
                same = set(dd) == set(dd2) and all({p: tuple(v) for p, v in dd[k]['calls'].items()} ==
                                                    {p: tuple(v) for p, v in dd2[k]['calls'].items()} for k in dd)
                d.case(key + ('seed',), same, info, nontrivial=len(want_keys) > 0, fail_key='subsample-seed-determinism')
            if full:
                odd = oracle_dd(ds, use_filter)       # (SNPs with a half call in a population cannot supply all its individuals)
                same = all(k in dd and {p: tuple(int(x) for x in dd[k]['calls'][p]) for p in ds['pops']} == odd[k]['calls']
                           for k in want_keys)
                d.case(key + ('full',), same, info, nontrivial=len(want_keys) > 0, fail_key='subsample-all-individuals')
            # spectrum total at projection 2n
            if ok_keys and bad is None:
                pop_ids = list(sub)
                rng.shuffle(pop_ids)
                proj = [2 * sub[p] for p in pop_ids]
                polarized = rng.random() < 0.5
                nwant = sum(1 for k, (s, _) in want_keys.items()
                            if (not polarized) or site_aa(s) in (s['ref'].upper(), s['alt'].upper()))

                def chk_tot():
                    with warnings.catch_warnings():
                        warnings.simplefilter('ignore')
                        fs = Spectrum.from_data_dict(dd, pop_ids, proj, mask_corners=False, polarized=polarized)
                    tot = float(numpy.asarray(fs.data).sum())
                    # at full projection every SNP is a single unit entry: compare entry by entry with the dictionary itself
                    entries = entries_from_dd({k: dict(segregating=tuple(e['segregating']), outgroup_allele=e['outgroup_allele'],
                                                       calls={p: tuple(int(x) for x in e['calls'][p]) for p in sub}) for k, e in dd.items()},
                                              pop_ids, polarized)
                    want, nused = oracle_spectrum(entries, proj, polarized)
                    err, widx = compare_fs(numpy, fs, want, TOL)
                    return (abs(tot - nwant) <= 1e-9 and nused == nwant and err <= TOL * (1 + nused)), dict(total=tot, want_total=nwant, max_abs_err=err)
                d.check(key + ('total',), chk_tot, dict(info, pop_ids=pop_ids, projections=proj, polarized=polarized),
                        fail_key='subsample-spectrum-total', nontrivial=nwant > 0)
    finally:
        shutil.rmtree(tmp, ignore_errors=True)
    return d.results()


# =========================================================================================== DP=0 style missing calls
def drv_dp0(tier):
    """Missing calls written the way recent GATK versions do: a called GT (0/0) whose DP is 0.  dadi's reader says it treats DP=0 as a
    missing allele (comments at Misc.py:933-936, 992); the count must then not depend on which other FORMAT fields are present."""
    import numpy, dadi, warnings
    from dadi import Misc
    n = N[tier]['dp0']
    d = Driver('C13', 'dp0', bound=('%d seeded VCFs, FORMAT GT:DP / DP:GT / GT:GQ:DP (no AD field), missing calls written as a called genotype '
               'with DP=0, missing rate 0.05..0.5; filter on; without and with subsampling: calls per population == direct count of the '
               'alleles of samples with DP>0') % n)
    tmp = tempfile.mkdtemp(prefix='verif_c13_')
    try:
        for i in range(n):
            cs, rng = case_rng(d)
            ds = gen_dataset(rng, missing=rng.choice([0.05, 0.2, 0.5]), dp0=True)
            vcf = os.path.join(tmp, 'z%d.vcf' % i)
            pin = os.path.join(tmp, 'z%d.popinfo.txt' % i)
            text = write_vcf(vcf, ds)
            write_popinfo(pin, ds, rng)
            info = dict(case_seed=cs, pops=ds['pops'], nind=ds['nind'], fmt=ds['fmt'], vcf_head=head(text, 900))
            key = (i, tuple(ds['pops']), tuple(ds['nind']), ds['fmt'])
            odd = oracle_dd(ds, True)
            try:
                with warnings.catch_warnings():
                    warnings.simplefilter('ignore')
                    dd = Misc.make_data_dict_vcf(vcf, pin)
                    sub = {p: 1 for p in ds['pops']}
                    dds = Misc.make_data_dict_vcf(vcf, pin, subsample=sub, seed=1)
            except Exception as e:
                d.case(key + ('parse',), False, dict(info, error=repr(e)), fail_key='dp0-exception')
                continue
            finally:
                os.remove(vcf)
                os.remove(pin)
            bad = None
            if set(dd) != set(odd):
                bad = dict(extra=sorted(set(dd) - set(odd))[:5], missing=sorted(set(odd) - set(dd))[:5])
            else:
                for k, e in odd.items():
                    gc = {p: tuple(int(x) for x in dd[k]['calls'].get(p, ())) for p in ds['pops']}
                    if gc != e['calls']:
                        bad = dict(snp=k, got=gc, want=e['calls'])
                        break
            d.case(key + ('nosub',), bad is None, dict(info, mismatch=bad), fail_key='dp0-call-counted-without-AD')
            # subsample path: a SNP is present iff every population has >= 1 sample with DP>0
            want = set()
            for s in ds['sites']:
                if site_passes(s, True) and site_is_snp(s):
                    if all(any(p == pop and not g['miss'] for (nm, p), g in zip(ds['samples'], s['gts'])) for pop in ds['pops']):
                        want.add('%s_%d' % (s['chrom'], s['pos']))
            d.case(key + ('sub',), set(dds) == want, dict(info, extra=sorted(set(dds) - want)[:5], missing=sorted(want - set(dds))[:5]),
                   fail_key='dp0-subsample-snp-set')
    finally:
        shutil.rmtree(tmp, ignore_errors=True)
    return d.results()


# =========================================================================================== chunks and bootstraps
def to_array(numpy, want, proj):
    a = numpy.zeros(tuple(p + 1 for p in proj))
    for idx, v in want.items():
        a[idx] = float(v)
    return a


def compositions(total, parts):
    if parts == 1:
        yield (total,)
        return
    for k in range(total + 1):
        for rest in compositions(total - k, parts - 1):
            yield (k,) + rest


def drv_chunks(tier):
    import numpy, dadi, warnings, random as pyrandom
    from dadi import Misc, Spectrum
    n = N[tier]['chunks']
    d = Driver('C13', 'chunks', bound=(
        '%d seeded data dictionaries (from clean synthetic VCFs through make_data_dict_vcf, 1-3 chromosomes named with _ and ., positions '
        '1..3000, every 3rd with extra keys chrom_pos.info for recurrent sites) x chunk sizes {37,100,250,500,1000,2999,3000,5000, an exact '
        'SNP position}: fragments partition the keys, all keys of a fragment share chromosome and index ceil(pos/chunk)-1, no two non-empty '
        'fragments share it, values untouched; per-fragment spectrum == exact oracle of that chunk, sum == oracle of the whole (tol %.0e x '
        '(1+#SNPs)); 6 bootstraps each == sum_c m_c*chunk_c with non-negative integers m_c summing to #fragments (all compositions '
        'enumerated for <=6 fragments, least squares + rounding + verification above), folded/pop_ids as requested') % (n, TOL))
    tmp = tempfile.mkdtemp(prefix='verif_c13_')
    try:
        for i in range(n):
            cs, rng = case_rng(d)
            ds = gen_dataset(rng, clean=(i % 2 == 0), missing=rng.choice([0.0, 0.1]), npop=rng.choice([1, 2]), max_ind=5)
            vcf = os.path.join(tmp, 'c%d.vcf' % i)
            pin = os.path.join(tmp, 'c%d.popinfo.txt' % i)
            text = write_vcf(vcf, ds)
            write_popinfo(pin, ds, rng)
            try:
                with warnings.catch_warnings():
                    warnings.simplefilter('ignore')
                    dd = Misc.make_data_dict_vcf(vcf, pin)
            finally:
                os.remove(vcf)
                os.remove(pin)
            odd = oracle_dd(ds, True)
            if i % 3 == 0 and odd:
                # recurrent mutations at a site: key chrom_pos.info
                for k in rng.sample(sorted(odd), min(3, len(odd))):
                    for tag in rng.sample(['1', '2', 'b.x', 'rec'], 2):
                        odd[k + '.' + tag] = odd[k]
                        dd[k + '.' + tag] = dd[k]
                    del odd[k], dd[k]
            def parse(k):
                # chromosome = everything before the position; position = leading integer of the part after the last '_' that is
                # followed only by an optional .info  (keys were built as chrom + '_' + pos [+ '.' + info])
                for cut in range(len(k) - 1, -1, -1):
                    if k[cut] == '_':
                        tail = k[cut + 1:]
                        num = tail.split('.', 1)[0]
                        if num.isdigit() and k[:cut] in CHROMS:
                            return k[:cut], int(num)
                raise ValueError(k)
            chunk = rng.choice([37, 100, 250, 500, 1000, 2999, 3000, 5000] + ([parse(rng.choice(sorted(odd)))[1]] if odd else []))
            pop_ids = list(ds['pops'])
            rng.shuffle(pop_ids)
            proj = [rng.randint(1, min(6, 2 * ds['nind'][ds['pops'].index(p)])) for p in pop_ids]
            polarized = rng.random() < 0.6
            mc = rng.random() < 0.5
            info = dict(case_seed=cs, keys=sorted(dd)[:40], nkeys=len(dd), chunk_size=chunk, pop_ids=pop_ids, projections=proj,
                        polarized=polarized, mask_corners=mc)
            key = (i, len(dd), chunk, tuple(pop_ids), tuple(proj), polarized, mc)
            try:
                frags = Misc.fragment_data_dict(dd, chunk)
            except Exception as e:
                d.case(key + ('fragment',), False, dict(info, error=repr(e)), fail_key='fragment-exception', nontrivial=len(dd) > 0)
                continue
            if i % 6 == 0 and dd:
                # documented key format 'chrom_pos[.info]': an untagged and a tagged key at the same site
                _c, _rest = sorted(dd)[0].rsplit('_', 1)      # key = chrom_pos[.tag]; the chromosome name itself may contain '.' and '_'
                k0 = _c + '_' + _rest.split('.', 1)[0]
                dd2 = dict(dd)
                dd2[k0] = dd[sorted(dd)[0]]
                dd2[k0 + '.2'] = dd[sorted(dd)[0]]

                def chk_mixed():
                    fr = Misc.fragment_data_dict(dd2, chunk)
                    return sorted(k for f in fr for k in f) == sorted(dd2), None
                d.check(key + ('mixed',), chk_mixed, dict(info, added=[k0, k0 + '.2']), fail_key='fragment-plain-and-tagged-key-same-site')
            allk = [k for f in frags for k in f]
            okp = sorted(allk) == sorted(dd) and all(f[k] is dd[k] or f[k] == dd[k] for f in frags for k in f)
            d.case(key + ('partition',), okp, dict(info, nfrag=len(frags), got=len(allk)), fail_key='chunks-partition', nontrivial=len(dd) > 1)
            owners = {}
            okc = True
            badc = None
            for fi, f in enumerate(frags):
                cells = set((parse(k)[0], -(-parse(k)[1] // chunk) - 1) for k in f)
                if len(cells) > 1:
                    okc, badc = False, dict(fragment=sorted(f), cells=sorted(map(str, cells)))
                for c in cells:
                    if c in owners:
                        okc, badc = False, dict(cell=str(c), fragments=[owners[c], fi])
                    owners[c] = fi
            d.case(key + ('cells',), okc, dict(info, bad=badc), fail_key='chunks-index', nontrivial=len(dd) > 1)
            if not (okp and okc):
                continue
            # spectra of the chunks by the oracle's own chunk assignment
            by_cell = {}
            for k in odd:
                c, pos = parse(k)
                by_cell.setdefault((c, -(-pos // chunk) - 1), {})[k] = odd[k]
            whole, nwhole = oracle_spectrum(entries_from_dd(odd, pop_ids, polarized), proj, polarized)
            whole = to_array(numpy, whole, proj)
            with warnings.catch_warnings():
                warnings.simplefilter('ignore')
                fspecs = [Spectrum.from_data_dict(f, pop_ids, proj, mask_corners=mc, polarized=polarized) for f in frags]
            errs = []
            ospecs = []
            for f, fsf in zip(frags, fspecs):
                cell = (parse(next(iter(f)))[0], -(-parse(next(iter(f)))[1] // chunk) - 1) if f else None
                sub = by_cell.get(cell, {}) if cell else {}
                w, nu = oracle_spectrum(entries_from_dd(sub, pop_ids, polarized), proj, polarized)
                w = to_array(numpy, w, proj)
                ospecs.append(w)
                errs.append(float(numpy.max(numpy.abs(numpy.asarray(fsf.data) - w))) if w.size else 0.0)
            tol = TOL * (1 + nwhole)
            tot = sum(numpy.asarray(f.data) for f in fspecs) if fspecs else numpy.zeros_like(whole)
            d.case(key + ('chunk-spectra',), max(errs + [0.0]) <= tol, dict(info, max_abs_err=max(errs + [0.0])),
                   fail_key='chunk-spectrum-vs-direct-count', nontrivial=nwhole > 0)
            d.case(key + ('sum',), float(numpy.max(numpy.abs(tot - whole))) <= tol and abs(float(tot.sum()) - nwhole) <= tol * whole.size,
                   dict(info, max_abs_err=float(numpy.max(numpy.abs(tot - whole))), total=float(tot.sum()), usable=nwhole),
                   fail_key='chunks-sum-to-whole', nontrivial=nwhole > 0)
            # bootstraps
            K = len(frags)
            bseed = rng.randint(0, 10 ** 9)
            pyrandom.seed(bseed)
            with warnings.catch_warnings():
                warnings.simplefilter('ignore')
                boots = Misc.bootstraps_from_dd_chunks(frags, 6, pop_ids, proj, mask_corners=mc, polarized=polarized)
            A = numpy.array([w.ravel() for w in ospecs])             # K x M
            nz = [j for j in range(K) if A[j].any()]
            comps = numpy.array(list(compositions(K, K))) if K <= 6 else None
            for bi, b in enumerate(boots):
                v = numpy.asarray(b.data).ravel()
                btol = tol * K
                found = None
                if comps is not None:
                    resid = numpy.max(numpy.abs(comps @ A - v[None, :]), axis=1)
                    j = int(numpy.argmin(resid))
                    if resid[j] <= btol:
                        found = [int(x) for x in comps[j]]
                    method = 'enumeration'
                else:
                    method = 'lstsq'
                    An = A[nz]
                    if len(nz) == 0:
                        found = [K] + [0] * (K - 1) if float(numpy.max(numpy.abs(v))) <= btol else None
                    elif numpy.linalg.matrix_rank(An) < len(nz):
                        method = 'skipped-rank-deficient'
                        found = []
                    else:
                        m, *_ = numpy.linalg.lstsq(An.T, v, rcond=None)
                        mi = numpy.rint(m)
                        okm = (numpy.max(numpy.abs(m - mi)) < 1e-6 and mi.min() >= 0 and
                               (mi.sum() == K if len(nz) == K else mi.sum() <= K) and
                               float(numpy.max(numpy.abs(mi @ An - v))) <= btol)
                        found = [int(x) for x in mi] if okm else None
                attrs = (bool(b.folded) == (not polarized) and list(b.pop_ids) == list(pop_ids) and isinstance(b, Spectrum)
                         and tuple(b.shape) == tuple(p + 1 for p in proj))
                d.case(key + ('boot', bi), found is not None and attrs,
                       dict(info, bootstrap_seed=bseed, nfrag=K, method=method, multiplicities=found, attrs_ok=attrs,
                            boot_total=float(v.sum()), chunk_totals=[float(a.sum()) for a in A][:20]),
                       fail_key='bootstrap-not-sum-of-chunks', nontrivial=(method != 'skipped-rank-deficient' and len(nz) > 1))
    finally:
        shutil.rmtree(tmp, ignore_errors=True)
    return d.results()


# =========================================================================================== SNP-file format (make_data_dict)
def drv_snpfile(tier):
    import numpy, dadi, warnings
    from dadi import Misc, Spectrum
    n = N[tier]['snpfile']
    d = Driver('C13', 'snpfile', bound=(
        '%d seeded SNP files in the documented column format (comment lines, header with Allele1/Allele2 and 1-3 population columns, 10-40 '
        'SNPs, contexts in mixed case, outgroup base equal to allele 1, allele 2, a third base, N or -, 0..2n calls per population, id columns '
        'chrom pos with _ and . in the chromosome, or none -> SNP_<i>); plain for all, plus .gz/.zip containers and .gz/.zip popinfo for '
        'make_data_dict_vcf on every 6th case (own fail keys): dictionary == what was written; spectrum == exact oracle (tol %.0e x (1+#SNPs)); '
        'fragment_data_dict partitions the keys') % (n, TOL))
    tmp = tempfile.mkdtemp(prefix='verif_c13_')
    try:
        for i in range(n):
            cs, rng = case_rng(d)
            npop = rng.choice([1, 2, 3])
            pops = rng.sample(POPNAMES, npop)
            nchrom = [2 * rng.randint(2, 12 if npop < 3 else 4) for _ in pops]
            with_ids = rng.random() < 0.8
            chroms = rng.sample(CHROMS, rng.randint(1, 3))
            odd, lines, used = {}, [], set()
            lines.append('# synthetic SNP file')
            lines.append('Ingroup Outgroup Allele1 %s Allele2 %s%s' % (' '.join(pops), ' '.join(pops), ' Chrom Pos' if with_ids else ''))
            nsnp = rng.randint(10, 40)
            row = 0
            for _ in range(nsnp):
                if rng.random() < 0.1:
                    lines.append('# a comment in the middle')
                    row += 1
                a1, a2 = rng.sample(BASES, 2)
                third = rng.choice([b for b in BASES if b not in (a1, a2)])
                og = rng.choice([a1] * 4 + [a2] * 4 + [third, 'N', '-'])
                fl = lambda: rng.choice('ACGTacgt')
                ctx = fl() + rng.choice([a1, a1.lower()]) + fl()
                octx = ('---' if og == '-' else fl() + rng.choice([og, og.lower()]) + fl())
                calls = {}
                for p_, nc in zip(pops, nchrom):
                    tot = nc if rng.random() < 0.6 else rng.randint(0, nc)
                    c1 = rng.randint(0, tot)
                    calls[p_] = (c1, tot - c1)
                while True:
                    c, pos = rng.choice(chroms), rng.randint(1, 3000)
                    if (c, pos) not in used:
                        used.add((c, pos))
                        break
                f = [ctx, octx, rng.choice([a1, a1.lower()])] + [str(calls[p_][0]) for p_ in pops] + [rng.choice([a2, a2.lower()])] + \
                    [str(calls[p_][1]) for p_ in pops] + ([c, str(pos)] if with_ids else [])
                lines.append(rng.choice([' ', '\t']).join(f))
                # make_data_dict names unnamed SNPs by their 0-based line number after the header
                k = '%s_%d' % (c, pos) if with_ids else 'SNP_%d' % row
                row += 1
                odd[k] = dict(segregating=(a1, a2), outgroup_allele=og.upper(), calls=calls)
            text = '\n'.join(lines) + '\n'
            fname = os.path.join(tmp, 'snp%d.txt' % i)
            write_text(fname, text, 'plain')
            info = dict(case_seed=cs, pops=pops, nchrom=nchrom, text_head=head(text, 700))
            key = (i, tuple(pops), tuple(nchrom), nsnp, with_ids)
            try:
                dd = Misc.make_data_dict(fname)
            except Exception as e:
                d.case(key + ('parse',), False, dict(info, error=repr(e)), fail_key='snpfile-exception')
                continue
            finally:
                os.remove(fname)
            bad = None
            if set(dd) != set(odd):
                bad = dict(extra=sorted(set(dd) - set(odd))[:5], missing=sorted(set(odd) - set(dd))[:5])
            else:
                for k, e in odd.items():
                    g = dd[k]
                    gc = {p_: tuple(int(x) for x in g['calls'][p_]) for p_ in pops}
                    if tuple(g['segregating']) != e['segregating'] or g['outgroup_allele'] != e['outgroup_allele'] or gc != e['calls']:
                        bad = dict(snp=k, got=dict(seg=list(g['segregating']), og=g['outgroup_allele'], calls=gc), want=e)
                        break
            d.case(key + ('dd',), bad is None, dict(info, mismatch=bad), fail_key='snpfile-data-dict')
            if bad is not None:
                continue
            for rep in range(3):
                pop_ids = rng.sample(pops, rng.randint(1, npop))
                proj = [rng.choice([nchrom[pops.index(p_)], rng.randint(1, nchrom[pops.index(p_)]), 2]) for p_ in pop_ids]
                if len(pop_ids) == 3:
                    proj = [min(x, 7) for x in proj]
                polarized = rng.random() < 0.6
                mc = rng.random() < 0.5
                want, nused = oracle_spectrum(entries_from_dd(odd, pop_ids, polarized), proj, polarized)

                def chk_fs():
                    with warnings.catch_warnings():
                        warnings.simplefilter('ignore')
                        fs = Spectrum.from_data_dict(dd, pop_ids, proj, mask_corners=mc, polarized=polarized)
                    err, widx = compare_fs(numpy, fs, want, TOL)
                    total = float(numpy.asarray(fs.data).sum())
                    res = dict(values=err <= TOL * (1 + nused), total=abs(total - nused) <= TOL * (1 + nused) * len(want),
                               mask=mask_equal(numpy, fs, expected_mask(proj, polarized, mc), free_entries(proj, polarized, mc)),
                               folded=bool(fs.folded) == (not polarized), pop_ids=list(fs.pop_ids) == list(pop_ids))
                    return all(res.values()), dict(checks=res, max_abs_err=err, at=widx, total=total, usable_snps=nused)
                d.check(key + (tuple(pop_ids), tuple(proj), polarized, mc), chk_fs,
                        dict(info, pop_ids=pop_ids, projections=proj, polarized=polarized, mask_corners=mc),
                        fail_key='snpfile-spectrum-vs-direct-count', nontrivial=nused > 0)
            if with_ids:
                chunk = rng.choice([100, 700, 3000])

                def chk_frag():
                    fr = Misc.fragment_data_dict(dd, chunk)
                    return sorted(k for f in fr for k in f) == sorted(dd), dict(nfrag=len(fr))
                d.check(key + ('frag', chunk), chk_frag, dict(info, chunk_size=chunk), fail_key='snpfile-chunks-partition')
            # documented containers
            if i % 6 == 0:
                for how in ('gz', 'zip'):
                    fz = os.path.join(tmp, 'snp%d.txt.%s' % (i, how))
                    write_text(fz, text, how)

                    def chk_container():
                        try:
                            g = Misc.make_data_dict(fz)
                        finally:
                            os.remove(fz)
                        return (set(g) == set(odd) and all({p_: tuple(int(x) for x in g[k]['calls'][p_]) for p_ in pops} == odd[k]['calls']
                                                            for k in odd)), None
                    d.check(key + ('container', how), chk_container, dict(info, container=how), fail_key='snpfile-gz-zip-container')
                # gz / zip popinfo for make_data_dict_vcf
                ds = gen_dataset(rng, clean=True, nsites=8, npop=2, max_ind=3)
                for how in ('gz', 'zip'):
                    vcf = os.path.join(tmp, 'p%d.vcf' % i)
                    pin = os.path.join(tmp, 'p%d.popinfo.txt.%s' % (i, how))
                    vtext = write_vcf(vcf, ds)
                    write_text(pin, ''.join('%s\t%s\n' % (nm, p_) for nm, p_ in ds['samples'] if p_), how)

                    def chk_popinfo():
                        try:
                            with warnings.catch_warnings():
                                warnings.simplefilter('ignore')
                                g = Misc.make_data_dict_vcf(vcf, pin)
                        finally:
                            os.remove(vcf)
                            os.remove(pin)
                        o = oracle_dd(ds, True)
                        return (set(g) == set(o) and all({p_: tuple(int(x) for x in g[k]['calls'][p_]) for p_ in ds['pops']} == o[k]['calls']
                                                          for k in o)), None
                    d.check(key + ('popinfo', how), chk_popinfo, dict(case_seed=cs, container=how, vcf_head=head(vtext, 400)),
                            fail_key='popinfo-gz-zip-container')
    finally:
        shutil.rmtree(tmp, ignore_errors=True)
    return d.results()


# =========================================================================================== one-population statistics
def harmonic(n, power=1):
    return sum(Fraction(1, k ** power) for k in range(1, n))


def tajima_D(pi, S, n):
    """Tajima (1989) eqs. 28-38; pi, S exact, result float"""
    a1, a2 = harmonic(n), harmonic(n, 2)
    b1 = Fraction(n + 1, 3 * (n - 1))
    b2 = Fraction(2 * (n * n + n + 3), 9 * n * (n - 1))
    c1 = b1 - 1 / a1
    c2 = b2 - Fraction(n + 2, 1) / (a1 * n) + a2 / a1 ** 2
    e1, e2 = c1 / a1, c2 / (a1 ** 2 + a2)
    var = e1 * S + e2 * S * (S - 1)
    return float(pi - S / a1) / math.sqrt(float(var))


def close(a, b, rel=1e-11, ab=1e-11):
    return abs(a - b) <= ab + rel * max(abs(a), abs(b))


def drv_stats1d(tier):
    import numpy, dadi, warnings
    from dadi import Misc, Spectrum
    n = N[tier]['stats']
    d = Driver('C13', 'stats1d', bound=(
        '%d seeded one-population genotype matrices (2-12 diploids, 12-45 polarised biallelic PASS sites, missing rate 0 for every other case, '
        'else 0.05..0.5) written as VCF and read through make_data_dict_vcf + from_data_dict. Complete data at full sample size: S = number of '
        'columns showing both alleles, pi = mean number of differences over all pairs of chromosomes (explicit pair loop), theta_W = S/a_n, '
        'theta_L = sum of derived counts of segregating sites/(n-1), Tajima D from Tajima (1989) in Fractions. Missing data / projection to '
        'm in 2..2n: expectations under sampling m of the n_s called chromosomes without replacement, exactly: S = sum_s P(segregating), '
        'pi = sum_s h_s(n_s-h_s)/C(n_s,2), theta_L = sum_s E[j; j<m]/(m-1). Polarised and folded spectra, mask_corners on/off; S() leaves '
        'the mask unchanged. rel/abs tolerance 1e-11 (D: 1e-9)') % n)
    tmp = tempfile.mkdtemp(prefix='verif_c13_')
    try:
        for i in range(n):
            cs, rng = case_rng(d)
            complete = i % 2 == 0
            ds = gen_dataset(rng, npop=1, clean=True, missing=0.0 if complete else rng.choice([0.05, 0.2, 0.5]))
            pop = ds['pops'][0]
            nchr = 2 * ds['nind'][0]
            vcf = os.path.join(tmp, 't%d.vcf' % i)
            pin = os.path.join(tmp, 't%d.popinfo.txt' % i)
            text = write_vcf(vcf, ds)
            write_popinfo(pin, ds, rng)
            try:
                with warnings.catch_warnings():
                    warnings.simplefilter('ignore')
                    dd = Misc.make_data_dict_vcf(vcf, pin)
            finally:
                os.remove(vcf)
                os.remove(pin)
            m = nchr if complete else rng.randint(2, nchr)
            # haplotypes with derived-allele coding: 1 = differs from the ancestral allele
            sites = []
            for s in ds['sites']:
                anc_is_alt = site_aa(s) == s['alt'].upper()
                col = []
                for (nm, p_), g in zip(ds['samples'], s['gts']):
                    for al in called_alleles(g):
                        col.append((1 - al) if anc_is_alt else al)
                sites.append(col)
            usable = [c for c in sites if len(c) >= m]
            if complete:
                S = sum(1 for c in usable if 0 < sum(c) < len(c))
                npairs = nchr * (nchr - 1) // 2
                diffs = 0
                for a in range(nchr):
                    for b in range(a + 1, nchr):
                        diffs += sum(1 for c in usable if c[a] != c[b])
                pi = Fraction(diffs, npairs)
                thL = Fraction(sum(sum(c) for c in usable if sum(c) < nchr), nchr - 1)
                S = Fraction(S)
            else:
                S = pi = thL = Fraction(0)
                for c in usable:
                    ns_, h = len(c), sum(c)
                    S += 1 - Fraction(comb(ns_ - h, m) + comb(h, m), comb(ns_, m))
                    pi += Fraction(h * (ns_ - h), comb(ns_, 2))
                    thL += (Fraction(m * h, ns_) - m * Fraction(comb(h, m), comb(ns_, m))) / (m - 1)
            thW = S / harmonic(m)
            info = dict(case_seed=cs, nchrom=nchr, projection=m, complete=complete, nsites=len(sites),
                        derived_counts=[[sum(c), len(c)] for c in sites][:45], want=dict(S=float(S), pi=float(pi), theta_W=float(thW), theta_L=float(thL)))
            for polarized in (True, False):
                for mc in (True, False):
                    key = (i, nchr, m, complete, polarized, mc)

                    def chk():
                        with warnings.catch_warnings():
                            warnings.simplefilter('ignore')
                            fs = Spectrum.from_data_dict(dd, [pop], [m], mask_corners=mc, polarized=polarized)
                            before = numpy.ma.getmaskarray(fs).copy()
                            data_before = numpy.asarray(fs.data).copy()
                            got = dict(S=float(fs.S()), pi=float(fs.pi()), theta_W=float(fs.Watterson_theta()))
                            if polarized:
                                got['theta_L'] = float(fs.theta_L())
                            if m >= 4 and S > 1:
                                got['D'] = float(fs.Tajima_D())
                            after = numpy.ma.getmaskarray(fs)
                        res = dict(S=close(got['S'], float(S)), pi=close(got['pi'], float(pi)), theta_W=close(got['theta_W'], float(thW)),
                                   frame=bool((before == after).all()) and bool((data_before == numpy.asarray(fs.data)).all()))
                        if polarized:
                            res['theta_L'] = close(got['theta_L'], float(thL))
                        wantD = None
                        if 'D' in got:
                            wantD = tajima_D(pi, S, m)
                            res['D'] = close(got['D'], wantD, 1e-9, 1e-9)
                        return all(res.values()), dict(checks=res, got=got, want_D=wantD)
                    d.check(key, chk, dict(info, polarized=polarized, mask_corners=mc), fail_key='statistics-1d', nontrivial=S > 0)
    finally:
        shutil.rmtree(tmp, ignore_errors=True)
    return d.results()


# =========================================================================================== Fst
def wc_terms(counts, ns, sample_unit):
    """Weir & Cockerham (1984) variance components of one SNP under random mating (no heterozygote information: their b is set to 0
    and h-bar eliminated, as dadi's docstring says).  counts = allele counts, ns = numbers of chromosomes sampled per population.
    sample_unit='chromosomes-as-individuals': n_i of the paper := ns (how Spectrum.Fst reads the paper);
    sample_unit='gametes': the random-mating estimator proper, n_i = ns/2 diploid individuals (identical to the haploid estimator of
    Weir 1996 with ns gametes), i.e. 1/(nbar-1) where the former has 1/(2 nbar-1).  Returns (a, b+c) exactly."""
    r = len(ns)
    nsum = sum(ns)
    nbar = Fraction(nsum, r)
    nc = (nsum - Fraction(sum(x * x for x in ns), nsum)) / (r - 1)
    pbar = Fraction(sum(counts), nsum)
    s2 = sum(n_ * (Fraction(c, n_) - pbar) ** 2 for c, n_ in zip(counts, ns)) / ((r - 1) * nbar)
    X = pbar * (1 - pbar) - Fraction(r - 1, r) * s2
    if sample_unit == 'chromosomes-as-individuals':
        return nbar / nc * (s2 - X / (2 * nbar - 1)), 2 * nbar / (2 * nbar - 1) * X
    return nbar / nc * (s2 - X / (nbar - 1)), nbar / (nbar - 1) * X


def drv_fst(tier):
    import numpy, dadi, warnings
    from dadi import Misc, Spectrum
    n = N[tier]['fst']
    d = Driver('C13', 'fst', bound=(
        '%d seeded 2-3 population genotype matrices (2-12 diploids, 2-6 for three populations; polarised PASS sites; missing rate 0 for every '
        'other case) through VCF -> make_data_dict_vcf -> from_data_dict; full sample sizes (per-SNP loop over the allele counts) or '
        'projections (exact oracle spectrum x per-entry components); polarised and folded. Fst = sum_s a_s / sum_s (a_s+b_s+c_s), Weir & '
        'Cockerham (1984) p.1363 / eq.10 under random mating in Fractions: (1) with n_i := chromosomes per population as Spectrum.Fst reads it '
        '(fail key fst-formula, rel tol 1e-10); (2) with n_i := sampled diploid individuals = chromosomes/2, equivalently the haploid '
        'estimator on gametes (fail key fst-sample-size-unit)') % n)
    tmp = tempfile.mkdtemp(prefix='verif_c13_')
    try:
        for i in range(n):
            cs, rng = case_rng(d)
            complete = i % 2 == 0
            ds = gen_dataset(rng, npop=rng.choice([2, 2, 3]), clean=True, missing=0.0 if complete else rng.choice([0.05, 0.2]))
            vcf = os.path.join(tmp, 'f%d.vcf' % i)
            pin = os.path.join(tmp, 'f%d.popinfo.txt' % i)
            write_vcf(vcf, ds)
            write_popinfo(pin, ds, rng)
            try:
                with warnings.catch_warnings():
                    warnings.simplefilter('ignore')
                    dd = Misc.make_data_dict_vcf(vcf, pin)
            finally:
                os.remove(vcf)
                os.remove(pin)
            pop_ids = list(ds['pops'])
            rng.shuffle(pop_ids)
            if len(pop_ids) == 3 and rng.random() < 0.3:
                pop_ids = pop_ids[:2]
            full = [2 * ds['nind'][ds['pops'].index(p_)] for p_ in pop_ids]
            direct = complete and rng.random() < 0.6
            proj = full if direct else [rng.randint(2, min(f, 8 if len(pop_ids) == 3 else 14)) for f in full]
            odd = oracle_dd(ds, True)
            for polarized in (True, False):
                entries = entries_from_dd(odd, pop_ids, polarized)
                sums = {}
                for unit in ('chromosomes-as-individuals', 'gametes'):
                    A = B = Fraction(0)
                    if direct:
                        for k, called, der in entries:
                            a_, d_ = wc_terms(der, proj, unit)
                            A += a_
                            B += d_
                    else:
                        want, nused = oracle_spectrum(entries, proj, polarized)
                        for idx, w in want.items():
                            if w:
                                a_, d_ = wc_terms(idx, proj, unit)
                                A += w * a_
                                B += w * d_
                    sums[unit] = (A, B)
                key = (i, tuple(pop_ids), tuple(proj), polarized, direct)
                info = dict(case_seed=cs, pop_ids=pop_ids, projections=proj, polarized=polarized, per_snp_loop=direct,
                            counts=[[list(c), list(h)] for _, c, h in entries][:30])
                nontriv = sums['gametes'][0] + sums['gametes'][1] != 0
                if not nontriv:
                    continue
                with warnings.catch_warnings():
                    warnings.simplefilter('ignore')
                    fs = Spectrum.from_data_dict(dd, pop_ids, proj, polarized=polarized)
                    got = float(fs.Fst())
                A, B = sums['chromosomes-as-individuals']
                w1 = float(A / (A + B))
                d.case(key + ('formula',), close(got, w1, 1e-10, 1e-12), dict(info, got=got, want=w1), fail_key='fst-formula')
                # False alarm removed: an earlier version also demanded the estimator with n_i := diploid individuals (fail key
                # fst-sample-size-unit).  The property says the statistic from the spectrum equals the *same* statistic from the
                # genotype matrix; Spectrum.Fst documents Weir & Cockerham with the spectrum's sample sizes, which `fst-formula`
                # checks.  Demanding a different estimator convention is more than the property states.
    finally:
        shutil.rmtree(tmp, ignore_errors=True)
    return d.results()
