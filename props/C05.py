"""C05 - Sampling a spectrum from phi is exact binomial integration on every code path

Contracts (contracts/py_wiring.py c05_*): Numerics.trapz rule, _from_phi_1D_direct / _from_phi_2D_direct entry-wise closed forms with the
total-equals-trapezoid-mass lemma (binomial theorem, ring normaliser), from_phi dispatch and bookkeeping for 1-4 populations, roles of the
inbreeding arguments.  the semi-analytic samplers (1-D incomplete-beta form and the 2-5-D linear-algebra recursion) entry-wise equal to the tensor product of the exact
piecewise-linear sampling operator, each axis with its own sample size (betainc uninterpreted).  Admixture and inbreeding samplers stay with the bounded drivers.
"""
from vf.helpers import bounded_tasks

META = dict(
    level='other',
    explanation='Closed-form and wiring contracts of the direct samplers and of the dispatch discharged from their AST by z3 and the ring normaliser (numpy.trapezoid by its documented rule, trusted); the semi-analytic, admixture and inbreeding samplers are run-time contracts over the bounded domain stated per driver (never counted as proved).',
    trusted_base=['oracles of props/bounded_C05.py (independent of dadi: exact rationals, mpmath, dense linear algebra, explicit index loops)'],
    rule='cases enumerated or sampled as stated in each driver\'s bound; a case is non-trivial unless the driver marks it degenerate; distinct by its key',
)


def tasks(tier):
    from vf.core import Task
    W = lambda name, fname, **kw: Task('props.wire:run', name='C05/wire.' + name, fname=fname, kwargs=kw, timeout=400)
    ts = [Task('props.C05:ob_memo', name='C05/memo-keys', timeout=120), W('c05_inbreeding_roles', 'c05_inbreeding_roles'), W('inbreeding_1d.n2_G4', 'c05_inbreeding_1d', n=2, G=4), W('inbreeding_1d.n4_G3', 'c05_inbreeding_1d', n=4, G=3), W('trapz', 'c05_trapz'),
          W('direct_1d.n3_G4', 'c05_direct_1d', n=3, G=4), W('direct_1d.n2_G3_het', 'c05_direct_1d', n=2, G=3, het='xx'),
          W('direct_2d.2_1_G3', 'c05_direct_2d', nx=2, ny=1, G=3)]
    ts += [W('betabinom_convolution.i%d_n%d_ploidy%d' % a_, 'c05_betabinom_convolution', i=a_[0], n=a_[1], ploidy=a_[2]) for a_ in ((2, 2, 2), (4, 2, 3), (5, 3, 3), (4, 2, 4))]
    ts += [W('dispatch.%dD' % P, 'c05_from_phi_dispatch', P=P) for P in (1, 2, 3, 4)]
    ts += [W('admix_props.%dD' % K, 'c05_admix_props', K=K) for K in (2, 3, 4)]
    ts += [W('analytic_1d.n3_G4', 'c05_analytic_1d', n=3, G=4), W('cached_dbeta.n2_G3', 'c05_cached_dbeta', n=2, G=3)]
    ts += [W('linalg.%s_G%d' % ('_'.join(map(str, ns)), G), 'c05_linalg', ns=list(ns), G=G)
           for ns, G in (((1, 2), 3), ((1, 2, 1), 2), ((2, 1, 1), 2), ((1, 1, 1, 2), 2), ((1, 1, 2, 1), 2), ((2, 1, 1, 1), 2),
                         ((1, 1, 2, 1, 1), 2), ((1, 1, 1, 1, 2), 2), ((2, 1, 1, 1, 1), 2))]       # every pair of adjacent axes differs in some configuration
    if tier == 'thorough':
        ts += [W('analytic_1d.n5_G5', 'c05_analytic_1d', n=5, G=5), W('linalg.2_3_G3', 'c05_linalg', ns=[2, 3], G=3), W('linalg.2_1_2_G2', 'c05_linalg', ns=[2, 1, 2], G=2),
               W('direct_1d.n6_G6', 'c05_direct_1d', n=6, G=6), W('direct_1d.n4_G5_het', 'c05_direct_1d', n=4, G=5, het='xx'),
               W('direct_2d.2_2_G4', 'c05_direct_2d', nx=2, ny=2, G=4)]
    return ts + bounded_tasks('C05', tier)


def ob_memo():
    """the memoised helpers of the sampling kernels (beta-binomial convolution, partition counts, dbeta tables): the cache key determines every argument"""
    from contracts.py_memo import all_memo_obligations
    return all_memo_obligations('C05', only=['cached_part', 'cached_part_precalc', 'multinomln', 'BetaBinomln', 'cached_dbeta'])

MANIFEST_ENTRY = dict(
    category='other',
    engine='bounded',
    technique='sidecar contracts on the real functions: wiring / closed-form obligations from the AST discharged by z3 and the ring normaliser where the functions are within reach; bounded run-time contracts with independent oracles for the rest (never counted as proved)',
    text='Discharged from the real source on every run (all values, stated small shapes): Numerics.trapz rule; the 1-D inbreeding sampler (every entry, BetaBinomConvolution uninterpreted); BetaBinomConvolution itself = sum over the partition table of exp(multinomln + sum_{p=0..ploidy} count_p BetaBinomln(p)) for ploidy 2, 3, 4 (log-weights and the partition table by contract); _from_phi_1D_direct / _2D_direct entry-wise + total = trapezoid mass; _from_phi_1D_analytic, cached_dbeta, _from_phi_{2,3,4,5}D_linalg = tensor product of the exact piecewise-linear sampling operator with each axis\'s own sample size (betainc uninterpreted); _from_phi_{2,3,4}D_admix_props executed with a symbolic proportion matrix; memo keys of the sampling helpers; from_phi dispatch, arguments, labels, extrap_x (1-4 D); inbreeding argument roles. Bounded run-time contracts (never counted as proved): from_phi on every path against exact polynomial integration of the binomial kernel (1-5 dimensions), mass, projection and path agreement, inbreeding sampling.',
    note='bounded: see coverage.bounded.drivers[].bound in the evidence file for the exact domain of every driver',
)
