"""C01 - One-population SFS matches exact coalescent and selection-equilibrium theory

Contracts: the obligations listed in tasks() (contracts/py_wiring.py, contracts/py_memo.py, contracts/c_*.py) are generated from the real source on every run and
discharged by z3 / the ring normaliser; clauses outside their reach are run-time contracts over stated bounded domains (props/bounded_C01.py).
"""
from vf.helpers import bounded_tasks

META = dict(
    level='other',
    explanation='Wiring / closed-form / memo-key contracts generated from the real source and discharged by z3 and the ring normaliser for the functions within reach (see coverage.obligations); the remaining clauses are run-time contracts over the bounded domain stated per driver (bounded stand-in, never counted as proved).',
    trusted_base=['oracles of props/bounded_C01.py (independent of dadi: exact rationals, mpmath, dense linear algebra, explicit index loops)'],
    rule='cases enumerated or sampled as stated in each driver\'s bound; a case is non-trivial unless the driver marks it degenerate; distinct by its key',
)


def tasks(tier):
    from vf.core import Task
    return [Task('props.wire:run', name='C01/wire.c01_phi_1D_snm', fname='c01_phi_1D_snm', timeout=300), Task('props.wire:run', name='C01/wire.c01_phi_1D_dispatch', fname='c01_phi_1D_dispatch', timeout=300), Task('props.wire:run', name='C01/wire.c01_phi_1D_genic', fname='c01_phi_1D_genic', timeout=300), Task('props.wire:run', name='C01/wire.c01_phi_1D_general_h', fname='c01_phi_1D_general_h', timeout=300),
            Task('props.C01:t_kernel_1d', name='C01/kernel.implicit_1Dx', timeout=900),
            Task('props.C01:t_driver_1d', name='C01/wire.one_pop.step', timeout=600),
            Task('props.C01:t_two_steps_1d', name='C01/wire.one_pop.two-steps', timeout=600),
            Task('props.C01:t_dispatch_1d', name='C01/wire.one_pop.const-dispatch', timeout=600),
            Task('props.C01:t_const_1d', name='C01/wire.one_pop.const', timeout=600),
            Task('props.C01:t_const_1d_late', name='C01/wire.one_pop.const-late-start', timeout=600),
            Task('props.C01:t_const_1d_two_steps', name='C01/wire.one_pop.const-two-steps', timeout=600)] + bounded_tasks('C01', tier)


def _rename(rs):
    for r in rs:
        r['id'] = r['id'].replace('C02/', 'C01/', 1)
        if r.get('finding_key'):
            r['finding_key'] = r['finding_key'].replace('C02/', 'C01/', 1)
    return rs


def t_kernel_1d():
    """the one-population kernel against the shared contracts (same kernel contract as C02: V = Vfunc_beta(x, nu, beta), M = Mfunc1D, delj, a/b/c, Thomas solve)"""
    from contracts.c_kernels import verify_kernel
    return verify_kernel('dadi/integration1D.c', 'implicit_1Dx', pid='C01')


def t_driver_1d():
    """one step of the time-dependent one-population driver: influx, then the kernel with the current (nu, gamma, h, beta), dt from _compute_dt"""
    from contracts import py_wiring as W
    return _rename(W.c02_driver_step(1, ()))


def t_two_steps_1d():
    """two consecutive steps of the time-dependent driver: the time step and every parameter are re-evaluated at each step's own time"""
    from contracts import py_wiring as W
    return _rename(W.c02_driver_two_steps(1))


def t_dispatch_1d():
    """all-scalar parameters: handed to _one_pop_const_params with every shared parameter (T, initial_t, nu, gamma, h, theta0, beta) in its own slot"""
    from contracts import py_wiring as W
    return _rename(W.c02_const_dispatch(1))


def t_const_1d():
    """the constant-parameter one-population driver assembles the same tridiagonal system as the kernel (n = 4 grid points, all values symbolic)"""
    from contracts import py_wiring as W
    return _rename(W.c02_const_1d(4))


def t_const_1d_late():
    """the same from a non-zero initial_t with a time step longer than T: the single step has length T - initial_t (b and r entries)"""
    from contracts import py_wiring as W
    return _rename(W.c02_const_1d(4, late_start=True))


def t_const_1d_two_steps():
    """two consecutive steps of the constant-parameter driver: same off-diagonals, the 1/dt of step 1 does not leak into step 2, right-hand sides"""
    from contracts import py_wiring as W
    return _rename(W.c02_const_1d_two_steps(4))


MANIFEST_ENTRY = dict(
    category='other',
    engine='bounded',
    technique='sidecar contracts on the real functions: wiring / closed-form obligations from the AST discharged by z3 and the ring normaliser where the functions are within reach; bounded run-time contracts with independent oracles for the rest (never counted as proved)',
    text='Discharged from the real source on every run (all values, stated small shapes): closed forms of phi_1D_snm, phi_1D_genic (every entry incl. the x = 1 limit, both regimes), the general-dominance branch of phi_1D (quad axiom with integrand / limit checks, overflow guard on the rescaled gamma, every entry), dispatch h=0.5 -> genic, gamma=0 -> snm incl. beta; the 1-D kernel implicit_1Dx against the shared C contracts (V with beta, M, delj, a/b/c, solve, frame, bounds); one step and two consecutive steps of one_pop (influx then kernel, dt and parameters re-evaluated at each step), dispatch of all-scalar parameters to the constant integrator slot by slot; _one_pop_const_params system (n=4) and two consecutive steps. Bounded run-time contracts (never counted as proved): One-population spectra against the exact Kingman coalescent expectation and the closed-form selection equilibrium, first-order convergence in the time step, phi_1D continuity/finite/non-negative over the gamma grid, stationarity under further integration.',
    note='bounded: see coverage.bounded.drivers[].bound in the evidence file for the exact domain of every driver',
)
