"""C01 - One-population SFS matches exact coalescent and selection-equilibrium theory

Status: bounded run-time contracts only (props/bounded_C01.py) until the proof obligations of DESIGN.md 7 C01 are added.
"""
from vf.helpers import bounded_tasks

META = dict(
    level='exploration',
    expects_obligations=False,
    explanation='Run-time contracts on the real functions over the bounded domain stated per driver (bounded stand-in; nothing proved).',
    trusted_base=['oracles of props/bounded_C01.py (independent of dadi: exact rationals, mpmath, dense linear algebra, explicit index loops)'],
    rule='cases enumerated or sampled as stated in each driver\'s bound; a case is non-trivial unless the driver marks it degenerate; distinct by its key',
)


def tasks(tier):
    return bounded_tasks('C01', tier)


MANIFEST_ENTRY = dict(
    category='exploration',
    engine='bounded',
    technique='bounded run-time contracts on the real functions with independent oracles (stand-in for the contract proofs, never counted as proved)',
    text='One-population spectra against the exact Kingman coalescent expectation and the closed-form selection equilibrium, first-order convergence in the time step, phi_1D continuity/finite/non-negative over the gamma grid, stationarity under further integration.',
    note='bounded: see coverage.bounded.drivers[].bound in the evidence file for the exact domain of every driver',
)
