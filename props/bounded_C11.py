"""E4 bounded driver for C11: Poisson / multinomial likelihoods over jointly unmasked entries.

Oracle: explicit index loops over the entries masked in neither spectrum, each term
-m + d*log(m) - loggamma(d+1) evaluated with mpmath at 40 digits; sums of data/model for the optimal
scaling in exact Fraction arithmetic; folding of the model against folded data by an explicit index
loop (idx <-> ns-idx), never dadi's fold().
"""
from vf.core import Task
from vf.bounded import Driver


def tasks(tier):
    q = tier == 'quick'
    n = 170 if q else 2400
    out = []
    for nd in (1, 2, 3):
        out.append(Task('props.bounded_C11:drv_ll', name='C11/bounded/ll.%dd' % nd, tier=tier, ndim=nd, npairs=n, timeout=900))
    out.append(Task('props.bounded_C11:drv_fold', name='C11/bounded/autofold', tier=tier, npairs=150 if q else 1800, timeout=900))
    out.append(Task('props.bounded_C11:drv_best', name='C11/bounded/best-model', tier=tier, npairs=120 if q else 1000, timeout=900))
    out.append(Task('props.bounded_C11:drv_resid', name='C11/bounded/residuals', tier=tier, npairs=200 if q else 2000, timeout=900))
    return out



def _det(d_):
    """Driver seeds its rng with hash(name), which is salted per process: re-seed deterministically from VERIF_SEED and the
    task name so that a failing case can be replayed by re-running the task."""
    import random, zlib
    from vf import common
    d_.rng = random.Random(common.seed() * 7919 + zlib.crc32(d_.name.encode()))
    return d_

# ------------------------------------------------------------------------------------------ generators
def _shape(rng, ndim):
    hi = {1: 14, 2: 7, 3: 5}[ndim]
    return tuple(rng.randint(2, hi) for _ in range(ndim))


def _rand_values(rng, np, shape, kind):
    """kind 'model': strictly positive over 6 decades; 'data': zeros, integers and non-integers."""
    n = int(np.prod(shape))
    vals = []
    for _ in range(n):
        if kind == 'model':
            vals.append(10 ** rng.uniform(-3, 3))
        else:
            u = rng.random()
            if u < 0.2:
                vals.append(0.0)
            elif u < 0.45:
                vals.append(float(rng.randint(1, 400)))
            elif u < 0.55:
                vals.append(rng.uniform(1e-6, 1e-2))           # tiny projected counts
            elif u < 0.6:
                vals.append(rng.uniform(1e3, 2e4))
            else:
                vals.append(rng.uniform(0.01, 60.0))            # projected (non-integer) data
    return np.array(vals, dtype=float).reshape(shape)


def _rand_mask(rng, np, shape):
    p = rng.choice([0.0, 0.0, 0.1, 0.3, 0.6, 1.0 if rng.random() < 0.1 else 0.2])
    return np.array([rng.random() < p for _ in range(int(np.prod(shape)))], dtype=bool).reshape(shape)


def _layout(rng, np, arr):
    """Return arr with the same values in a possibly unusual memory layout."""
    if arr.ndim >= 2:
        c = rng.randrange(3)
        if c == 1:
            return np.asfortranarray(arr)
        if c == 2:
            return np.ascontiguousarray(arr.T).T
    return arr


def _spectrum(dadi, rng, np, vals, mask, folded=False):
    mc = rng.random() < 0.6
    fs = dadi.Spectrum(_layout(rng, np, vals), mask=mask.copy(), mask_corners=mc, data_folded=folded)
    return fs


def _snap(np, fs):
    return (np.array(fs.data, copy=True), np.array(np.ma.getmaskarray(fs), copy=True), bool(getattr(fs, 'folded', False)))


def _same(np, fs, snap):
    return (np.array_equal(fs.data, snap[0], equal_nan=True) and np.array_equal(np.ma.getmaskarray(fs), snap[1])
            and bool(getattr(fs, 'folded', False)) == snap[2])


# ------------------------------------------------------------------------------------------ oracles
def _mp():
    import mpmath
    mpmath.mp.dps = 40
    return mpmath


def _terms(mp, np, m, d, joint, theta=None):
    """Per-entry Poisson log-probabilities (mpf) over entries with joint False and m>0; None elsewhere.
    Also returns the float round-off scale of each term."""
    terms, scale = {}, {}
    th = mp.mpf(1) if theta is None else theta
    for idx in np.ndindex(m.shape):
        if joint[idx]:
            continue
        mm, dd = th * mp.mpf(float(m[idx])), mp.mpf(float(d[idx]))
        if mm <= 0:
            continue
        lg = mp.loggamma(dd + 1)
        t = -mm + dd * mp.log(mm) - lg
        terms[idx] = t
        scale[idx] = 1.0 + float(mm) + abs(float(dd * mp.log(mm))) + abs(float(lg))
    return terms, scale


def _theta_exact(np, m, d, joint):
    from fractions import Fraction
    sd = sm = Fraction(0)
    for idx in np.ndindex(m.shape):
        if not joint[idx]:
            sd += Fraction(float(d[idx]))
            sm += Fraction(float(m[idx]))
    return sd, sm


def _fold_oracle(np, vals, mask):
    """Explicit-loop folding: entry idx (sum s) and its mirror ns-idx are the same minor-allele class."""
    ns = [k - 1 for k in vals.shape]
    N = sum(ns)
    out = np.zeros(vals.shape)
    omask = np.zeros(vals.shape, dtype=bool)
    for idx in np.ndindex(vals.shape):
        s = sum(idx)
        rev = tuple(n - i for n, i in zip(ns, idx))
        if 2 * s > N:
            omask[idx] = True
            continue
        if mask[idx] or mask[rev]:
            omask[idx] = True
        if 2 * s < N:
            out[idx] = vals[idx] + vals[rev]
        else:
            out[idx] = 0.5 * vals[idx] + 0.5 * vals[rev]
    # literal C09 mask law (union of own and mirror masks, folded-out half masked): an unmasked 'absent' corner stays unmasked
    # (fold() used to mask it through the constructor default; fixed, see known_findings.json C09 fold-masks-unmasked-corners)
    return out, omask


def _silenced(fn):
    """dadi's ll_per_bin has a stray print() on its model-masked warning path: keep the workers' stdout clean."""
    import functools

    @functools.wraps(fn)
    def wrapper(*a, **k):
        import contextlib, io
        with contextlib.redirect_stdout(io.StringIO()):
            return fn(*a, **k)
    return wrapper


def _quiet():
    import logging
    logging.getLogger('Inference').setLevel(logging.ERROR)
    logging.getLogger('Spectrum_mod').setLevel(logging.ERROR)


def _isnum(np, x):
    return x is not np.ma.masked and np.isfinite(float(x))


CORNER_FK = 'theta-drops-unmasked-corners-when-masks-differ'


def _check_pair(d_, np, mp, I, key, model, data, m_eff, mask_m_eff, info, rng, prefix='', tf=1.0):
    """All likelihood contracts for one (model, data) pair; m_eff/mask_m_eff are the oracle's model
    values/mask after (independent) folding when data is folded and the model is not."""
    dv = np.array(data.data)
    dmask = np.ma.getmaskarray(data)
    joint = np.logical_or(mask_m_eff, dmask)
    nfree = int((~joint).sum())
    nontriv = nfree > 0
    sm0, sd0 = _snap(np, model), _snap(np, data)
    nd = m_eff.ndim
    corners = [(0,) * nd, tuple(k - 1 for k in m_eff.shape)]
    # Known class (see final report): Numerics.intersect_masks rebuilds both spectra with the constructor's default
    # mask_corners=True whenever the two masks differ, so corner entries unmasked in BOTH are dropped from theta-hat
    # (but not from ll).  Every theta-dependent check on such a pair reports under one fail_key.
    corner_case = (not np.array_equal(mask_m_eff, dmask)) and any(not joint[c] for c in corners)
    info = dict(info, corner_case=bool(corner_case))

    def fk(name):
        return CORNER_FK if corner_case else prefix + name

    # ---- per-bin values and mask
    terms, scale = _terms(mp, np, m_eff, dv, joint)
    got = I.ll_per_bin(model, data)
    gmask = np.ma.getmaskarray(got)
    bad = []
    for idx in np.ndindex(m_eff.shape):
        if joint[idx]:
            if not gmask[idx]:
                bad.append(('unmasked-where-joint-masked', idx))
        elif idx in terms:
            if gmask[idx]:
                bad.append(('masked-where-jointly-unmasked', idx))
            elif not abs(float(got.data[idx]) - float(terms[idx])) <= tf * 1e-13 * scale[idx]:
                bad.append(('value', idx, float(got.data[idx]), float(terms[idx])))
        else:  # model == 0: only generated where data == 0; contribution 0, masked or 0.0 both fine
            if not gmask[idx] and got.data[idx] != 0:
                bad.append(('zero-model-zero-data', idx, float(got.data[idx])))
    d_.case(key + ('per_bin',), not bad, dict(info, bad=bad[:4]), nontriv, prefix + 'll_per_bin-value-or-mask')

    # ---- ll
    want = mp.fsum(terms.values())
    tol = tf * 2e-13 * sum(scale.values()) + 1e-300
    ll = I.ll(model, data)
    if nfree == 0 or not terms:
        ok = (ll is np.ma.masked) or float(ll) == 0.0
        d_.case(key + ('ll-empty',), ok, dict(info, got=repr(ll)), False, prefix + 'll-all-masked')
        return
    ok = _isnum(np, ll) and abs(float(ll) - float(want)) <= tol
    d_.case(key + ('ll',), ok, dict(info, got=repr(ll), want=float(want), tol=tol), nontriv, prefix + 'll-sum')
    mll = I.minus_ll(model, data)
    d_.case(key + ('minus_ll',), _isnum(np, mll) and float(mll) == -float(ll), dict(info, got=repr(mll), ll=repr(ll)), nontriv, prefix + 'minus_ll')
    if (not model.folded) and data.folded:
        l3 = I.ll(model.fold(), data)   # path agreement: explicit fold() of the model gives the same likelihood
        d_.case(key + ('explicit-fold',), _isnum(np, l3) and abs(float(l3) - float(ll)) <= tol, dict(info, got=repr(l3), ll=repr(ll)), nontriv,
                prefix + 'vs-explicit-fold')

    # ---- optimal scaling
    sd, sm = _theta_exact(np, m_eff, dv, joint)
    if sm == 0:
        return
    th_exact = sd / sm

    def theta_part():
        th = I.optimal_sfs_scaling(model, data)
        ok = _isnum(np, th) and abs(float(th) - float(th_exact)) <= tf * 1e-13 * abs(float(th_exact))
        d_.case(key + ('theta',), ok, dict(info, got=repr(th), want=float(th_exact)), nontriv, fk('optimal_sfs_scaling'))
        sc = I.optimally_scaled_sfs(model, data)
        mv, mm0 = np.array(model.data), np.ma.getmaskarray(model)
        ok = (np.array_equal(np.ma.getmaskarray(sc), mm0) and bool(getattr(sc, 'folded', None) == model.folded) and
              np.all(np.abs(sc.data[~mm0] - float(th_exact) * mv[~mm0]) <= tf * 4e-13 * np.abs(float(th_exact) * mv[~mm0])))
        d_.case(key + ('scaled',), bool(ok), dict(info, theta=float(th_exact)), nontriv, fk('optimally_scaled_sfs'))
        if sd == 0:
            return True, None   # all jointly unmasked data are zero: theta=0, the scaled model is identically zero
        # ---- multinomial ll = Poisson ll at theta-hat
        thm = mp.mpf(th_exact.numerator) / mp.mpf(th_exact.denominator)
        terms_t, scale_t = _terms(mp, np, m_eff, dv, joint, theta=thm)
        want_m = mp.fsum(terms_t.values())
        tol_m = tf * 2e-13 * sum(scale_t.values())
        lm = I.ll_multinom(model, data)
        ok = _isnum(np, lm) and abs(float(lm) - float(want_m)) <= tol_m
        d_.case(key + ('ll_multinom',), ok, dict(info, got=repr(lm), want=float(want_m), tol=tol_m), nontriv, fk('ll_multinom-value'))
        if not _isnum(np, lm):
            return True, None
        pb = I.ll_multinom_per_bin(model, data)
        d_.case(key + ('multinom_per_bin',), abs(float(pb.sum()) - float(lm)) <= tol_m, dict(info), nontriv, fk('ll_multinom_per_bin-sum'))
        d_.case(key + ('minus_ll_multinom',), float(I.minus_ll_multinom(model, data)) == -float(lm), dict(info), nontriv, fk('minus_ll_multinom'))
        # ---- theta-hat maximises theta -> ll(theta*model, data): oracle at perturbed theta, and dadi's own ll
        for f in (1 - 1e-3, 1 + 1e-3, 0.5, 2.0, 10 ** rng.uniform(-2, 2)):
            t2, s2 = _terms(mp, np, m_eff, dv, joint, theta=thm * mp.mpf(f))
            w2 = mp.fsum(t2.values())
            t2tol = tf * 2e-13 * sum(s2.values())
            ok = float(w2) <= float(lm) + tol_m + t2tol
            ll2 = I.ll((float(th_exact) * f) * model, data)
            ok2 = _isnum(np, ll2) and float(ll2) <= float(lm) + tol_m + t2tol and abs(float(ll2) - float(w2)) <= 2 * t2tol
            d_.case(key + ('theta-max', f), ok and ok2, dict(info, f=f, ll_theta=float(w2), ll2=repr(ll2), ll_multinom=float(lm)), nontriv,
                    fk('theta-hat-not-maximal'))
        # ---- invariance to rescaling the model
        for c in (10 ** rng.uniform(-3, 3), 0.5, 7.0):
            lc = I.ll_multinom(c * model, data)
            thc = I.optimal_sfs_scaling(c * model, data)
            ok = _isnum(np, lc) and abs(float(lc) - float(lm)) <= 2 * tol_m and abs(float(thc) * c - float(th)) <= 4e-13 * abs(float(th))
            d_.case(key + ('rescale', c), ok, dict(info, c=c, got=repr(lc), want=float(lm)), nontriv, fk('ll_multinom-rescale-invariance'))
        return True, None
    d_.check(key + ('theta-part',), theta_part, info, fk('exception'), nontrivial=False)
    # ---- inputs untouched
    d_.case(key + ('frame',), _same(np, model, sm0) and _same(np, data, sd0), dict(info), nontriv, prefix + 'inputs-mutated')


# ------------------------------------------------------------------------------------------ drivers
@_silenced
def drv_ll(tier, ndim, npairs):
    d_ = _det(Driver('C11', 'll.%dd' % ndim, bound='%d random unfolded model/data pairs, %d-D, axis lengths 2..%d, model in [1e-3,1e3] '
                '(and exact 0 only where data is 0), data mix of 0/integers<=400/non-integers in [1e-6,2e4], independent Bernoulli '
                'masks p in {0,.1,.2,.3,.6,1} on both, corners masked or not, C/F/transposed layouts; oracle mpmath(40 digits) '
                'Poisson sum over jointly unmasked entries, Fraction theta; tol 1e-13*scale per bin, 2e-13*sum(scale) for sums'
                % (npairs, ndim, {1: 14, 2: 7, 3: 5}[ndim])))
    import numpy as np
    import dadi
    from dadi import Inference as I
    _quiet()
    mp = _mp()
    rng = d_.rng
    for i in range(npairs):
        shape = _shape(rng, ndim)
        mv = _rand_values(rng, np, shape, 'model')
        dv = _rand_values(rng, np, shape, 'data')
        if rng.random() < 0.25:      # exact zeros in the model where the data are zero as well
            for idx in np.ndindex(shape):
                if dv[idx] == 0 and rng.random() < 0.5:
                    mv[idx] = 0.0
        mm, dm = _rand_mask(rng, np, shape), _rand_mask(rng, np, shape)
        if rng.random() < 0.15:
            dm = mm.copy()           # equal masks: intersect_masks fast path
        model = _spectrum(dadi, rng, np, mv, mm)
        data = _spectrum(dadi, rng, np, dv, dm)
        info = dict(shape=list(shape), model=mv.tolist(), data=dv.tolist(), mask_model=np.ma.getmaskarray(model).astype(int).tolist(),
                    mask_data=np.ma.getmaskarray(data).astype(int).tolist())
        def run():
            _check_pair(d_, np, mp, I, (ndim, i), model, data, mv, np.ma.getmaskarray(model).copy(), info, rng)
            return True, None
        d_.check((ndim, i), run, info, 'exception', nontrivial=False)
    return d_.results()


@_silenced
def drv_fold(tier, npairs):
    d_ = _det(Driver('C11', 'autofold', bound='%d random pairs, 1-3-D (axis lengths 2..14/7/5, odd and even total sample size), folded data '
                '(built directly, not via fold()) against unfolded and already-folded models with independent masks; model folded by '
                'an explicit idx<->ns-idx loop; same value oracle/tolerances as ll.*' % npairs))
    import numpy as np
    import dadi
    from dadi import Inference as I
    _quiet()
    mp = _mp()
    rng = d_.rng
    for i in range(npairs):
        ndim = 1 + i % 3
        shape = _shape(rng, ndim)
        ns = [k - 1 for k in shape]
        N = sum(ns)
        mv = _rand_values(rng, np, shape, 'model')
        dv = _rand_values(rng, np, shape, 'data')
        mm, dm = _rand_mask(rng, np, shape), _rand_mask(rng, np, shape)
        for idx in np.ndindex(shape):
            if 2 * sum(idx) > N:
                dv[idx] = 0.0
                dm[idx] = True
        data = _spectrum(dadi, rng, np, dv, dm, folded=True)
        model_folded = rng.random() < 0.3
        if model_folded:
            for idx in np.ndindex(shape):
                if 2 * sum(idx) > N:
                    mv[idx] = 0.0
                    mm[idx] = True
            model = _spectrum(dadi, rng, np, mv, mm, folded=True)
            m_eff, mk_eff = mv.copy(), np.ma.getmaskarray(model).copy()
        else:
            model = _spectrum(dadi, rng, np, mv, mm)
            m_eff, mk_eff = _fold_oracle(np, mv, np.ma.getmaskarray(model))
        info = dict(shape=list(shape), model=mv.tolist(), data=dv.tolist(), mask_model=np.ma.getmaskarray(model).astype(int).tolist(),
                    mask_data=np.ma.getmaskarray(data).astype(int).tolist(), model_folded=model_folded)
        key = ('fold', ndim, i, model_folded, N % 2)

        def run():
            _check_pair(d_, np, mp, I, key, model, data, m_eff, mk_eff, info, rng, prefix='autofold-', tf=1.5)
            return True, None
        d_.check(key, run, info, 'exception', nontrivial=False)
    return d_.results()


@_silenced
def drv_best(tier, npairs):
    d_ = _det(Driver('C11', 'best-model', bound='%d random data spectra 1-3-D (folded and unfolded, zeros included), 6 competitor models each '
                'with the data\'s mask (random, near-proportional 1+-1e-3 noise, proportional with one entry moved): '
                'll_multinom(c*data,data) >= ll_multinom(model,data) - 2e-13*scale, and equals the mpmath value of '
                'sum(-d+d*log d-loggamma(d+1))' % npairs))
    import numpy as np
    import dadi
    from dadi import Inference as I
    _quiet()
    mp = _mp()
    rng = d_.rng
    for i in range(npairs):
        ndim = 1 + i % 3
        shape = _shape(rng, ndim)
        N = sum(k - 1 for k in shape)
        dv = _rand_values(rng, np, shape, 'data')
        dm = _rand_mask(rng, np, shape)
        folded = rng.random() < 0.3
        if folded:
            for idx in np.ndindex(shape):
                if 2 * sum(idx) > N:
                    dv[idx] = 0.0
                    dm[idx] = True
        data = _spectrum(dadi, rng, np, dv, dm, folded=folded)
        dmask = np.ma.getmaskarray(data).copy()
        free = [idx for idx in np.ndindex(shape) if not dmask[idx] and dv[idx] > 0]
        info = dict(shape=list(shape), data=dv.tolist(), mask=dmask.astype(int).tolist(), folded=folded)
        key = ('best', ndim, i, folded)
        if len(free) < 2:
            d_.case(key, True, info, nontrivial=False)
            continue

        def run():
            c = 10 ** rng.uniform(-3, 3)
            best = dadi.Spectrum(c * dv, mask=dmask.copy(), mask_corners=False, data_folded=folded)
            lbest = I.ll_multinom(best, data)
            want = mp.fsum(-mp.mpf(float(dv[idx])) + mp.mpf(float(dv[idx])) * mp.log(mp.mpf(float(dv[idx]))) - mp.loggamma(mp.mpf(float(dv[idx])) + 1)
                           for idx in free)
            scale = sum(1 + 2 * dv[idx] * (1 + abs(np.log(dv[idx]))) + abs(float(mp.loggamma(float(dv[idx]) + 1))) for idx in free)
            ok = _isnum(np, lbest) and abs(float(lbest) - float(want)) <= 3e-13 * scale
            d_.case(key + ('value',), ok, dict(info, c=c, got=repr(lbest), want=float(want)), True, 'best-model-value')
            th = I.optimal_sfs_scaling(best, data)
            d_.case(key + ('theta',), abs(float(th) * c - 1) <= 1e-13, dict(info, c=c, got=repr(th)), True, 'best-model-theta')
            for j in range(6):
                if j < 2:
                    mv = _rand_values(rng, np, shape, 'model')
                elif j < 4:
                    mv = c * dv * (1 + 1e-3 * np.array([rng.uniform(-1, 1) for _ in range(dv.size)]).reshape(shape))
                    mv[dv == 0] = 10 ** rng.uniform(-6, 0)
                else:
                    mv = c * dv.copy()
                    idx = rng.choice(free)
                    mv[idx] *= rng.choice([0.5, 0.9, 1.1, 2.0])
                    mv[dv == 0] = 0.0
                comp = dadi.Spectrum(mv, mask=dmask.copy(), mask_corners=False, data_folded=folded)
                lc = I.ll_multinom(comp, data)
                ok = _isnum(np, lc) and float(lc) <= float(lbest) + 3e-13 * scale * (1 + abs(np.log(c)))
                d_.case(key + ('competitor', j), ok, dict(info, c=c, competitor=mv.tolist(), ll_comp=repr(lc), ll_best=repr(lbest)), True,
                        'proportional-model-not-maximal')
            return True, None
        d_.check(key, run, info, 'exception', nontrivial=False)
    return d_.results()


@_silenced
def drv_resid(tier, npairs):
    d_ = _det(Driver('C11', 'residuals', bound='%d random pairs 1-3-D, folded data in 1/4 of them, independent masks, data zeros, bins empty in both in 1/5 of them, mask argument in '
                '{None, 0, 1e-2, 0.5, 5}: linear (m-d)/sqrt(m) and Anscombe -1.5*((d^(2/3)-d^(-1/3)/9)-(m^(2/3)-m^(-1/3)/9))/m^(1/6) against '
                'mpmath, rel tol 1e-12 of the term scale; masks = joint mask (plus d==0 for Anscombe) plus (m<=mask & d<=mask); sign>0 iff '
                'model>data (linear)' % npairs))
    import numpy as np
    import dadi
    from dadi import Inference as I
    _quiet()
    mp = _mp()
    rng = d_.rng
    for i in range(npairs):
        ndim = 1 + i % 3
        shape = _shape(rng, ndim)
        N = sum(k - 1 for k in shape)
        mv = _rand_values(rng, np, shape, 'model')
        dv = _rand_values(rng, np, shape, 'data')
        if rng.random() < 0.5:   # comparable magnitudes so that the mask level cuts through both
            mv = np.array([10 ** rng.uniform(-3, 1.5) for _ in range(mv.size)]).reshape(shape)
        mm, dm = _rand_mask(rng, np, shape), _rand_mask(rng, np, shape)
        folded = i % 4 == 3
        if i % 5 == 1:           # bins that neither the model nor the data populate (residual 0/0: what mask=0 is documented to exclude)
            for _ in range(2):
                e = tuple(rng.randrange(k) for k in shape)
                mv[e] = 0.0
                dv[e] = 0.0
        if folded:
            for idx in np.ndindex(shape):
                if 2 * sum(idx) > N:
                    dv[idx] = 0.0
                    dm[idx] = True
        data = _spectrum(dadi, rng, np, dv, dm, folded=folded)
        model = _spectrum(dadi, rng, np, mv, mm)
        if folded:
            m_eff, mk_eff = _fold_oracle(np, mv, np.ma.getmaskarray(model))
        else:
            m_eff, mk_eff = mv, np.ma.getmaskarray(model).copy()
        joint = np.logical_or(mk_eff, np.ma.getmaskarray(data))
        level = rng.choice([None, None, 0, 1e-2, 0.5, 5])
        info = dict(shape=list(shape), model=mv.tolist(), data=dv.tolist(), mask_model=np.ma.getmaskarray(model).astype(int).tolist(),
                    mask_data=np.ma.getmaskarray(data).astype(int).tolist(), folded=folded, level=level)
        key = ('resid', ndim, i, folded, level)
        s0, s1 = _snap(np, model), _snap(np, data)

        def run():
            lin = I.linear_Poisson_residual(model, data, mask=level)
            ans = I.Anscombe_Poisson_residual(model, data, mask=level)
            lmask, amask = np.ma.getmaskarray(lin), np.ma.getmaskarray(ans)
            bad_l, bad_a = [], []
            third = mp.mpf(1) / 3
            for idx in np.ndindex(shape):
                m, dd = float(m_eff[idx]), float(dv[idx])
                cut = level is not None and m <= level and dd <= level
                if level is None and m == 0:
                    continue         # undefined residual and no mask level requested: nothing is promised
                want_lmask = bool(joint[idx] or cut)
                want_amask = bool(joint[idx] or dd == 0 or cut or (level is not None and dd == 0))
                if bool(lmask[idx]) != want_lmask:
                    bad_l.append(('mask', idx, bool(lmask[idx]), want_lmask))
                elif not want_lmask:
                    w = (mp.mpf(m) - mp.mpf(dd)) / mp.sqrt(mp.mpf(m))
                    sc = (m + dd) / np.sqrt(m)
                    g = float(lin.data[idx])
                    if not abs(g - float(w)) <= 1e-12 * sc:
                        bad_l.append(('value', idx, g, float(w)))
                    if m != dd and (g > 0) != (m > dd):
                        bad_l.append(('sign', idx, g, m, dd))
                if bool(amask[idx]) != want_amask:
                    bad_a.append(('mask', idx, bool(amask[idx]), want_amask))
                elif not want_amask:
                    M, D = mp.mpf(m), mp.mpf(dd)
                    dt = D ** (2 * third) - D ** (-third) / 9
                    mt = M ** (2 * third) - M ** (-third) / 9
                    w = -1.5 * (dt - mt) / M ** (mp.mpf(1) / 6)
                    sc = 1.5 * float(abs(D ** (2 * third)) + abs(D ** (-third) / 9) + abs(M ** (2 * third)) + abs(M ** (-third) / 9)) / m ** (1. / 6)
                    g = float(ans.data[idx])
                    if not abs(g - float(w)) <= 1e-12 * sc:
                        bad_a.append(('value', idx, g, float(w)))
            nt = bool((~joint).any())
            d_.case(key + ('linear',), not bad_l, dict(info, bad=bad_l[:4]), nt, 'linear-residual')
            d_.case(key + ('anscombe',), not bad_a, dict(info, bad=bad_a[:4]), nt, 'anscombe-residual')
            d_.case(key + ('frame',), _same(np, model, s0) and _same(np, data, s1), dict(info), nt, 'residual-inputs-mutated')
            return True, None
        d_.check(key, run, info, 'exception', nontrivial=False)
    return d_.results()
