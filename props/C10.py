"""C10 - Population bookkeeping on spectra equals explicit index arithmetic, keeps labels

Contracts: the obligations listed in tasks() (contracts/py_wiring.py, contracts/py_memo.py, contracts/c_*.py) are generated from the real source on every run and
discharged by z3 / the ring normaliser; clauses outside their reach are run-time contracts over stated bounded domains (props/bounded_C10.py).
"""
from vf.helpers import bounded_tasks

META = dict(
    level='other',
    explanation='Wiring / closed-form / memo-key contracts generated from the real source and discharged by z3 and the ring normaliser for the functions within reach (see coverage.obligations); the remaining clauses are run-time contracts over the bounded domain stated per driver (bounded stand-in, never counted as proved).',
    trusted_base=['oracles of props/bounded_C10.py (independent of dadi: exact rationals, mpmath, dense linear algebra, explicit index loops)'],
    rule='cases enumerated or sampled as stated in each driver\'s bound; a case is non-trivial unless the driver marks it degenerate; distinct by its key',
)


def tasks(tier):
    from vf.core import Task
    cases = [((2, 3), [1, 2]), ((1, 2, 1), [3, 1]), ((2, 1, 2), [2, 3])] + ([((3, 3), [2, 1]), ((1, 1, 2, 1), [4, 2])] if tier == 'thorough' else [])
    comb = [Task('props.wire:run', name='C10/wire.combine_two_pops.ns%s.c%s' % ('_'.join(map(str, ns)), '_'.join(map(str, tc))), fname='c10_combine_two_pops',
                 kwargs=dict(ns=list(ns), tocombine=tc), timeout=600) for ns, tc in cases]
    mc = [Task('props.wire:run', name='C10/wire.misc_combine_pops.ns%s.i%s' % ('_'.join(map(str, ns)), '_'.join(map(str, ix))), fname='c10_misc_combine_pops',
               kwargs=dict(ns=list(ns), idx=ix), timeout=600) for ns, ix in [((2, 1), [0, 1]), ((1, 2, 1), [0, 1]), ((2, 1, 1), [0, 2]), ((1, 1, 2), [1, 2])]]
    mg = [Task('props.wire:run', name='C10/wire.%s.ns%s.%s' % ('filter_pops' if vf_ else 'marginalize', '_'.join(map(str, ns)), '_'.join(map(str, ov))), fname='c10_marginalize',
               kwargs=dict(ns=list(ns), over=list(ov), via_filter=vf_), timeout=300)
          for ns, ov, vf_ in (((2, 1), (0,), False), ((1, 2, 1), (2, 0), False), ((1, 2, 1), (1,), False), ((1, 1, 2, 1), (3, 1), False), ((1, 2, 1), (3, 1), True), ((2, 1, 1), (2,), True))]
    sc = [Task('props.wire:run', name='C10/wire.scramble.ns%s' % '_'.join(map(str, ns)), fname='c10_scramble', kwargs=dict(ns=list(ns)), timeout=300) for ns in ((1, 2), (2, 1, 1))]
    return [Task('props.wire:run', name='C10/wire.c10_reorder_pops', fname='c10_reorder_pops', timeout=300)] + comb + mc + mg + sc + bounded_tasks('C10', tier)


MANIFEST_ENTRY = dict(
    category='other',
    engine='bounded',
    technique='sidecar contracts on the real functions: wiring / closed-form obligations from the AST discharged by z3 and the ring normaliser where the functions are within reach; bounded run-time contracts with independent oracles for the rest (never counted as proved)',
    text='Discharged from the real source on every run (all values, stated small shapes): reorder_pops for every permutation of 2-4 populations; combine_two_pops, Misc.combine_pops, marginalize (any over order), filter_pops, scramble_pop_ids by explicit index arithmetic incl. labels, masks, totals. Bounded run-time contracts (never counted as proved): Marginalise/filter/reorder/combine/scramble against explicit re-indexing oracles for 2-6 dimensions.',
    note='bounded: see coverage.bounded.drivers[].bound in the evidence file for the exact domain of every driver',
)
