"""C10 - Population bookkeeping on spectra equals explicit index arithmetic, keeps labels

Status: bounded run-time contracts only (props/bounded_C10.py) until the proof obligations of DESIGN.md 7 C10 are added.
"""
from vf.helpers import bounded_tasks

META = dict(
    level='other',
    explanation='Run-time contracts on the real functions over the bounded domain stated per driver (bounded stand-in; nothing proved).',
    trusted_base=['oracles of props/bounded_C10.py (independent of dadi: exact rationals, mpmath, dense linear algebra, explicit index loops)'],
    rule='cases enumerated or sampled as stated in each driver\'s bound; a case is non-trivial unless the driver marks it degenerate; distinct by its key',
)


def tasks(tier):
    from vf.core import Task
    return [Task('props.wire:run', name='C10/wire.c10_reorder_pops', fname='c10_reorder_pops', timeout=300)] + bounded_tasks('C10', tier)


MANIFEST_ENTRY = dict(
    category='other',
    engine='bounded',
    technique='sidecar contracts on the real functions: wiring / closed-form obligations from the AST discharged by z3 and the ring normaliser where the functions are within reach; bounded run-time contracts with independent oracles for the rest (never counted as proved)',
    text='Marginalise/filter/reorder/combine/scramble against explicit re-indexing oracles for 2-6 dimensions.',
    note='bounded: see coverage.bounded.drivers[].bound in the evidence file for the exact domain of every driver',
)
