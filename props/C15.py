"""C15 - library models are well-formed and nest exactly (program algebra over the real model sources).

Contracts (sidecar; the numerical layer is abstract, see vf/modelalg.py):
  every f with f.__param_names__ (107 on this tree):
      ensures  the tuple unpacked from `params` has exactly len(__param_names__) names, in that order;
               with that many parameters in the documented bounds no path raises;
               every path returns Spectrum.from_phi[_inbreeding](phi, ns, (xx,)*P, ...) with the caller's ns, xx =
               Numerics.default_grid(pts) and P = dimension of phi; every integrator is handed a density of its own dimension
  Integration.{one..five}_pops
      ensures  T == initial_t  ==>  returns a copy of / the density unchanged               (axiom R1 of the nesting proofs)
               every parameter documented as "may be a function of time" goes through Misc.ensure_1arg_func (R3)
  nesting table NESTS (written from the docstrings; five kinds: zero migration, zero-length epoch, equal
  asymmetric rates, zero selection, equal selection): term(A, paramsA) == term(B, paramsB) on every jointly
  feasible pair of paths, modulo R1-R4.
"""
import ast, re, time, collections
import z3
from vf.core import Task, R
from vf.helpers import prove, struct, guarded, cover
from vf import smt
from vf.pyvc import Executor, Tm, VList, PyFn, PyRaise, FuncRef, Closure, ModInfo, vrepr, Unsupported, Fraction
from vf import modelalg as MA

FILES = dict(d1='dadi/Demographics1D.py', d2='dadi/Demographics2D.py', d3='dadi/Demographics3D.py',
             p2='dadi/PortikModels/portik_models_2d.py', p3='dadi/PortikModels/portik_models_3d.py',
             ds='dadi/DFE/DemogSelModels.py')

META = dict(
    level='other',
    explanation='Every model function is symbolically executed from its current source with the numerical layer as '
                'uninterpreted function symbols; arity/ordering of the parameter tuple, dimension bookkeeping, result shape and '
                'the nesting table are equalities of the resulting first-order terms (scalar leaves by z3). The two axioms used to '
                'compare terms (zero-duration integration is the identity; constants and constant functions of time are the same '
                'parameter) are themselves obligations on Integration.py. Finite / non-negative values and numerical nesting are '
                'bounded run-time checks.',
    trusted_base=['E2 executor semantics (DESIGN 4)', 'numerical layer (Numerics.default_grid, PhiManip.*, Integration.*, Spectrum.from_phi*) '
                  'abstract: its own contracts are C01-C06', 'pow/exp/log uninterpreted with the ground axioms pow(1,x)=1, pow(b,0)=1, pow(b,1)=b, '
                  'exp(0)=1, log(1)=0', 'a pulse/admixture with all proportions 0 is the identity (C06 contract) - used only for the *_admix nestings'],
    assumptions=['documented parameter bounds: nu>0, T>=0, m>=0, 0<s<1, 0<f<1, 0<=F<1'],
)


def sym(name):
    return z3.Real(name)


def grid_op():
    """op of the term Numerics.default_grid(pts) evaluates to (default_grid may be an alias)"""
    ex = Executor()
    g = ex.module_global(ModInfo.load('dadi/Numerics.py'), 'default_grid')
    return 'call:' + g.fullname


def bounds(names_or_syms):
    hy = []
    for s in names_or_syms:
        n = str(s)
        if n.startswith('nu'):
            hy.append(s > 0)
        elif n.startswith('T'):
            hy.append(s >= 0)
        elif n.startswith('m'):
            hy.append(s >= 0)
        elif n in ('s', 'f'):
            hy += [s > 0, s < 1]
        elif n == 'F':
            hy += [s >= 0, s < 1]
    return hy


# ---------------------------------------------------------------- nesting table
# (A, "args of A", B, "args of B") over shared symbol names; 0 marks the nesting point.
NESTS = [
    # Demographics1D
    ('d1.two_epoch', 'nu,0', 'd1.snm_1d', ''),
    ('d1.three_epoch', 'nuB,nuF,TB,0', 'd1.two_epoch', 'nuB,TB'),
    ('d1.three_epoch', 'nuB,nuF,0,TF', 'd1.two_epoch', 'nuF,TF'),
    ('d1.bottlegrowth_1d', '1,nuF,T', 'd1.growth', 'nuF,T'),
    ('d1.bottlegrowth_1d', 'nuB,nuB,T', 'd1.two_epoch', 'nuB,T'),
    ('d1.growth', 'nu,0', 'd1.snm_1d', ''),
    # Demographics2D
    ('d2.bottlegrowth_2d', 'nuB,nuF,T', 'd2.bottlegrowth_split_mig', 'nuB,nuF,0,T,0'),
    ('d2.bottlegrowth_split', 'nuB,nuF,T,Ts', 'd2.bottlegrowth_split_mig', 'nuB,nuF,0,T,Ts'),
    ('d2.split_mig', 'nu1,nu2,T,m', 'd2.split_asym_mig', 'nu1,nu2,T,m,m'),
    ('d2.split_asym_mig', 'nu1,nu2,T,m12,m21', 'd2.split_delay_mig', 'nu1,nu2,0,T,m12,m21'),
    ('d2.split_delay_mig', 'nu1,nu2,Tpre,0,m12,m21', 'd2.split_mig', 'nu1,nu2,Tpre,0'),
    ('d2.IM_pre', '1,0,s,nu1,nu2,T,m12,m21', 'd2.IM', 's,nu1,nu2,T,m12,m21'),
    ('d2.IM', 's,s,1-s,T,m,m', 'd2.split_mig', 's,1-s,T,m'),
    ('d2.split_mig', 'nu1,nu2,0,m', 'd2.snm_2d', ''),
    # Portik 2-D
    ('p2.no_mig', 'nu1,nu2,T', 'p2.sym_mig', 'nu1,nu2,0,T'),
    ('p2.sym_mig', 'nu1,nu2,m,T', 'p2.asym_mig', 'nu1,nu2,m,m,T'),
    ('p2.sym_mig', 'nu1,nu2,m,T', 'd2.split_mig', 'nu1,nu2,T,m'),
    ('p2.asym_mig', 'nu1,nu2,m12,m21,T', 'd2.split_asym_mig', 'nu1,nu2,T,m12,m21'),
    ('p2.anc_sym_mig', 'nu1,nu2,m,T1,0', 'p2.sym_mig', 'nu1,nu2,m,T1'),
    ('p2.anc_sym_mig', 'nu1,nu2,m,0,T2', 'p2.no_mig', 'nu1,nu2,T2'),
    ('p2.anc_sym_mig', 'nu1,nu2,m,T1,T2', 'p2.anc_asym_mig', 'nu1,nu2,m,m,T1,T2'),
    ('p2.anc_asym_mig', 'nu1,nu2,m12,m21,T1,0', 'p2.asym_mig', 'nu1,nu2,m12,m21,T1'),
    ('p2.sec_contact_sym_mig', 'nu1,nu2,m,0,T2', 'p2.sym_mig', 'nu1,nu2,m,T2'),
    ('p2.sec_contact_sym_mig', 'nu1,nu2,m,T1,0', 'p2.no_mig', 'nu1,nu2,T1'),
    ('p2.sec_contact_sym_mig', 'nu1,nu2,m,T1,T2', 'p2.sec_contact_asym_mig', 'nu1,nu2,m,m,T1,T2'),
    ('p2.sec_contact_asym_mig', 'nu1,nu2,m12,m21,0,T2', 'p2.asym_mig', 'nu1,nu2,m12,m21,T2'),
    ('p2.no_mig_size', 'nu1a,nu2a,nu1b,nu2b,T1,0', 'p2.no_mig', 'nu1a,nu2a,T1'),
    ('p2.no_mig_size', 'nu1a,nu2a,nu1b,nu2b,0,T2', 'p2.no_mig', 'nu1b,nu2b,T2'),
    ('p2.sym_mig_size', 'nu1a,nu2a,nu1b,nu2b,m,T1,0', 'p2.sym_mig', 'nu1a,nu2a,m,T1'),
    ('p2.sym_mig_size', 'nu1a,nu2a,nu1b,nu2b,m,0,T2', 'p2.sym_mig', 'nu1b,nu2b,m,T2'),
    ('p2.sym_mig_size', 'nu1a,nu2a,nu1b,nu2b,m,T1,T2', 'p2.asym_mig_size', 'nu1a,nu2a,nu1b,nu2b,m,m,T1,T2'),
    ('p2.sym_mig_size', 'nu1a,nu2a,nu1b,nu2b,0,T1,T2', 'p2.no_mig_size', 'nu1a,nu2a,nu1b,nu2b,T1,T2'),
    ('p2.asym_mig_size', 'nu1a,nu2a,nu1b,nu2b,m12,m21,T1,0', 'p2.asym_mig', 'nu1a,nu2a,m12,m21,T1'),
    ('p2.anc_sym_mig_size', 'nu1a,nu2a,nu1b,nu2b,m,T1,0', 'p2.sym_mig', 'nu1a,nu2a,m,T1'),
    ('p2.anc_sym_mig_size', 'nu1a,nu2a,nu1b,nu2b,m,T1,T2', 'p2.anc_asym_mig_size', 'nu1a,nu2a,nu1b,nu2b,m,m,T1,T2'),
    ('p2.anc_sym_mig_size', 'nu1a,nu2a,nu1b,nu2b,0,T1,T2', 'p2.no_mig_size', 'nu1a,nu2a,nu1b,nu2b,T1,T2'),
    ('p2.anc_sym_mig_size', 'nu1,nu2,nu1,nu2,m,T1,T2', 'p2.anc_sym_mig', 'nu1,nu2,m,T1,T2'),
    ('p2.anc_asym_mig_size', 'nu1,nu2,nu1,nu2,m12,m21,T1,T2', 'p2.anc_asym_mig', 'nu1,nu2,m12,m21,T1,T2'),
    ('p2.sec_contact_sym_mig_size', 'nu1a,nu2a,nu1b,nu2b,m,0,T2', 'p2.sym_mig', 'nu1b,nu2b,m,T2'),
    ('p2.sec_contact_sym_mig_size', 'nu1a,nu2a,nu1b,nu2b,m,T1,T2', 'p2.sec_contact_asym_mig_size', 'nu1a,nu2a,nu1b,nu2b,m,m,T1,T2'),
    ('p2.sec_contact_sym_mig_size', 'nu1,nu2,nu1,nu2,m,T1,T2', 'p2.sec_contact_sym_mig', 'nu1,nu2,m,T1,T2'),
    ('p2.sec_contact_asym_mig_size', 'nu1,nu2,nu1,nu2,m12,m21,T1,T2', 'p2.sec_contact_asym_mig', 'nu1,nu2,m12,m21,T1,T2'),
    ('p2.sym_mig_twoepoch', 'nu1,nu2,m,m2,T1,0', 'p2.sym_mig', 'nu1,nu2,m,T1'),
    ('p2.sym_mig_twoepoch', 'nu1,nu2,m,0,T1,T2', 'p2.anc_sym_mig', 'nu1,nu2,m,T1,T2'),
    ('p2.sym_mig_twoepoch', 'nu1,nu2,0,m,T1,T2', 'p2.sec_contact_sym_mig', 'nu1,nu2,m,T1,T2'),
    ('p2.sym_mig_twoepoch', 'nu1,nu2,m1,m2,T1,T2', 'p2.asym_mig_twoepoch', 'nu1,nu2,m1,m1,m2,m2,T1,T2'),
    ('p2.asym_mig_twoepoch', 'nu1,nu2,m12,m21,0,0,T1,T2', 'p2.anc_asym_mig', 'nu1,nu2,m12,m21,T1,T2'),
    ('p2.asym_mig_twoepoch', 'nu1,nu2,0,0,m12,m21,T1,T2', 'p2.sec_contact_asym_mig', 'nu1,nu2,m12,m21,T1,T2'),
    ('p2.sec_contact_sym_mig_three_epoch', 'nu1,nu2,m,T1,T2,0', 'p2.sec_contact_sym_mig', 'nu1,nu2,m,T1,T2'),
    ('p2.sec_contact_sym_mig_three_epoch', 'nu1,nu2,m,0,T2,T3', 'p2.anc_sym_mig', 'nu1,nu2,m,T2,T3'),
    ('p2.sec_contact_asym_mig_three_epoch', 'nu1,nu2,m12,m21,T1,0', 'p2.no_mig', 'nu1,nu2,T1'),
    ('p2.sec_contact_sym_mig_size_three_epoch', 'nu1a,nu2a,nu1b,nu2b,m,T1,T2,0', 'p2.sec_contact_sym_mig_size', 'nu1a,nu2a,nu1b,nu2b,m,T1,T2'),
    ('p2.sec_contact_sym_mig_size_three_epoch', 'nu1a,nu2a,nu1b,nu2b,m,T1,T2,T3', 'p2.sec_contact_asym_mig_size_three_epoch', 'nu1a,nu2a,nu1b,nu2b,m,m,T1,T2,T3'),
    ('p2.sec_contact_asym_mig_size_three_epoch', 'nu1a,nu2a,nu1b,nu2b,m12,m21,T1,T2,0', 'p2.sec_contact_asym_mig_size', 'nu1a,nu2a,nu1b,nu2b,m12,m21,T1,T2'),
    ('p2.sec_contact_sym_mig_size_three_epoch', 'nu1,nu2,nu1,nu2,m,T1,T2,T3', 'p2.sec_contact_sym_mig_three_epoch', 'nu1,nu2,m,T1,T2,T3'),
    ('p2.vic_no_mig', 'T,s', 'p2.no_mig', '1-s,s,T'),
    ('p2.vic_anc_sym_mig', 'm,T1,T2,s', 'p2.anc_sym_mig', '1-s,s,m,T1,T2'),
    ('p2.vic_anc_asym_mig', 'm12,m21,T1,T2,s', 'p2.anc_asym_mig', '1-s,s,m12,m21,T1,T2'),
    ('p2.vic_sec_contact_sym_mig', 'm,T1,T2,s', 'p2.sec_contact_sym_mig', '1-s,s,m,T1,T2'),
    ('p2.vic_sec_contact_asym_mig', 'm12,m21,T1,T2,s', 'p2.sec_contact_asym_mig', '1-s,s,m12,m21,T1,T2'),
    ('p2.vic_anc_sym_mig', 'm,T1,0,s', 'p2.sym_mig', '1-s,s,m,T1'),
    ('p2.vic_anc_sym_mig', '0,T1,0,s', 'p2.vic_no_mig', 'T1,s'),
    ('p2.vic_anc_sym_mig', 'm,T1,T2,s', 'p2.vic_anc_asym_mig', 'm,m,T1,T2,s'),
    ('p2.vic_sec_contact_sym_mig', 'm,T1,T2,s', 'p2.vic_sec_contact_asym_mig', 'm,m,T1,T2,s'),
    ('p2.vic_sec_contact_sym_mig', 'm,T1,0,s', 'p2.vic_no_mig', 'T1,s'),
    ('p2.founder_nomig', 'nu2,T,s', 'p2.founder_sym', 'nu2,0,T,s'),
    ('p2.founder_sym', 'nu2,m,T,s', 'p2.founder_asym', 'nu2,m,m,T,s'),
    ('p2.founder_nomig', 's,T,s', 'p2.vic_no_mig', 'T,s'),
    ('p2.vic_two_epoch_admix', 'T1,0,s,f', 'p2.vic_no_mig_admix_late', 'T1,s,f'),
    ('p2.vic_two_epoch_admix', '0,T2,s,f', 'p2.vic_no_mig_admix_early', 'T2,s,f'),
    ('p2.founder_nomig_admix_two_epoch', 'nu2,T1,0,s,f', 'p2.founder_nomig_admix_late', 'nu2,T1,s,f'),
    ('p2.vic_no_mig_admix_early', 'T,s,0', 'p2.vic_no_mig', 'T,s'),
    ('p2.vic_no_mig_admix_late', 'T,s,0', 'p2.vic_no_mig', 'T,s'),
    ('p2.founder_nomig_admix_early', 'nu2,T,s,0', 'p2.founder_nomig', 'nu2,T,s'),
    ('p2.founder_nomig_admix_late', 'nu2,T,s,0', 'p2.founder_nomig', 'nu2,T,s'),
    # Portik 3-D
    ('p3.split_nomig', 'nu1,nuA,nu2,nu3,T1,T2', 'p3.split_symmig_all', 'nu1,nuA,nu2,nu3,0,0,0,0,T1,T2'),
    ('p3.split_symmig_adjacent', 'nu1,nuA,nu2,nu3,mA,m1,m2,T1,T2', 'p3.split_symmig_all', 'nu1,nuA,nu2,nu3,mA,m1,m2,0,T1,T2'),
    ('p3.split_nomig', 'nu1,nuA,nu2,nu3,0,T2', 'p3.sim_split_no_mig', 'nu1,nu2,nu3,T2'),
    ('p3.refugia_adj_1', 'nu1,nuA,nu2,nu3,m1,m2,T1,T2,0', 'p3.split_nomig', 'nu1,nuA,nu2,nu3,T1,T2'),
    ('p3.refugia_adj_1', 'nu1,nuA,nu2,nu3,m1,m2,T1,0,T3', 'p3.refugia_adj_2', 'nu1,nuA,nu2,nu3,m1,m2,T1,T3'),
    ('p3.refugia_adj_2', 'nu1,nuA,nu2,nu3,0,0,T1,T2', 'p3.split_nomig', 'nu1,nuA,nu2,nu3,T1,T2'),
    ('p3.refugia_adj_2', 'nu1,nuA,nu2,nu3,m1,m2,T1,T2', 'p3.split_symmig_adjacent', 'nu1,nuA,nu2,nu3,0,m1,m2,T1,T2'),
    ('p3.refugia_adj_3', 'nu1,nuA,nu2,nu3,mA,m1,m2,0,T1b,T2', 'p3.split_symmig_adjacent', 'nu1,nuA,nu2,nu3,mA,m1,m2,T1b,T2'),
    ('p3.refugia_adj_3', 'nu1,nuA,nu2,nu3,mA,m1,m2,T1a,0,T2', 'p3.refugia_adj_2', 'nu1,nuA,nu2,nu3,m1,m2,T1a,T2'),
    ('p3.ancmig_adj_3', 'nu1,nuA,nu2,nu3,mA,T1a,0,T2', 'p3.ancmig_adj_2', 'nu1,nuA,nu2,nu3,mA,T1a,T2'),
    ('p3.ancmig_adj_3', 'nu1,nuA,nu2,nu3,mA,0,T1b,T2', 'p3.split_nomig', 'nu1,nuA,nu2,nu3,T1b,T2'),
    ('p3.ancmig_adj_2', 'nu1,nuA,nu2,nu3,0,T1,T2', 'p3.split_nomig', 'nu1,nuA,nu2,nu3,T1,T2'),
    ('p3.ancmig_adj_1', 'nu1,nuA,nu2,nu3,mA,m1,m2,T1,T2,0', 'p3.split_symmig_adjacent', 'nu1,nuA,nu2,nu3,mA,m1,m2,T1,T2'),
    ('p3.ancmig_adj_1', 'nu1,nuA,nu2,nu3,mA,m1,m2,T1,0,T3', 'p3.ancmig_adj_2', 'nu1,nuA,nu2,nu3,mA,T1,T3'),
    ('p3.sim_split_no_mig', 'nu1,nu2,nu3,T1', 'p3.sim_split_sym_mig_all', 'nu1,nu2,nu3,0,0,0,T1'),
    ('p3.sim_split_sym_mig_adjacent', 'nu1,nu2,nu3,m1,m2,T1', 'p3.sim_split_sym_mig_all', 'nu1,nu2,nu3,m1,m2,0,T1'),
    ('p3.sim_split_no_mig_size', 'nu1a,nu2a,nu3a,nu1b,nu2b,nu3b,T1,0', 'p3.sim_split_no_mig', 'nu1a,nu2a,nu3a,T1'),
    ('p3.sim_split_no_mig_size', 'nu1a,nu2a,nu3a,nu1b,nu2b,nu3b,0,T2', 'p3.sim_split_no_mig', 'nu1b,nu2b,nu3b,T2'),
    ('p3.sim_split_refugia_sym_mig_all', 'nu1,nu2,nu3,m1,m2,m3,0,T2', 'p3.sim_split_sym_mig_all', 'nu1,nu2,nu3,m1,m2,m3,T2'),
    ('p3.sim_split_refugia_sym_mig_all', 'nu1,nu2,nu3,m1,m2,m3,T1,0', 'p3.sim_split_no_mig', 'nu1,nu2,nu3,T1'),
    ('p3.sim_split_refugia_sym_mig_adjacent', 'nu1,nu2,nu3,m1,m2,T1,T2', 'p3.sim_split_refugia_sym_mig_all', 'nu1,nu2,nu3,m1,m2,0,T1,T2'),
    ('p3.sim_split_refugia_sym_mig_adjacent', 'nu1,nu2,nu3,m1,m2,0,T2', 'p3.sim_split_sym_mig_adjacent', 'nu1,nu2,nu3,m1,m2,T2'),
    ('p3.split_nomig_size', 'nu1a,nuA,nu2a,nu3a,nu1b,nu2b,nu3b,T1,T2,0', 'p3.split_nomig', 'nu1a,nuA,nu2a,nu3a,T1,T2'),
    ('p3.split_nomig_size', 'nu1a,nuA,nu2a,nu3a,nu1b,nu2b,nu3b,0,T2,T3', 'p3.sim_split_no_mig_size', 'nu1a,nu2a,nu3a,nu1b,nu2b,nu3b,T2,T3'),
    ('p3.ancmig_2_size', 'nu1a,nuA,nu2a,nu3a,nu1b,nu2b,nu3b,0,T1,T2,T3', 'p3.split_nomig_size', 'nu1a,nuA,nu2a,nu3a,nu1b,nu2b,nu3b,T1,T2,T3'),
    ('p3.ancmig_2_size', 'nu1a,nuA,nu2a,nu3a,nu1b,nu2b,nu3b,mA,T1,T2,0', 'p3.ancmig_adj_2', 'nu1a,nuA,nu2a,nu3a,mA,T1,T2'),
    ('p3.sim_split_refugia_sym_mig_adjacent_size', 'nu1a,nu2a,nu3a,nu1b,nu2b,nu3b,m1,m2,T1,T2,0', 'p3.sim_split_refugia_sym_mig_adjacent', 'nu1a,nu2a,nu3a,m1,m2,T1,T2'),
    ('p3.sim_split_refugia_sym_mig_adjacent_size', 'nu1a,nu2a,nu3a,nu1b,nu2b,nu3b,0,0,T1,0,T3', 'p3.sim_split_no_mig_size', 'nu1a,nu2a,nu3a,nu1b,nu2b,nu3b,T1,T3'),
    ('p3.sim_split_refugia_sym_mig_adjacent_size', 'nu1a,nu2a,nu3a,nu1b,nu2b,nu3b,m1,m2,0,0,T3', 'p3.sim_split_sym_mig_adjacent', 'nu1b,nu2b,nu3b,m1,m2,T3'),
    ('p3.ancmig_2_size', 'nu1a,nuA,nu2a,nu3a,nu1b,nu2b,nu3b,0,0,0,T3', 'p3.sim_split_no_mig', 'nu1b,nu2b,nu3b,T3'),
    ('p3.split_nomig_size', 'nu1a,nuA,nu2a,nu3a,nu1b,nu2b,nu3b,0,0,T3', 'p3.sim_split_no_mig', 'nu1b,nu2b,nu3b,T3'),
    ('p2.sec_contact_sym_mig_size_three_epoch', 'nu1a,nu2a,nu1b,nu2b,m,0,0,T3', 'p2.no_mig', 'nu1b,nu2b,T3'),
    ('p2.sec_contact_asym_mig_size_three_epoch', 'nu1a,nu2a,nu1b,nu2b,m12,m21,0,T2,0', 'p2.asym_mig', 'nu1b,nu2b,m12,m21,T2'),
    ('p3.refugia_adj_2_var_sym', 'nu1,nuA,nu2,nu3,0,0,T1,T2', 'p3.split_nomig', 'nu1,nuA,nu2,nu3,T1,T2'),
    ('p3.refugia_adj_2_var_uni', 'nu1,nuA,nu2,nu3,0,0,T1,T2', 'p3.split_nomig', 'nu1,nuA,nu2,nu3,T1,T2'),
    ('p3.refugia_adj_3_var_sym', 'nu1,nuA,nu2,nu3,mA,m2,m3,T1a,0,T2', 'p3.refugia_adj_2_var_sym', 'nu1,nuA,nu2,nu3,m2,m3,T1a,T2'),
    ('p3.refugia_adj_3_var_uni', 'nu1,nuA,nu2,nu3,mA,m32,m31,T1a,0,T2', 'p3.refugia_adj_2_var_uni', 'nu1,nuA,nu2,nu3,m32,m31,T1a,T2'),
    ('p3.refugia_adj_3_var_sym', 'nu1,nuA,nu2,nu3,mA,m2,m3,0,T1b,T2', 'p3.split_sym_mig_adjacent_var1', 'nu1,nuA,nu2,nu3,mA,m2,m3,T1b,T2'),
    ('p3.refugia_adj_3_var_uni', 'nu1,nuA,nu2,nu3,mA,m32,m31,0,T1b,T2', 'p3.split_uni_mig_adjacent_var1', 'nu1,nuA,nu2,nu3,mA,m32,m31,T1b,T2'),
    ('p3.split_sym_mig_adjacent_var2', 'nu1,nuA,nu2,nu3,mA,m3,T1,T2', 'p3.split_sym_mig_adjacent_var1', 'nu1,nuA,nu2,nu3,mA,0,m3,T1,T2'),
    ('p3.split_uni_mig_adjacent_var2', 'nu1,nuA,nu2,nu3,mA,m31,T1,T2', 'p3.split_uni_mig_adjacent_var1', 'nu1,nuA,nu2,nu3,mA,0,m31,T1,T2'),
    ('p3.split_sym_mig_adjacent_var1', 'nu1,nuA,nu2,nu3,0,m2,m3,T1,T2', 'p3.refugia_adj_2_var_sym', 'nu1,nuA,nu2,nu3,m2,m3,T1,T2'),
    ('p3.split_uni_mig_adjacent_var1', 'nu1,nuA,nu2,nu3,0,m32,m31,T1,T2', 'p3.refugia_adj_2_var_uni', 'nu1,nuA,nu2,nu3,m32,m31,T1,T2'),
    ('p3.sim_split_sym_mig_adjacent_var', 'nu1,nu2,nu3,0,0,T1', 'p3.sim_split_no_mig', 'nu1,nu2,nu3,T1'),
    ('p3.sim_split_uni_mig_adjacent_var', 'nu1,nu2,nu3,0,0,T1', 'p3.sim_split_no_mig', 'nu1,nu2,nu3,T1'),
    ('p3.sim_split_sym_mig_adjacent_var', 'nu1,nu2,nu3,m2,m3,T1', 'p3.sim_split_sym_mig_all', 'nu1,nu2,nu3,0,m2,m3,T1'),
    ('p3.sim_split_refugia_sym_mig_adjacent_var', 'nu1,nu2,nu3,m2,m3,0,T2', 'p3.sim_split_sym_mig_adjacent_var', 'nu1,nu2,nu3,m2,m3,T2'),
    ('p3.sim_split_refugia_uni_mig_adjacent_var', 'nu1,nu2,nu3,m32,m31,0,T2', 'p3.sim_split_uni_mig_adjacent_var', 'nu1,nu2,nu3,m32,m31,T2'),
    ('p3.sim_split_refugia_sym_mig_adjacent_var', 'nu1,nu2,nu3,m2,m3,T1,T2', 'p3.sim_split_refugia_sym_mig_all', 'nu1,nu2,nu3,0,m2,m3,T1,T2'),
    ('p3.admix_origin_sym_mig_adj', 'nu1,nu2,nu3,0,0,T1,T2,f', 'p3.admix_origin_no_mig', 'nu1,nu2,nu3,T1,T2,f'),
    ('p3.admix_origin_uni_mig_adj', 'nu1,nu2,nu3,0,0,T1,T2,f', 'p3.admix_origin_no_mig', 'nu1,nu2,nu3,T1,T2,f'),
    # demography + selection
    ('ds.equil', '0', 'd1.snm_1d', ''),
    ('ds.two_epoch_sel', 'nu,T,0', 'd1.two_epoch', 'nu,T'),
    ('ds.three_epoch_sel', 'nuB,nuF,TB,TF,0', 'd1.three_epoch', 'nuB,nuF,TB,TF'),
    ('ds.growth_sel', 'nu,T,0', 'd1.growth', 'nu,T'),
    ('ds.bottlegrowth_1d_sel', 'nuB,nuF,T,0', 'd1.bottlegrowth_1d', 'nuB,nuF,T'),
    ('ds.two_epoch_sel', 'nu,0,g', 'ds.equil', 'g'),
    ('ds.IM_pre_sel', 'nuPre,TPre,s,nu1,nu2,T,m12,m21,0,0', 'd2.IM_pre', 'nuPre,TPre,s,nu1,nu2,T,m12,m21'),
    ('ds.IM_sel', 's,nu1,nu2,T,m12,m21,0,0', 'd2.IM', 's,nu1,nu2,T,m12,m21'),
    ('ds.split_mig_sel', 'nu1,nu2,T,m,0,0', 'd2.split_mig', 'nu1,nu2,T,m'),
    ('ds.split_asym_mig_sel', 'nu1,nu2,T,m12,m21,0,0', 'd2.split_asym_mig', 'nu1,nu2,T,m12,m21'),
    ('ds.split_delay_mig_sel', 'nu1,nu2,Tpre,Tmig,m12,m21,0,0', 'd2.split_delay_mig', 'nu1,nu2,Tpre,Tmig,m12,m21'),
    ('ds.bottlegrowth_2d_sel', 'nuB,nuF,T,0,0', 'd2.bottlegrowth_2d', 'nuB,nuF,T'),
    ('ds.bottlegrowth_split_sel', 'nuB,nuF,T,Ts,0,0', 'd2.bottlegrowth_split', 'nuB,nuF,T,Ts'),
    ('ds.bottlegrowth_split_mig_sel', 'nuB,nuF,m,T,Ts,0,0', 'd2.bottlegrowth_split_mig', 'nuB,nuF,m,T,Ts'),
    ('ds.IM_pre_sel_single_gamma', 'nuPre,TPre,s,nu1,nu2,T,m12,m21,g', 'ds.IM_pre_sel', 'nuPre,TPre,s,nu1,nu2,T,m12,m21,g,g'),
    ('ds.IM_sel_single_gamma', 's,nu1,nu2,T,m12,m21,g', 'ds.IM_sel', 's,nu1,nu2,T,m12,m21,g,g'),
    ('ds.split_mig_sel_single_gamma', 'nu1,nu2,T,m,g', 'ds.split_mig_sel', 'nu1,nu2,T,m,g,g'),
    ('ds.split_asym_mig_sel_single_gamma', 'nu1,nu2,T,m12,m21,g', 'ds.split_asym_mig_sel', 'nu1,nu2,T,m12,m21,g,g'),
    ('ds.split_delay_mig_sel_single_gamma', 'nu1,nu2,Tpre,Tmig,m12,m21,g', 'ds.split_delay_mig_sel', 'nu1,nu2,Tpre,Tmig,m12,m21,g,g'),
    ('ds.bottlegrowth_2d_sel_single_gamma', 'nuB,nuF,T,g', 'ds.bottlegrowth_2d_sel', 'nuB,nuF,T,g,g'),
    ('ds.bottlegrowth_split_sel_single_gamma', 'nuB,nuF,T,Ts,g', 'ds.bottlegrowth_split_sel', 'nuB,nuF,T,Ts,g,g'),
    ('ds.bottlegrowth_split_mig_sel_single_gamma', 'nuB,nuF,m,T,Ts,g', 'ds.bottlegrowth_split_mig_sel', 'nuB,nuF,m,T,Ts,g,g'),
    ('ds.split_mig_sel', 'nu1,nu2,T,m,g1,g2', 'ds.split_asym_mig_sel', 'nu1,nu2,T,m,m,g1,g2'),
    ('ds.split_asym_mig_sel', 'nu1,nu2,T,m12,m21,g1,g2', 'ds.split_delay_mig_sel', 'nu1,nu2,0,T,m12,m21,g1,g2'),
    ('ds.IM_pre_sel', '1,0,s,nu1,nu2,T,m12,m21,g1,g2', 'ds.IM_sel', 's,nu1,nu2,T,m12,m21,g1,g2'),
    ('ds.bottlegrowth_2d_sel', 'nuB,nuF,T,g1,g2', 'ds.bottlegrowth_split_mig_sel', 'nuB,nuF,0,T,0,g1,g2'),
    ('ds.bottlegrowth_split_sel', 'nuB,nuF,T,Ts,g1,g2', 'ds.bottlegrowth_split_mig_sel', 'nuB,nuF,0,T,Ts,g1,g2'),
    ('ds.three_epoch_sel', 'nuB,nuF,TB,0,g', 'ds.two_epoch_sel', 'nuB,TB,g'),
]


def tasks(tier):
    ts = []
    for (f, name, pn) in MA.all_models():
        ts.append(Task('props.C15:ob_wellformed', name='C15/wellformed.%s.%s' % (f.split('/')[-1][:-3], name), relpath=f, fname=name, timeout=120))
    for k in MA.INTEGRATORS:
        ts.append(Task('props.C15:ob_zero_duration', name='C15/axiom.zero-duration.' + k, fname=k, timeout=120))
        ts.append(Task('props.C15:ob_ensure_1arg', name='C15/axiom.ensure_1arg.' + k, fname=k, timeout=60))
    for i, row in enumerate(NESTS):
        ts.append(Task('props.C15:ob_nest', name='C15/nest.%03d.%s' % (i, row[0]), idx=i, timeout=180))
    ts.append(Task('props.C15:ob_nest_canary', name='C15/nest.canary', timeout=120))
    from vf.helpers import bounded_tasks
    ts += bounded_tasks('C15', tier)
    return ts


# ---------------------------------------------------------------- well-formedness
def ob_wellformed(relpath, fname):
    short = relpath.split('/')[-1]
    base = 'C15/%s:%s' % (short, fname)
    fn = '%s::%s' % (relpath, fname)

    @guarded(base + '/wellformed', fn)
    def go():
        mod = ModInfo.load(relpath)
        node = mod.funcs[fname]
        pn = ast.literal_eval(mod.func_attrs[fname]['__param_names__'])
        out = []
        # (1) syntactic: the unpack of `params` names exactly __param_names__ in order
        unpack = None
        for st in ast.walk(node):
            if isinstance(st, ast.Assign) and isinstance(st.value, ast.Name) and st.value.id == 'params' and isinstance(st.targets[0], (ast.Tuple, ast.List)):
                unpack = [e.id for e in st.targets[0].elts if isinstance(e, ast.Name)]
                break
        if unpack is not None:
            out.append(struct(base + '/param-names', unpack == pn, 'unpack %s vs __param_names__ %s' % (unpack, pn), fn,
                              witness=dict(replayed=False, unpack=unpack, param_names=pn)))
        nargs = len(node.args.args)
        if nargs < 3:
            # ms-command helpers (*_mscore): arity only
            ps = [sym(n) for n in pn]
            ex, paths = MA.run_model(relpath, fname, ps, None, None, hyps=bounds(ps))
            bad = [p for p in paths if p.outcome == 'raise']
            out.append(struct(base + '/arity', not bad and len(paths) >= 1, 'mscore helper runs with %d params; raising paths: %r' % (len(pn), bad), fn))
            return out
        ps = [sym(n) for n in pn]
        ns, pts = Tm('ns'), z3.Int('pts')
        hy = bounds(ps)
        ex, paths = MA.run_model(relpath, fname, ps, ns, pts, hyps=hy)
        bad = [p for p in paths if p.outcome == 'raise']
        if bad:
            e = bad[0].exc
            out.append(struct(base + '/no-raise', False, 'with its %d named parameters in bounds a path raises %s(%s); pc=%s' % (len(pn), e.kind, e.msg, bad[0].pc), fn,
                              witness=_replay_model(relpath, fname, len(pn)), finding_key=base + '/raises-' + e.kind))
            return out
        out.append(struct(base + '/no-raise', len(paths) >= 1, '%d path(s), none raises' % len(paths), fn))
        # too few parameters must be rejected when the tuple is unpacked
        if len(pn) > 0:
            # (asked of every model, however it takes its parameters apart: by unpacking the tuple, by slicing, by indexing)
            ex2, paths2 = MA.run_model(relpath, fname, ps[:-1], ns, pts, hyps=hy)
            ok = bool(paths2) and all(p.outcome == 'raise' for p in paths2)
            out.append(struct(base + '/arity-short', ok, 'one parameter fewer is rejected on every path', fn, finding_key=base + '/arity'))
            ex3, paths3 = MA.run_model(relpath, fname, ps + [sym('extra_parameter')], ns, pts, hyps=hy)
            ok3 = bool(paths3) and all(p.outcome == 'raise' for p in paths3)
            out.append(struct(base + '/arity-long', ok3, 'one parameter more is rejected on every path', fn, finding_key=base + '/arity'))
        # every named parameter reaches the numerical layer on some path (a parameter that is unpacked but never used is a wiring slip),
        # except where the docstring says so
        used = set()

        def _names(e, acc):
            if isinstance(e, z3.ExprRef):
                if z3.is_const(e) and e.decl().kind() == z3.Z3_OP_UNINTERPRETED:
                    acc.add(e.decl().name())
                for ch in e.children():
                    _names(ch, acc)

        def _scan(v, acc, seen):
            if isinstance(v, Tm):
                if v.uid in seen:
                    return
                seen.add(v.uid)
                for a in v.args:
                    _scan(a, acc, seen)
            elif isinstance(v, (tuple, list)):
                for a in v:
                    _scan(a, acc, seen)
            elif isinstance(v, VList):
                for a in v.items:
                    _scan(a, acc, seen)
            elif isinstance(v, Closure):
                # evaluate time functions at a fresh t to see which parameters they mention
                try:
                    ps_ = MA.Fresh().ex.explore(lambda e_: e_.call(v, [z3.Real('t!scan')], {}))
                    for q in ps_:
                        if q.outcome == 'return':
                            _scan(q.value, acc, seen)
                except Exception:
                    pass
            else:
                _names(v, acc)
        for p in paths:
            _scan(p.value, used, set())
            for c_ in p.pc:
                _names(c_, used)
        doc = ast.get_docstring(node) or ''
        unused = [n for n in pn if n not in used and not re.search(r'%s\b[^\n]*not used' % re.escape(n), doc)]
        out.append(struct(base + '/every-parameter-used', not unused, 'named parameters never reaching the numerical layer: %s' % unused if unused else 'all %d named parameters reach the numerical layer' % len(pn), fn,
                          finding_key=base + '/unused-parameter'))
        # selection coefficients are properties of a population for as long as it exists: in a model that names gamma / gamma<k> parameters, every
        # integration step hands each population its own selection coefficient (an epoch integrated without it is a neutral epoch nobody asked for)
        gnames = [n for n in pn if re.fullmatch(r'gamma\d*', n)]
        if gnames:
            missing = []
            for pi_, p in enumerate(paths):
                def visit(t, _pi=pi_):
                    if isinstance(t, Tm) and re.fullmatch(r'call:dadi\.Integration\.(one_pop|two_pops|three_pops|four_pops|five_pops)', t.op or ''):
                        d_ = MA.argdict(t)
                        K_ = {'one_pop': 1, 'two_pops': 2, 'three_pops': 3, 'four_pops': 4, 'five_pops': 5}[t.op.rsplit('.', 1)[1]]
                        for k_ in range(1, K_ + 1):
                            arg = 'gamma' if K_ == 1 else 'gamma%d' % k_
                            want = arg if arg in gnames else ('gamma%d' % k_ if 'gamma%d' % k_ in gnames else ('gamma' if 'gamma' in gnames else None))
                            if want is None:
                                continue
                            acc = set()
                            if arg in d_:
                                _scan(d_[arg], acc, set())
                            if want not in acc:
                                missing.append('path %d: %s(... %s=%s) does not carry %s' % (_pi, t.op.rsplit('.', 1)[1], arg, vrepr(d_.get(arg, 'absent'))[:40], want))
                MA.walk(p.value, visit)
            out.append(struct(base + '/selection-in-every-epoch', not missing, 'every integration step passes each population its selection coefficient' if not missing else '; '.join(missing[:3]), fn,
                              finding_key=base + '/epoch-without-selection'))
        for k, p in enumerate(paths):
            v = p.value
            ok = isinstance(v, Tm) and v.op in ('call:dadi.Spectrum_mod.Spectrum.from_phi', 'call:dadi.Spectrum_mod.Spectrum.from_phi_inbreeding')
            if not ok:
                out.append(struct('%s/result.path%d' % (base, k), False, 'result is not Spectrum.from_phi(...): %s' % vrepr(v)[:200], fn))
                continue
            d = MA.argdict(v)
            xxs = d['xxs']
            grid_ok = isinstance(xxs, tuple) and all(isinstance(x, Tm) and x.op == grid_op() and x.args[0] is pts for x in xxs)
            rank = MA.phi_rank(d['phi'])
            out.append(struct('%s/result.path%d' % (base, k), d['ns'] is ns and grid_ok and rank == len(xxs),
                              'from_phi(phi[rank %s], ns, %d grids from default_grid(pts))' % (rank, len(xxs) if isinstance(xxs, tuple) else -1), fn))
            # dimension bookkeeping at every integrator / constructor
            probs = []

            def visit(t):
                m = re.match(r'call:dadi\.Integration\.(\w+)$', t.op)
                if m and m.group(1) in MA.INTEGRATORS:
                    r = MA.phi_rank(t.args[0])
                    if r is not None and r != MA.INTEGRATORS[m.group(1)]:
                        probs.append('%s applied to a %d-D density' % (m.group(1), r))
                    dd = MA.argdict(t)
                    if dd and not (isinstance(dd['xx'], Tm) and dd['xx'].op == grid_op()):
                        probs.append('%s not given the default grid' % m.group(1))
                m = re.match(r'call:dadi\.PhiManip\.phi_(\d)D_(to|admix)', t.op)
                if m:
                    dd = MA.argdict(t)
                    src = dd.get('phi') or dd.get('phi_1D') or dd.get('phi_2D')
                    r = MA.phi_rank(src) if src is not None else None
                    if r is not None and r != int(m.group(1)):
                        probs.append('%s applied to a %d-D density' % (t.op, r))
            MA.walk(v, visit)
            out.append(struct('%s/dims.path%d' % (base, k), not probs, '; '.join(probs) or 'every integrator/constructor gets a density of its own dimension', fn))
        return out
    return go()


def _replay_model(relpath, fname, k):
    try:
        import importlib, numpy
        m = importlib.import_module(relpath[:-3].replace('/', '.'))
        f = getattr(m, fname)
        pn = f.__param_names__
        vals = []
        for n in pn:
            vals.append(0.3 if n in ('s', 'f', 'F') else (0.5 if n.startswith('T') else 1.3))
        dim = 1 if 'Demographics1D' in relpath else 2
        try:
            f(vals, (4,) * 3, 12)
            return dict(replayed=True, inputs=dict(params=vals), postcondition_holds_natively=True)
        except Exception as e:
            return dict(replayed=True, inputs=dict(params=vals), native_exception=repr(e)[:300], postcondition_holds_natively=False)
    except Exception as e:
        return dict(replayed=False, error=repr(e)[:300])


# ---------------------------------------------------------------- axioms on the integrators
def ob_zero_duration(fname):
    oid = 'C15/Integration.py:%s/zero-duration' % fname
    fn = 'dadi/Integration.py::' + fname

    @guarded(oid, fn)
    def go():
        ex = Executor(max_paths=200)
        f = ex.func('dadi/Integration.py', fname)
        phi = Tm('phi')
        xx = Tm('xx')
        T = z3.Real('T')
        t0 = z3.Real('t0')
        paths = ex.run(f, [phi, xx, T], dict(initial_t=t0), base_pc=[T == t0])
        out = []
        for k, p in enumerate(paths):
            if p.outcome != 'return':
                out.append(struct('%s.path%d' % (oid, k), False, 'raises %s with T == initial_t' % p.exc, fn))
                continue
            v = p.value
            ok = v is phi or (isinstance(v, Tm) and v.op.startswith('call:attr:copy') and v.args == () and 'phi' in v.op)
            ok = ok or (isinstance(v, Tm) and v.op == 'call:attr:copy(phi)')
            out.append(struct('%s.path%d' % (oid, k), bool(ok), 'T == initial_t returns the density unchanged: %s' % vrepr(v)[:80], fn))
        out.append(struct(oid + '.paths', len(paths) >= 1, '%d paths' % len(paths), fn))
        return out
    return go()


def ob_ensure_1arg(fname):
    """Every parameter that may be a function of time is wrapped by Misc.ensure_1arg_func and only the wrapped
    function is used inside the time loop (syntactic dataflow check on the real source)."""
    oid = 'C15/Integration.py:%s/ensure_1arg_func' % fname
    fn = 'dadi/Integration.py::' + fname

    @guarded(oid, fn)
    def go():
        mod = ModInfo.load('dadi/Integration.py')
        node = mod.funcs[fname]
        params = [a.arg for a in node.args.args]
        timevar = [p for p in params if re.match(r'(nu\d?|m\d\d|gamma\d?|h\d?|theta0|beta)$', p)]
        wrapped = {}
        for st in ast.walk(node):
            if isinstance(st, ast.Call) and getattr(st.func, 'attr', None) == 'ensure_1arg_func' \
                    and len(st.args) == 1 and isinstance(st.args[0], ast.Name):
                wrapped[st.args[0].id] = True
        missing = [p for p in timevar if p not in wrapped]
        out = [struct(oid + '.wrapped', not missing, 'time-variable parameters %s all wrapped; missing: %s' % (timevar, missing), fn)]
        # Misc.ensure_1arg_func(c)(t) == c  for a constant, and f(t) for a callable
        ex = Executor(policy=lambda fr: 'inline')
        e1 = ex.func('dadi/Misc.py', 'ensure_1arg_func')
        c, t = z3.Real('c'), z3.Real('t')
        paths = ex.explore(lambda ex: ex.call(ex.apply(e1.node, None, e1.mod, [c], {}, 'ensure_1arg_func'), [t], {}))
        okc = len(paths) >= 1 and all(p.outcome == 'return' for p in paths)
        res = [prove('%s.const.path%d' % (oid, k), p.pc, p.value == c, func='dadi/Misc.py::ensure_1arg_func') for k, p in enumerate(paths) if p.outcome == 'return']
        out.append(struct(oid + '.const', okc, 'ensure_1arg_func(c)(t) returns on all %d paths' % len(paths), 'dadi/Misc.py::ensure_1arg_func'))
        out += res
        return out
    return go()


# ---------------------------------------------------------------- nesting
def _parse_args(s, table):
    if not s.strip():
        return []
    ns = collections.defaultdict(lambda: None)

    class D(dict):
        def __missing__(self, k):
            v = table.setdefault(k, z3.Real(k))
            return v
    return list(eval('(' + s + ',)', {'__builtins__': {}}, D()))


def _locate(q):
    a, name = q.split('.')
    return FILES[a], name


def _axioms(paths):
    """Ground instances of pow/exp/log axioms for the applications occurring in the terms."""
    ax = []
    seen = set()

    def scan(e):
        if not isinstance(e, z3.ExprRef):
            return
        k = e.get_id()
        if k in seen:
            return
        seen.add(k)
        if z3.is_app(e):
            n = e.decl().name()
            if n == 'pow' and e.num_args() == 2:
                b, x = e.arg(0), e.arg(1)
                ax.append(z3.Implies(b == 1, e == 1))
                ax.append(z3.Implies(x == 0, e == 1))
                ax.append(z3.Implies(x == 1, e == b))
            elif n == 'exp' and e.num_args() == 1:
                ax.append(z3.Implies(e.arg(0) == 0, e == 1))
            elif n == 'log' and e.num_args() == 1:
                ax.append(z3.Implies(e.arg(0) == 1, e == 0))
            for c in e.children():
                scan(c)
    return ax, scan


def ob_nest(idx):
    A, sa, B, sb = NESTS[idx]
    oid = 'C15/nest/%s(%s)==%s(%s)' % (A, sa, B, sb)
    fa, na = _locate(A)
    fb, nb = _locate(B)
    fn = '%s::%s' % (fa, na)

    @guarded(oid, fn)
    def go():
        table = {}
        pa, pb = _parse_args(sa, table), _parse_args(sb, table)
        hy = bounds(list(table.values()))
        ns, pts = Tm('ns'), z3.Int('pts')
        exA, pathsA = MA.run_model(fa, na, pa, ns, pts, hyps=hy)
        exB, pathsB = MA.run_model(fb, nb, pb, ns, pts, hyps=hy)
        pathsA = [_admix_zero(p) for p in pathsA]
        pathsB = [_admix_zero(p) for p in pathsB]
        res = MA.compare_paths(pathsA, pathsB, hy + PowAxioms.hyps(), what='')
        out = []
        for k, (ok, detail, model) in enumerate(res):
            o = '%s.pair%d' % (oid, k)
            if ok is True:
                out.append(struct(o, True, detail, fn))
            elif ok is None:
                out.append(struct(o, False, detail, fn, undecided=True))
            else:
                w = _replay_nest(A, pa, B, pb, model, table)
                v = struct(o, False, detail, fn, witness=w, finding_key='C15/nest/%s==%s' % (A, B))
                if w.get('replayed') and w.get('postcondition_holds_natively'):
                    v['verdict'] = 'undecided'
                    v['detail'] = 'term mismatch does not reproduce numerically (abstraction artefact?): ' + detail
                out.append(v)
        return out
    return go()


class PowAxioms:
    """pow/exp/log are uninterpreted; these universally quantified facts are given to z3 with patterns."""
    @staticmethod
    def hyps():
        from vf.pyvc import uf
        x, y = z3.Reals('ax!x ax!y')
        pw, ex, lg = uf('pow', 2), uf('exp'), uf('log')
        return [z3.ForAll([y], pw(z3.RealVal(1), y) == 1, patterns=[pw(z3.RealVal(1), y)]),
                z3.ForAll([x], pw(x, z3.RealVal(0)) == 1, patterns=[pw(x, z3.RealVal(0))]),
                z3.ForAll([x], pw(x, z3.RealVal(1)) == x, patterns=[pw(x, z3.RealVal(1))]),
                ex(z3.RealVal(0)) == 1, lg(z3.RealVal(1)) == 0]


def _admix_zero(path):
    """R5: a pulse with proportion 0 is the identity (C06 contract)."""
    if path.outcome != 'return':
        return path

    def rw(v, memo):
        if isinstance(v, Tm):
            if v.uid in memo:
                return memo[v.uid]
            args = [rw(a, memo) for a in v.args]
            m = re.match(r'call:dadi\.PhiManip\.phi_\dD_admix_', v.op)
            if m and v.attrs.get('__argnames__'):
                d = dict(zip(v.attrs['__argnames__'], args))
                fs = [d[k] for k in d if re.match(r'f\d?$', k)]
                if fs and all((not isinstance(f, z3.ExprRef)) and f == 0 for f in fs):
                    memo[v.uid] = d['phi']
                    return d['phi']
            n = Tm(v.op, *args)
            n.attrs = dict(v.attrs)
            memo[v.uid] = n
            return n
        if isinstance(v, tuple):
            return tuple(rw(a, memo) for a in v)
        return v
    path.value = rw(path.value, {})
    return path


def _replay_nest(A, pa, B, pb, model, table):
    """Evaluate both models numerically at the counter-model (or default points) on a small grid.  A structural mismatch comes without a model of the
    path condition, so several default points are tried - equal durations, durations increasing and decreasing in the order of the parameter list
    (models branch on comparisons such as T < Ts), sizes all different - and the first one at which the two spectra differ is the witness."""
    try:
        import importlib, numpy
        base = {}
        for n in table:
            v = None
            if model and n in model:
                try:
                    from vf.helpers import _frac
                    v = float(_frac(model[n]))
                except Exception:
                    v = None
            if v is None or not (1e-3 < abs(v) < 50) and not n.startswith('g'):
                v = 0.3 if n in ('s', 'f') else (0.2 if n.startswith('T') else (0.7 if n.startswith('m') else (1.5 if n.startswith('nu') else -1.0)))
            base[n] = v
        times = [n for n in table if n.startswith('T')]
        sizes = [n for n in table if n.startswith('nu')]
        cands = [dict(base)]
        for order in (times, times[::-1]):
            c = dict(base)
            for r_, n in enumerate(order):
                c[n] = 0.1 + 0.15 * r_
            for r_, n in enumerate(sizes):
                c[n] = 0.6 + 0.9 * r_
            cands.append(c)
        fa, na = _locate(A)
        fb, nb = _locate(B)
        ma = importlib.import_module(fa[:-3].replace('/', '.'))
        mb = importlib.import_module(fb[:-3].replace('/', '.'))
        dim = 3 if A.startswith('p3') or A.startswith('d3') else (1 if A.startswith('d1') or na in ('equil', 'two_epoch_sel', 'three_epoch_sel', 'growth_sel', 'bottlegrowth_1d_sel') else 2)
        ns = (4,) * dim
        pts = 12
        res = None
        for vals in cands:
            def ev(args):
                out = []
                for a in args:
                    if isinstance(a, z3.ExprRef):
                        sub = [(z3.Real(k), z3.RealVal(repr(float(v)))) for k, v in vals.items()]
                        r = z3.simplify(z3.substitute(a, *sub))
                        out.append(float(r.numerator_as_long()) / float(r.denominator_as_long()))
                    else:
                        out.append(float(a))
                return out
            ra = getattr(ma, na)(ev(pa), ns, pts)
            rb = getattr(mb, nb)(ev(pb), ns, pts)
            err = float(numpy.ma.max(numpy.ma.abs(ra - rb) / (numpy.ma.abs(rb) + 1e-300)))
            res = dict(replayed=True, inputs=dict(A=A, paramsA=ev(pa), B=B, paramsB=ev(pb), ns=list(ns), pts=pts), max_rel_diff=err,
                       postcondition_holds_natively=bool(err <= 1e-9), points_tried=len(cands))
            if not res['postcondition_holds_natively']:
                break
        return res
    except Exception as e:
        return dict(replayed=False, error=repr(e)[:400])


def ob_nest_canary():
    """A deliberately wrong nesting (swapped asymmetric rates) must be refuted."""
    oid = 'C15/nest/canary'
    fn = 'dadi/Demographics2D.py::split_asym_mig'

    @guarded(oid, fn)
    def go():
        table = {}
        pa = _parse_args('nu1,nu2,T,m12,m21', table)
        pb = _parse_args('nu1,nu2,0,T,m21,m12', table)
        hy = bounds(list(table.values()))
        ns, pts = Tm('ns'), z3.Int('pts')
        exA, pathsA = MA.run_model(FILES['d2'], 'split_asym_mig', pa, ns, pts, hyps=hy)
        exB, pathsB = MA.run_model(FILES['d2'], 'split_delay_mig', pb, ns, pts, hyps=hy)
        res = MA.compare_paths(pathsA, pathsB, hy)
        refuted = any(ok is False for ok, _, _ in res)
        return [R(oid, 'struct', 'proved' if refuted else 'canary-verified', backend='ast+z3', detail='canary: %s' % (res,), func=fn, canary=True)]
    return go()


MANIFEST_ENTRY = dict(
    category='other',
    technique='program algebra: each model function symbolically executed from its source with the numerical layer uninterpreted; '
              'arity, dimension bookkeeping and a 140-row nesting table decided as first-order term equalities (scalar leaves by z3); '
              'bounded numerical nesting as complement',
    text='For all 107 functions carrying __param_names__: the unpacked names equal the declared names in order, no path raises for '
         'parameters in the documented bounds, one parameter fewer or one more is rejected (asked of every model), the result is from_phi of a density of the right '
         'dimension on default_grid(pts) with the requested sample sizes, and every integrator/constructor is applied to a density of '
         'its own dimension. The nesting table (zero migration, zero-length epochs, equal asymmetric rates, zero/equal selection) is '
         'proved as equality of the wiring terms for all parameter values, using two axioms that are themselves discharged on '
         'Integration.py (zero-duration integration is the identity; constants go through ensure_1arg_func). Every epoch of a *_sel model receives the '
         'model\'s selection parameter for every population. Label-swap equivariance, '
         'finiteness and non-negativity are bounded numerical checks only.',
    note='numerical layer abstract (its contracts are C01-C06); pow/exp/log uninterpreted with five ground axioms; pulses with proportion 0 '
         'are the identity (C06); E2 executor semantics; symmetric-model equivariance not proved',
)
