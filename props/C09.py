"""C09 - Folding and ancestral misidentification conserve counts; symmetric, idempotent

Contracts (contracts/py_wiring.py c09_*): fold / unfold entry-wise and mask laws with every entry and mask bit symbolic on small shapes
(total conserved, mirror-invariance, fold(unfold(fold(x))) = fold(x)), refusal of mixed folding in arithmetic, misidentification mix.
Larger shapes, slicing and likelihood interplay stay with the bounded drivers (props/bounded_C09.py).
"""
from vf.helpers import bounded_tasks

META = dict(
    level='other',
    explanation='Wiring / closed-form / memo-key contracts generated from the real source and discharged by z3 and the ring normaliser for the functions within reach (see coverage.obligations); the remaining clauses are run-time contracts over the bounded domain stated per driver (bounded stand-in, never counted as proved).',
    trusted_base=['oracles of props/bounded_C09.py (independent of dadi: exact rationals, mpmath, dense linear algebra, explicit index loops)'],
    rule='cases enumerated or sampled as stated in each driver\'s bound; a case is non-trivial unless the driver marks it degenerate; distinct by its key',
)


def tasks(tier):
    from vf.core import Task
    return [Task('props.wire:run', name='C09/wire.c09_check_other_folding', fname='c09_check_other_folding', timeout=300), Task('props.wire:run', name='C09/wire.c09_misid', fname='c09_misid', timeout=300), Task('props.wire:run', name='C09/wire.c09_operators', fname='c09_operators', timeout=300)] + [Task('props.wire:run', name='C09/wire.fold.ns' + '_'.join(map(str, ns)), fname='c09_fold', kwargs=dict(ns=list(ns)), timeout=600) for ns in ([(4,), (5,), (2, 3)] + ([(7,), (8,), (3, 3), (2, 1, 2)] if tier == 'thorough' else []))] + bounded_tasks('C09', tier)


MANIFEST_ENTRY = dict(
    category='other',
    engine='bounded',
    technique='sidecar contracts on the real functions: wiring / closed-form obligations from the AST discharged by z3 and the ring normaliser where the functions are within reach; bounded run-time contracts with independent oracles for the rest (never counted as proved)',
    text='Discharged from the real source on every run (all values, stated small shapes): fold/unfold entry-wise and mask-wise with every entry and mask bit symbolic (n=4, 5, (2,3)): total conserved, mirror-invariant, fold(unfold(fold x)) = fold x incl. masks, folded input refused; operator folding guard (iff); the exec-generated operator methods (table complete for + - * / // **, folding check first, data/mask/flags/labels/extrap_x per method); misidentification mix and wrapper. Bounded run-time contracts (never counted as proved): Fold/unfold entry and mask laws on every shape with 1-5 dims and sizes <= 4, misidentification, operator overloads.',
    note='bounded: see coverage.bounded.drivers[].bound in the evidence file for the exact domain of every driver',
)
